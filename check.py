#!/usr/bin/env python3
"""usage: check.py <Cxx> [--tier quick|thorough] [--replay FILE]
exit 0 = the property held on everything explored; exit 1 + a line
`VIOLATION property=<id> replay=<path>` otherwise.  Seed: env VERIF_SEED (default 1)."""
import sys, os, importlib, argparse, traceback
HERE = os.path.dirname(os.path.abspath(__file__))
sys.path.insert(0, os.path.join(HERE, "lib"))
import framework as F


def main():
    ap = argparse.ArgumentParser()
    ap.add_argument("prop")
    ap.add_argument("--tier", default=os.environ.get("VERIF_TIER", "quick"), choices=["quick", "thorough"])
    ap.add_argument("--replay")
    a = ap.parse_args()
    seed = int(os.environ.get("VERIF_SEED", "1") or 1)
    prop = a.prop.upper()
    mod = importlib.import_module(f"props.{prop.lower()}")
    if a.replay:
        return mod.replay(a.replay)
    rep = F.Report(prop, a.tier, seed)
    # the hand-written model is tied to the source text it was written after: when an anchored source file
    # has changed, the model may be stale, so this run generates cases at the thorough tier's depth
    import anchors
    stale = anchors.changed(prop)
    gen_tier = a.tier
    # only where the thorough tier is measured to stay within a couple of minutes (DESIGN 11.7)
    ESCALATE = {"C03", "C04", "C05", "C07", "C08", "C09", "C10", "C12", "C15", "C16", "C19"}
    if stale and prop not in ESCALATE:
        rep.extra["anchored_sources_changed"] = stale
        rep.notes.append(f"NOTE property={prop}: source changed since the model was written ({', '.join(stale)})")
    elif stale and os.environ.get("VERIF_NO_ESCALATE") != "1":
        gen_tier = "thorough"
        rep.extra["anchored_sources_changed"] = stale
        rep.notes.append(f"NOTE property={prop}: source changed since the model was written ({', '.join(stale)}); "
                         f"case generation escalated to the thorough tier for this run")
    if gen_tier == "quick" and "VERIF_RUN_TIMEOUT" not in os.environ:
        F.DEFAULT_RUN_TIMEOUT = 300
    try:
        return mod.main(rep, gen_tier, seed)
    except Exception:
        # a crash of the machinery is never reported as a pass
        tb = traceback.format_exc()
        print(tb)
        rep.violation("machinery_error", {"kind": "check machinery failed", "traceback": tb}, no_input=True)
        return rep.finish("proof", {"evaluations": 0, "distinct_nontrivial": 0, "explanation": "machinery error",
                                    "obligations": 1, "discharged": 0, "checker_cmd": "n/a", "trusted_base": []}, [])


if __name__ == "__main__":
    sys.exit(main())
