#!/usr/bin/env python3
"""convfloat_proofs -- per-function proof scripts for the FLOAT conversions of conv.rs (property C02).

Uses translate/conv2coq.py as a library: the functions themselves are emitted by conv2coq into
coq/gen/ConvFloatGen.v; this module emits, for what `Sample::to_sample` DISPATCHES to (impl_from_sample!
tables as parsed by conv2coq.Source),

  gen/ConvFloatProofs_i2f32.v, _i2f64.v   integer format -> f32 / f64 : one lemma per format, one tactic each
  gen/ConvFloatProofs_f2i32.v, _f2i64.v   f32 / f64 -> integer format : one lemma per format, one tactic each
  gen/ConvFloatCorrect.v                  assembly over `fmt`, and what f32 <-> f64 dispatch to

The statements are fixed (Sample/ConvFloatSpec.v); the proofs are the tactics of Sample/ConvFloatTactics.v
applied to whatever conv2coq generated on this run, so a change of conv.rs that changes a function's meaning
breaks the lemma that names that function.
"""
import os, sys

HERE = os.path.dirname(os.path.abspath(__file__))
sys.path.insert(0, HERE)
import conv2coq as T

FLOATS = {"f32": (24, 128), "f64": (53, 1024)}


def lemma_i2f(s, ft):
    return f"conv_{s.lower()}_{ft}_ok"


def lemma_f2i(ft, d):
    return f"conv_{ft}_{d.lower()}_ok"


HEAD = [T.HEADER, "Require Import Floats.SpecFloat.", "Require Import ZArith Bool Lia Reals.",
        "From Flocq Require Import Core BinarySingleNaN.",
        "From Dasp Require Import Base.Res Base.Float Base.FloatLemmas Sample.Rint Sample.ConvSpec Sample.ConvFloatSpec Sample.ConvFloatTactics.",
        "From DaspGen Require Import ConvGen ConvFloatGen.", "Open Scope Z_scope.", ""]


def gen_i2f(S, ft):
    p, e = FLOATS[ft]
    o = list(HEAD)
    o.append(f"(* what Sample::to_sample::<{ft}>() dispatches to for each integer format: returns (no panic, either build\n"
             f"   profile) a finite float whose value is round_NE(amplitude) / 2^(bits-1) -- the integer is rounded once to\n"
             f"   the {p}-bit mantissa, the division by the power of two is exact *)")
    for s in T.FORMATS:
        key = S.dispatch[(s, ft)]
        o.append(f"Lemma {lemma_i2f(s, ft)} : forall m z, in_range {T.FMT_CTOR[s]} z ->\n"
                 f"  i2f_spec {p} {e} {T.FMT_CTOR[s]} z (to_sample_{ft}_of_int m {T.FMT_CTOR[s]} z).\n"
                 f"Proof. solve_i2f. Qed.  (* {key[0]}::{key[1]} *)")
    return "\n".join(o) + "\n"


def gen_f2i(S, ft):
    p, e = FLOATS[ft]
    o = list(HEAD)
    o.append(f"(* what {ft}::to_sample::<D>() dispatches to for each integer format D, on the documented domain (finite,\n"
             f"   -1 <= f < 1): returns (no panic, either build profile) trunc(f * 2^(bits-1)), re-offset for unsigned D *)")
    for d in T.FORMATS:
        key = S.dispatch[(ft, d)]
        o.append(f"Lemma {lemma_f2i(ft, d)} : forall m f, in_domain {p} {e} f ->\n"
                 f"  to_sample_int_of_{ft} m {T.FMT_CTOR[d]} f = Ok (f2i_val {p} {e} {T.FMT_CTOR[d]} f).\n"
                 f"Proof. solve_f2i. Qed.  (* {key[0]}::{key[1]} *)")
    return "\n".join(o) + "\n"


def gen_correct(S):
    o = [T.HEADER, "Require Import Floats.SpecFloat.", "Require Import ZArith Bool Lia Reals.",
         "From Flocq Require Import Core BinarySingleNaN.",
         "From Dasp Require Import Base.Res Base.Float Sample.Rint Sample.ConvSpec Sample.ConvFloatSpec Sample.ConvFloatTactics.",
         "From DaspGen Require Import ConvGen ConvFloatGen ConvFloatProofs_i2f32 ConvFloatProofs_i2f64 ConvFloatProofs_f2i32 ConvFloatProofs_f2i64.",
         "Open Scope Z_scope.", ""]
    for ft, (p, e) in FLOATS.items():
        o.append(f"Lemma to_{ft}_correct : forall m i z, in_range i z -> i2f_spec {p} {e} i z (to_sample_{ft}_of_int m i z).")
        o.append("Proof.\n  intros m i z; destruct i.")
        for s in T.FORMATS:
            o.append(f"  - exact ({lemma_i2f(s, ft)} m z).")
        o.append("Qed.\n")
        o.append(f"Lemma of_{ft}_correct : forall m i f, in_domain {p} {e} f -> to_sample_int_of_{ft} m i f = Ok (f2i_val {p} {e} i f).")
        o.append("Proof.\n  intros m i f; destruct i.")
        for d in T.FORMATS:
            o.append(f"  - exact ({lemma_f2i(ft, d)} m f).")
        o.append("Qed.\n")
    o.append("(* f32 <-> f64: what the dispatch calls is the `as` cast, i.e. Base/Float.v's gconv *)")
    o.append("Lemma f32_f64_def : forall m x, to_sample_f32_f64 m x = Ok (Float.f32_to_f64 x).\nProof. conv_f2f_def. Qed.")
    o.append("Lemma f64_f32_def : forall m x, to_sample_f64_f32 m x = Ok (Float.f64_to_f32 x).\nProof. conv_f2f_def. Qed.")
    return "\n".join(o) + "\n"


FILES = ["ConvFloatProofs_i2f32.v", "ConvFloatProofs_i2f64.v", "ConvFloatProofs_f2i32.v", "ConvFloatProofs_f2i64.v", "ConvFloatCorrect.v"]


def generate(S, outdir=T.GEN):
    """S: a conv2coq.Source. Returns the list of files rewritten."""
    for ft in FLOATS:
        for f in T.FORMATS:
            if (f, ft) not in S.dispatch or (ft, f) not in S.dispatch:
                raise T.TranslateError(f"conv.rs: no conversion between {f} and {ft}: the property quantifies over all 12 formats x {{f32, f64}}")
    files = {"ConvFloatProofs_i2f32.v": gen_i2f(S, "f32"), "ConvFloatProofs_i2f64.v": gen_i2f(S, "f64"),
             "ConvFloatProofs_f2i32.v": gen_f2i(S, "f32"), "ConvFloatProofs_f2i64.v": gen_f2i(S, "f64"),
             "ConvFloatCorrect.v": gen_correct(S)}
    return [n for n, c in files.items() if T.write_if_changed(os.path.join(outdir, n), c)]


def main():
    try:
        S, changed = T.generate()
        changed += generate(S)
    except T.TranslateError as e:
        print("TRANSLATE-ERROR:", e)
        return 2
    print(f"convfloat_proofs: rewritten: {changed or 'nothing'}")
    return 0


if __name__ == "__main__":
    sys.exit(main())
