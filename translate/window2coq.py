#!/usr/bin/env python3
"""window2coq.py -- strict translator from dasp_signal/src/window/mod.rs (current working tree) to
coq/gen/WindowGen.v: shallow Gallina in the `res` monad (Base/Res.v), one definition per Rust method of
`Window`, `Windower` and `Windowed`, in the vocabulary of the hand model Signal/Window.v plus
Signal/WindowPrim.v, sub-expressions bound in Rust's order of evaluation.  Front end: translate/rustmini.py
(ring2coq's lexer / parser / term language + floats, closures, turbofish, qualified paths, `[n..]`).

What is TRANSLATED (token by token, nothing skipped): the bodies of
    Window::new        `len as f64 - 1.0`, the calls crate::rate(..).const_hz(1.0) and crate::phase(step), the struct literal
    Windower::new      the struct literal (which argument goes to which field)
    Window::next       the order next_phase -> W::window -> to_sample (f64 -> Float) -> from_fn(|_| to_sample::<F::Sample>)
    Windower::next     `let num_frames`, the test `bin <= num_frames`, the slice `[..bin]`, Window::new(bin), the hop
                       test `hop < num_frames`, the slice `[hop..]` / `&[]`, the store to self.frames, the item
                       Windowed { signal: from_iter(frames.iter().cloned()), window }
    Windower::size_hint  both tests, the early `return (usize::MAX, None)`, `len - bin`, `/ hop + 1`, both tuples
    Windowed::next     window.next().map(|w_f| { let s_f = signal.next(); s_f.mul_amp(w_f) }): the Option the
                       window iterator returns decides, the signal is pulled only in the Some branch, after the window
What is NOT translated but CALLED as hand-written vocabulary (defined outside window/mod.rs; Signal/Window.v,
Signal/WindowPrim.v): f64 `-`, `/` and `usize as f64` (the record `arith`: Coq reals or IEEE binary64), the float
literals 0.0 / 0.5 / 1.0 (fields of that record; any other literal is rejected), crate::rate / Rate::const_hz /
crate::phase / Phase::next_phase (lib.rs), crate::from_iter and Signal::next of FromIterator (lib.rs), W::window (the
window function: a parameter `wfun`; Hann / Rectangle are dasp_window), Sample::to_sample (parameters `conv`, `back`),
Frame::from_fn and Frame::mul_amp (dasp_frame; `frame_from_fn`, `frame_mul_amp` over the parameter `smul`).

Everything outside the grammar is a TranslateError: other items (free fns, extra impls, extra / missing / overridden
methods -- the SET of methods is pinned, an overridden `last`/`nth`/`count` has no counterpart in the model), changed
`use` lines, struct fields, impl headers / where clauses / associated types (token text pinned), loops, `match`,
`if let`, `?`, macros, unary minus, compound assignment, casts other than `usize as f64`, float comparisons, any
method or function not listed in `mcall` / `call` below."""
import os, re, sys

HERE = os.path.dirname(os.path.abspath(__file__))
sys.path.insert(0, HERE)
import rustmini as M  # noqa: E402
from rustmini import TranslateError, Ret, Call, mk_bind, simplify, emit, as_pure, text_of, tuple_text, qty_text, MatchOpt  # noqa: E402

VERIF = os.path.dirname(HERE)
DEFAULT_SRC = os.path.join(os.environ.get("DASP_REPO", "/repo"), "dasp_signal", "src", "window", "mod.rs")
OUT = os.path.join(VERIF, "coq", "gen", "WindowGen.v")
LABEL = "window/mod.rs"


def err(line, msg):
    raise TranslateError(f"{LABEL}:{line}: {msg}")


def squash(s):
    return re.sub(r"\s+", "", s)


# ---------------------------------------------------------------------------------------------
# pinned items (token text, white space removed)

PINNED_USES = {
    "usecrate::{ConstHz,FromIterator,Phase,Signal};",
    "usecore::marker::PhantomData;",
    "usedasp_frame::Frame;",
    "usedasp_sample::Sample;",
    "usedasp_window::WindowasWindowType;",
    '#[cfg(feature="window-hann")]pubusehann::hann;',
    '#[cfg(feature="window-rectangle")]pubuserectangle::rectangle;',
    '#[cfg(feature="window-hann")]modhann;',
    '#[cfg(feature="window-rectangle")]modrectangle;',
}
WBOUND = "W:WindowType<f64,Output=f64>,"
PINNED_STRUCTS = {
    "Window": "pubstructWindow<F,W>whereF:Frame," + WBOUND + "{pubphase:Phase<ConstHz>,marker:PhantomData<(F,W)>,}",
    "Windower": "pubstructWindower<'a,F,W>whereF:'a+Frame," + WBOUND + "{pubbin:usize,pubhop:usize,pubframes:&'a[F],wttype:PhantomData<W>,}",
    "Windowed": "pubstructWindowed<S,W>whereS:Signal," + WBOUND + "{signal:S,window:Window<<S::FrameasFrame>::Float,W>,}",
}
# impl header (up to `{`) -> (owner, trait, pinned associated types, methods)
PINNED_IMPLS = {
    "impl<F,W>Window<F,W>whereF:Frame," + WBOUND: ("Window", None, [], ["new"]),
    "impl<'a,F,W>Windower<'a,F,W>whereF:'a+Frame," + WBOUND: ("Windower", None, [], ["new"]),
    "impl<F,W>IteratorforWindow<F,W>whereF:Frame," + WBOUND: ("Window", "Iterator", ["typeItem=F;"], ["next"]),
    "impl<'a,F,W>IteratorforWindower<'a,F,W>whereF:'a+Frame," + WBOUND:
        ("Windower", "Iterator", ["typeItem=Windowed<FromIterator<core::iter::Cloned<core::slice::Iter<'a,F>>>,W>;"], ["next", "size_hint"]),
    "impl<S,W>IteratorforWindowed<S,W>whereS:Signal," + WBOUND: ("Windowed", "Iterator", ["typeItem=S::Frame;"], ["next"]),
}

# ---------------------------------------------------------------------------------------------
# kinds: the Coq representation of a Rust type

NAT, BOOL, F64, FLT, WSMP, SMP, FRAMES, RATE, CONSTHZ, PHASE, SIGNAL, ITERREF, ITERVAL, HINT, PHANTOM, UNIT, USIZEMAX = (
    ("nat",), ("bool",), ("f64",), ("flt",), ("wsmp",), ("smp",), ("frames",), ("rate",), ("consthz",), ("phase",),
    ("signal",), ("iterref",), ("iterval",), ("hint",), ("phantom",), ("unit",), ("usizemax",))


def OPT(k):
    return ("opt", k)


def TUP(ks):
    return ("tuple", tuple(ks))


def FRAME(k):
    return ("frame", k)


def REC(n):
    return ("rec", n)


COQ_OF_KIND = {"nat": "nat", "bool": "bool", "f64": "T N", "flt": "FS", "wsmp": "WS", "smp": "Smp",
               "frames": "list (list Smp)", "rate": "T N", "consthz": "T N", "phase": "phase N", "signal": "from_iter Smp",
               "iterref": "list (list Smp)", "iterval": "list (list Smp)", "hint": "hint", "unit": "unit"}
REC_COQ = {"Window": "phase N", "WindowF": "phase N", "Windower": "windower (list Smp)", "Windowed": "windowed N Smp"}


def paren(t):
    return t if " " not in t or (t.startswith("(") and t.endswith(")") and t.count("(") == 1) else f"({t})"


def coq_type(k):
    h = k[0]
    if h in COQ_OF_KIND:
        return COQ_OF_KIND[h]
    if h == "opt":
        if k[1] is None:
            raise TranslateError("internal: undetermined Option type")
        return f"option {paren(coq_type(k[1]))}"
    if h == "tuple":
        return "(" + " * ".join(paren(coq_type(x)) for x in k[1]) + ")"
    if h == "frame":
        return f"list {paren(coq_type(k[1]))}"
    if h == "rec":
        return REC_COQ[k[1]]
    raise TranslateError(f"internal: kind {k} has no Coq type")


def kinds_agree(a, b):
    if a is None or b is None:
        return True
    if a[0] == "rec" and b[0] == "rec" and {a[1], b[1]} <= {"Window", "WindowF"}:
        return True      # both are `phase N`: Window::new does not depend on the frame type
    if a[0] != b[0]:
        return False
    if a[0] in ("opt", "frame"):
        return kinds_agree(a[1], b[1])
    if a[0] == "tuple":
        return len(a[1]) == len(b[1]) and all(kinds_agree(x, y) for x, y in zip(a[1], b[1]))
    return a == b


# parameters of the generated definitions: name -> (Coq type, the parameters that type mentions)
CTX = [("N", "arith", []), ("wfun", "T N -> T N", ["N"]), ("Smp", "Type", []), ("FS", "Type", []), ("WS", "Type", []),
       ("conv", "T N -> FS", ["N", "FS"]), ("back", "FS -> WS", ["FS", "WS"]), ("smul", "Smp -> FS -> Smp", ["Smp", "FS"]),
       ("equilibrium", "Smp", ["Smp"]), ("nch", "nat", [])]
CTX_DOC = {"N": "the arithmetic of f64 (Signal/Window.v [arith]: Coq reals, or IEEE binary64)",
           "wfun": "W::window on f64 phases (dasp_window: Hann or Rectangle)",
           "Smp": "the sample type of the signal's frames; a frame is a list of samples",
           "FS": "<Sample>::Float, the float companion of the sample type",
           "WS": "F::Sample of a Window<F, W>",
           "conv": "f64 .to_sample::<Float>()", "back": "Float .to_sample::<F::Sample>()",
           "smul": "Sample::mul_amp", "equilibrium": "Sample::EQUILIBRIUM", "nch": "Frame::CHANNELS"}
# Windowed's field `window: Window<<S::Frame as Frame>::Float, W>`: F::Sample is the Float type itself
WINDOWF_INST = {"WS": "FS", "back": "(fun x => x)"}

STRUCT_FIELDS = {
    "Window": [("phase", PHASE), ("marker", PHANTOM)],
    "Windower": [("bin", NAT), ("hop", NAT), ("frames", FRAMES), ("wttype", PHANTOM)],
    "Windowed": [("signal", SIGNAL), ("window", REC("WindowF"))],
}
# (projection text, setter) -- a Window IS its phase
FIELD_COQ = {
    ("Windower", "bin"): ("(bin {s})", None), ("Windower", "hop"): ("(hop {s})", None),
    ("Windower", "frames"): ("(frames {s})", "with_frames"),
    ("Windowed", "signal"): ("(wd_signal N Smp {s})", "with_wd_signal"), ("Windowed", "window"): ("(wd_window N Smp {s})", "with_wd_window"),
    ("Window", "phase"): ("{s}", "self"), ("WindowF", "phase"): ("{s}", "self"),
}
LITERAL = {"Window": "{phase}", "Windower": "{{| bin := {bin}; hop := {hop}; frames := {frames} |}}",
           "Windowed": "(mkWd N Smp {signal} {window})"}
FLOAT_LITS = {"1.0": "(one N)", "0.0": "(zero N)", "0.5": "(half N)"}
ITEM_KIND = {"Window": OPT(FRAME(WSMP))[1], "Windower": REC("Windowed"), "Windowed": FRAME(SMP)}
WORD_S = re.compile(r"(?<![\w'])s(?![\w'])")


# ---------------------------------------------------------------------------------------------
# file level

def parse_file(src):
    p = M.Parser(M.lex(src))
    fns, seen_uses, seen_structs, seen_impls = [], set(), set(), set()
    while p.peek().k != "eof":
        start = p.i
        attrs = p.attrs()
        t = p.peek()
        for a, inner, line in attrs:
            if inner:
                err(line, f"crate attribute {a} is outside the translator's grammar")
        if t.k == "eof":
            if attrs:
                err(attrs[0][2], "attribute without item")
            break
        if p.at("use") or p.at("mod") or (p.at("pub") and p.peek(1).t in ("use", "mod")):
            while not p.at(";"):
                if p.at("{") and p.toks[start].t == "mod" or p.next().k == "eof":
                    err(t.line, "unsupported `use` / `mod` item")
            p.next()
            txt = squash(text_of(p.toks[start:p.i]))
            if txt not in PINNED_USES:
                err(t.line, f"`{text_of(p.toks[start:p.i])}`: not one of the imports the model was written for "
                            "(a name of the file could mean something else)")
            if txt in seen_uses:
                err(t.line, "duplicate import")
            seen_uses.add(txt)
        elif (p.at("pub") and p.peek(1).t == "struct") or p.at("struct"):
            for a, _, line in attrs:
                if not a.startswith("#[derive("):
                    err(line, f"attribute {a} on a struct")
            s0 = p.i
            p.eat("pub")
            p.expect("struct")
            name = p.ident()
            while not p.at("{"):
                if p.next().k in ("eof",) or p.at(";"):
                    err(t.line, f"struct {name}: unsupported form")
            p.balanced("{", "}")
            txt = squash(text_of(p.toks[s0:p.i]))
            if name not in PINNED_STRUCTS:
                err(t.line, f"unknown struct {name}")
            if txt != PINNED_STRUCTS[name]:
                err(t.line, f"struct {name}: definition differs from the one the model was written for")
            if name in seen_structs:
                err(t.line, f"struct {name} defined twice")
            seen_structs.add(name)
        elif p.at("impl"):
            if attrs:
                err(attrs[0][2], f"attribute {attrs[0][0]} on an impl")
            s0 = p.i
            while not p.at("{"):
                if p.next().k == "eof" or p.at(";"):
                    err(t.line, "malformed impl header")
            head = squash(text_of(p.toks[s0:p.i]))
            if head not in PINNED_IMPLS:
                err(t.line, f"`{text_of(p.toks[s0:p.i])[:90]}`: impl without counterpart in the hand model")
            if head in seen_impls:
                err(t.line, "the same impl twice")
            seen_impls.add(head)
            owner, trait, assoc, methods = PINNED_IMPLS[head]
            p.expect("{")
            have, have_assoc = [], []
            while not p.at("}"):
                ia = p.attrs()
                it = p.peek()
                if p.at("type"):
                    if ia:
                        err(it.line, "attribute on an associated type")
                    a0 = p.i
                    while not p.at(";"):
                        if p.next().k == "eof":
                            err(it.line, "unterminated associated type")
                    p.next()
                    have_assoc.append(squash(text_of(p.toks[a0:p.i])))
                elif p.at("fn") or p.at("pub") or p.at("unsafe"):
                    # the name first: a method without counterpart is reported as such, whatever its body looks like
                    j = p.i
                    while p.toks[j].t != "fn" and p.toks[j].k != "eof" and j < p.i + 4:
                        j += 1
                    if p.toks[j].t == "fn" and p.toks[j + 1].k == "id" and p.toks[j + 1].t not in methods:
                        err(it.line, f"impl {trait or '(inherent)'} for {owner}: method `{p.toks[j + 1].t}` has no counterpart in the hand model "
                                     "(an overridden iterator method changes what the public API does)")
                    f = p.fn(ia)
                    if f["unsafe"]:
                        err(f["line"], "unsafe fn")
                    if f["generics"] or f["where"]:
                        err(f["line"], f"{owner}::{f['name']}: generic methods are outside the grammar")
                    have.append(f["name"])
                    fns.append((owner, trait, f))
                else:
                    err(it.line, f"unsupported impl item at {it.t!r}")
            p.expect("}")
            where = f"impl {trait or '(inherent)'} for {owner}"
            if sorted(have_assoc) != sorted(assoc):
                err(t.line, f"{where}: associated types {have_assoc} differ from the modelled {assoc}")
            extra = [m for m in have if m not in methods]
            missing = [m for m in methods if m not in have]
            if extra:
                err(t.line, f"{where}: method(s) {extra} have no counterpart in the hand model "
                            "(an overridden iterator method changes what the public API does)")
            if missing:
                err(t.line, f"{where}: method(s) {missing} the hand model describes are gone")
            if len(set(have)) != len(have):
                err(t.line, f"{where}: duplicate methods")
        else:
            err(t.line, f"unsupported item at {t.t!r}")
    for u in PINNED_USES - seen_uses:
        raise TranslateError(f"{LABEL}: the import `{u}` the model was written for is gone")
    for n in PINNED_STRUCTS:
        if n not in seen_structs:
            raise TranslateError(f"{LABEL}: struct {n} not found")
    for h, (owner, trait, _, _) in PINNED_IMPLS.items():
        if h not in seen_impls:
            raise TranslateError(f"{LABEL}: impl {trait or '(inherent)'} for {owner} not found")
    return fns


# ---------------------------------------------------------------------------------------------
# function bodies

def mutates(node):
    """can evaluating this expression update `self` (a store, or a `&mut self` method of a field / of self)?"""
    found = []

    def f(n):
        if not n:
            return
        if n[0] == "assign" and len(n) == 5:
            found.append(1)
        if n[0] == "mcall" and len(n) >= 5 and isinstance(n[3], str) and n[3] in ("next", "next_phase", "next_phase_wrapped_to"):
            found.append(1)
    M.walk(node, f)
    return bool(found)


def coq_name(owner, name):
    return f"{owner}_{name}"


class Gen:
    """all definitions of one source text; a callee is translated before its caller"""

    def __init__(self, fns):
        self.table = {(o, f["name"]): (o, tr, f) for o, tr, f in fns}
        if len(self.table) != len(fns):
            raise TranslateError(f"{LABEL}: two methods of the same name on one type")
        self.done, self.order, self.active = {}, [], []

    def get(self, owner, name, line):
        key = (owner, name)
        if key not in self.table:
            err(line, f"unknown method {owner}::{name}")
        if key in self.done:
            return self.done[key]
        if key in self.active:
            err(line, "recursive methods: " + " -> ".join(f"{o}::{n}" for o, n in self.active + [key]))
        self.active.append(key)
        o, tr, f = self.table[key]
        d = FnTranslator(self, o, tr, f).translate()
        self.active.pop()
        self.done[key] = d
        self.order.append(d)
        return d


class FnTranslator:
    def __init__(self, gen, owner, trait, f):
        self.gen, self.owner, self.trait, self.f = gen, owner, trait, f
        self.ntmp = 0
        self.self_mode = f["self_mode"]
        self.mut_locals = set()
        self.callee_ctx = set()

    def tmp(self):
        self.ntmp += 1
        return f"t{self.ntmp}"

    # ---- Rust types -> kinds ----
    def kind(self, ty, line):
        if ty is None:
            return UNIT
        h = ty[0]
        txt = squash(qty_text(ty))
        if h == "path":
            name, args = "::".join(ty[1]), ty[2]
            if not args:
                if name == "usize":
                    return NAT
                if name == "bool":
                    return BOOL
                if name == "f64":
                    return F64
                if name == "Self":
                    return REC(self.owner)
                if name == "Self::Item":
                    return ITEM_KIND[self.owner]
                if name == "F::Sample" and self.owner == "Window":
                    return WSMP
            if name == "Option" and len(args) == 1:
                return OPT(self.kind(args[0], line))
        if h == "tuple":
            if txt == "(usize,Option<usize>)":
                return HINT
            if not ty[1]:
                return UNIT
            return TUP([self.kind(x, line) for x in ty[1]])
        if h == "ref" and not ty[1] and ty[2][0] == "slice" and squash(qty_text(ty[2][1])) == "F" and self.owner == "Windower":
            return FRAMES
        if h == "qpath" and txt == "<F::SampleasSample>::Float" and self.owner == "Window":
            return FLT
        err(line, f"unsupported type {qty_text(ty)} in {self.owner}")

    # ---- function ----
    def translate(self):
        f = self.f
        env, params = {}, []
        if self.self_mode == "value":
            err(f["line"], "methods taking `self` by value are outside the grammar")
        if self.self_mode is not None:
            params.append(("s", coq_type(REC(self.owner))))
        for n, ty in f["params"]:
            k = self.kind(ty, f["line"])
            if k[0] in ("rec", "phantom", "hint", "opt", "tuple", "unit"):
                err(f["line"], f"parameter {n}: unsupported parameter type {qty_text(ty)}")
            env[n] = ("v_" + n, k)
            params.append(("v_" + n, coq_type(k)))
        self.ret_kind = self.kind(f["ret"], f["line"])

        def k_fn(env, v, kind):
            if not kinds_agree(kind, self.ret_kind):
                err(f["line"], f"{self.owner}::{f['name']}: the body's value has the representation {kind}, "
                               f"the declared return type {qty_text(f['ret'])} needs {self.ret_kind}")
            if self.self_mode == "mut":
                return Ret("s") if self.ret_kind == UNIT else Ret(f"(s, {v})")
            return Ret(v)

        self.k_fn = k_fn
        body = simplify(self.block(f["body"], env, k_fn, tailpos=True, want=self.ret_kind))
        rt = coq_type(self.ret_kind)
        if self.self_mode == "mut":
            st = coq_type(REC(self.owner))
            rty = f"({st})" if self.ret_kind == UNIT else f"({st} * {paren(rt)})"
        else:
            rty = paren(rt)
        body_text = emit(body, "  ")
        sig_text = " ".join(t for _, t in params) + " " + rty
        used = set()
        for n, ty, deps in CTX:
            if re.search(r"(?<![\w'.])" + n + r"(?![\w'])", body_text + " " + sig_text):
                used.add(n)
        used |= self.callee_ctx
        changed = True
        while changed:
            changed = False
            for n, ty, deps in CTX:
                if n in used and not set(deps) <= used:
                    used |= set(deps)
                    changed = True
        ctx = [(n, ty) for n, ty, _ in CTX if n in used]
        name = coq_name(self.owner, f["name"])
        head = f"Definition {name} " + " ".join(f"({n} : {t})" for n, t in ctx + params)
        sig = f"{self.owner}::{f['sig']}" + (f"   [impl {self.trait}]" if self.trait else "")
        return dict(name=name, owner=self.owner, fname=f["name"], ctx=[n for n, _ in ctx], text=head + f" : res {rty} :=\n" + body_text + ".",
                    sig=sig, line=f["line"], self_mode=self.self_mode, ret_kind=self.ret_kind, params=[k for _, k in
                    [(n, self.kind(ty, f["line"])) for n, ty in f["params"]]])

    # ---- blocks / statements ----
    def block(self, blk, env, k, tailpos=False, want=None):
        """tailpos: the block's value is the value of the function; want: the representation the context needs"""
        _, line, stmts, tail = blk
        return self.stmts(stmts, 0, tail, dict(env), k, tailpos, want)

    def stmts(self, stmts, i, tail, env, k, tailpos, want=None):
        if i == len(stmts):
            if tail is None:
                return k(env, "tt", UNIT)
            return self.expr(tail, env, k, tailpos=tailpos, want=want)
        st = stmts[i]
        rest = lambda env2: self.stmts(stmts, i + 1, tail, env2, k, tailpos, want)  # noqa: E731
        kind = st[0]
        if kind == "let":
            _, ln, mut, pat, rhs, ann = st
            lwant = self.kind(ann, ln) if ann is not None else None

            def after(env2, v, vk):
                env3 = dict(env2)
                if lwant is not None and not kinds_agree(vk, lwant):
                    err(ln, f"`let` annotated {qty_text(ann)} ({lwant}) but the value has the representation {vk}")
                if pat[0] == "pvar":
                    name = pat[2]
                    self.bindable(vk, ln)
                    env3[name] = ("v_" + name, vk)
                    (self.mut_locals.add if mut else self.mut_locals.discard)(name)
                    return mk_bind("v_" + name, Ret(v), rest(env3))
                if pat[0] == "pwild":
                    return rest(env3)
                if pat[0] == "ptuple":
                    if vk is None or vk[0] != "tuple" or len(vk[1]) != len(pat[2]):
                        err(ln, "tuple pattern does not match the value")
                    names = []
                    for n, kk in zip(pat[2], vk[1]):
                        if n is None:
                            names.append("_")
                        else:
                            self.bindable(kk, ln)
                            env3[n] = ("v_" + n, kk)
                            self.mut_locals.discard(n)
                            names.append("v_" + n)
                    return mk_bind("(" + ", ".join(names) + ")", Ret(v), rest(env3))
                err(ln, "unsupported pattern")
            return self.expr(rhs, env, after, want=lwant)
        if kind == "return":
            _, ln, e = st
            if i + 1 != len(stmts) or tail is not None:
                err(ln, "code after `return` in the same block")
            if e is None:
                return self.k_fn(env, "tt", UNIT)
            return self.expr(e, env, self.k_fn, tailpos=True, want=self.ret_kind)
        if kind == "expr":
            _, ln, e = st
            if e[0] == "assign":
                return self.assign(e, env, rest)
            if e[0] == "if":
                _, iln, c, then, els = e
                if els is None and M.contains_return(then) and M.diverges(then):
                    def after_c(env2, cv, ck):
                        if ck != BOOL:
                            err(iln, "condition is not a bool")
                        t1 = self.block(then, env2, lambda *a: err(iln, "internal: diverging block fell through"), tailpos=True, want=self.ret_kind)
                        return ("if", cv, t1, rest(env2))
                    return self.expr(c, env, after_c)
                err(iln, "unsupported control flow: an `if` statement that is not `if c { ..; return e; }` "
                         "(an `if` is supported as the value of a `let` / store, and in tail position)")
            if e[0] == "macro":
                err(ln, f"macro {e[2]}! is outside the translator's grammar")
            err(ln, "expression statement without effect (only stores and `if c { return .. }`)")
        err(st[1], f"unsupported statement {kind}")

    def bindable(self, k, line):
        if k is None or (k[0] == "opt" and k[1] is None):
            err(line, "cannot determine the type of this binding (e.g. a bare `None`)")
        if k[0] in ("phantom", "usizemax", "closure"):
            err(line, f"a {k[0]} cannot be bound to a name")

    # ---- stores ----
    def assign(self, e, env, rest):
        _, ln, op, lhs, rhs = e
        if op != "=":
            err(ln, f"compound assignment `{op}` is outside the grammar")
        if lhs[0] == "path" and len(lhs[2]) == 1 and lhs[2][0] != "self":
            n = lhs[2][0]
            if n not in env:
                err(ln, f"assignment to unknown variable {n}")
            if n not in self.mut_locals:
                err(ln, f"assignment to `{n}`, which is not a `let mut` local")

            def after(env2, v, vk):
                if not kinds_agree(env2[n][1], vk):
                    err(ln, f"assignment of a {vk} to a {env2[n][1]}")
                return mk_bind(env2[n][0], Ret(v), rest(env2))
            return self.expr(rhs, env, after, want=env[n][1])
        if lhs[0] == "field" and lhs[2][0] == "path" and lhs[2][2] == ("self",):
            fld = lhs[3]
            key = (self.owner, fld)
            if key not in FIELD_COQ or FIELD_COQ[key][1] is None and fld not in dict(STRUCT_FIELDS[self.owner]):
                err(ln, f"{self.owner} has no field {fld}")
            if self.self_mode != "mut":
                err(ln, "store to a field of self in a method that does not take `&mut self`")
            setter = FIELD_COQ[key][1]
            fk = dict(STRUCT_FIELDS[self.owner])[fld]
            if setter is None:
                # bin / hop: the hand model's schedule theorems rely on them being constant
                err(ln, f"store to self.{fld}: the model has no setter for it (bin and hop are constant along an iteration)")

            def after(env2, v, vk):
                if not kinds_agree(fk, vk):
                    err(ln, f"assignment of a {vk} to self.{fld} ({fk})")
                if setter == "self":
                    return ("let", "s", v, rest(env2))
                return ("let", "s", f"({setter} s {v})", rest(env2))
            return self.expr(rhs, env, after, want=fk)
        err(ln, "unsupported assignment target")

    # ---- expressions (continuation-passing: sub-expressions are bound in evaluation order) ----
    def exprs(self, es, env, k, acc=None, wants=None):
        acc = acc or []
        if not es:
            return k(env, acc)
        w = wants[len(acc)] if wants else None

        def got(env2, v, vk):
            if any(mutates(e) for e in es[1:]) and WORD_S.search(v):
                t = self.tmp()
                return ("let", t, v, self.exprs(es[1:], env2, k, acc + [(t, vk)], wants))
            return self.exprs(es[1:], env2, k, acc + [(v, vk)], wants)
        return self.expr(es[0], env, got, want=w)

    def fallible(self, text, kind, env, k):
        t = self.tmp()
        return mk_bind(t, Call(text), k(env, t, kind))

    def expr(self, e, env, k, tailpos=False, want=None):
        h, ln = e[0], e[1]
        if h == "int":
            return k(env, str(e[2]), NAT)
        if h == "float":
            lit = re.sub(r"(f64)$", "", e[2])
            if lit not in FLOAT_LITS:
                err(ln, f"float literal {e[2]}: only 0.0, 0.5 and 1.0 exist in the model's arithmetic (Signal/Window.v [arith])")
            return k(env, FLOAT_LITS[lit], F64)
        if h == "str":
            err(ln, "string literal")
        if h == "path":
            segs = e[2]
            if segs == ("self",):
                if self.self_mode is None:
                    err(ln, "`self` in an associated function")
                return k(env, "s", REC(self.owner))
            if len(segs) == 1 and segs[0] in env:
                return k(env, env[segs[0]][0], env[segs[0]][1])
            if segs == ("None",):
                return k(env, "None", OPT(None))
            if segs in (("true",), ("false",)):
                return k(env, segs[0], BOOL)
            if segs == ("PhantomData",):
                return k(env, "tt", PHANTOM)
            if segs in (("core", "usize", "MAX"), ("usize", "MAX"), ("std", "usize", "MAX")):
                return k(env, "usize_MAX", USIZEMAX)
            err(ln, f"unknown name {'::'.join(segs)}")
        if h == "tuple":
            if not e[2]:
                return k(env, "tt", UNIT)

            def after(env2, vs):
                ks = [x for _, x in vs]
                if len(vs) == 2 and ks[0] == USIZEMAX and ks[1] == OPT(None) and vs[1][0] == "None":
                    return k(env2, "HintForever", HINT)       # (usize::MAX, None)
                if len(vs) == 2 and ks[0] == NAT and kinds_agree(ks[1], OPT(NAT)) and want == HINT:
                    return k(env2, f"(Hint {vs[0][0]} {vs[1][0]})", HINT)
                for kk in ks:
                    self.bindable(kk, ln)
                return k(env2, tuple_text([v for v, _ in vs]), TUP(ks))
            return self.exprs(e[2], env, after)
        if h == "struct":
            name, fields = e[2], e[3]
            if name not in STRUCT_FIELDS:
                err(ln, f"unknown struct {name}")
            wantf = dict(STRUCT_FIELDS[name])
            if sorted(fn for fn, _ in fields) != sorted(wantf):
                err(ln, f"struct literal must give exactly the fields {list(wantf)}")

            def after(env2, vs):
                d = {}
                for (fn, _), (v, vk) in zip(fields, vs):
                    if not kinds_agree(vk, wantf[fn]) or (vk is not None and vk[0] == "opt"):
                        err(ln, f"field {fn}: a {vk} where a {wantf[fn]} is needed")
                    d[fn] = v
                return k(env2, LITERAL[name].format(**d), REC(name))
            return self.exprs([x for _, x in fields], env, after, wants=[wantf[fn] for fn, _ in fields])
        if h == "field":
            base, fld = e[2], e[3]

            def after(env2, v, vk):
                if vk is None or vk[0] != "rec":
                    err(ln, f"field access .{fld} on a non-struct")
                key = (vk[1], fld)
                if key not in FIELD_COQ:
                    err(ln, f"{vk[1]} has no readable field {fld}")
                sname = "Window" if vk[1] == "WindowF" else vk[1]
                return k(env2, FIELD_COQ[key][0].format(s=v), dict(STRUCT_FIELDS[sname])[fld])
            return self.expr(base, env, after)
        if h == "bin":
            op, a, b = e[2], e[3], e[4]
            if op in ("&&", "||"):
                def after2(env2, vs):
                    (x, xk), (y, yk) = vs
                    if xk != BOOL or yk != BOOL:
                        err(ln, f"`{op}` on non-bools")
                    return k(env2, f"({'andb' if op == '&&' else 'orb'} {x} {y})", BOOL)
                mark = self.ntmp
                t = self.exprs([a, b], env, after2)
                if self.ntmp != mark or mutates(b):
                    err(ln, f"an operand of `{op}` can panic or update self: short-circuit evaluation of such operands is not supported")
                return t

            def after(env2, vs):
                (x, xk), (y, yk) = vs
                if xk == F64 and yk == F64:
                    tbl = {"+": "add", "-": "sub", "*": "mul", "/": "div", "%": "rem"}
                    if op not in tbl:
                        err(ln, f"`{op}` on f64: the model's arithmetic has no comparisons")
                    return k(env2, f"({tbl[op]} N {x} {y})", F64)
                if xk != NAT or yk != NAT:
                    if op in ("==", "!=") and xk == BOOL and yk == BOOL:
                        r = f"(Bool.eqb {x} {y})"
                        return k(env2, r if op == "==" else f"(negb {r})", BOOL)
                    err(ln, f"`{op}` on operands that are neither both usize nor both f64 ({xk}, {yk})")
                if op == "+":
                    return k(env2, f"({x} + {y})", NAT)
                if op == "*":
                    return k(env2, f"({x} * {y})", NAT)
                if op == "-":
                    return self.fallible(f"usub {x} {y}", NAT, env2, k)
                if op == "%":
                    return self.fallible(f"urem {x} {y}", NAT, env2, k)
                if op == "/":
                    return self.fallible(f"udiv {x} {y}", NAT, env2, k)
                tbl = {"==": f"({x} =? {y})", "!=": f"(negb ({x} =? {y}))", "<": f"({x} <? {y})",
                       "<=": f"({x} <=? {y})", ">": f"({y} <? {x})", ">=": f"({y} <=? {x})"}
                return k(env2, tbl[op], BOOL)
            return self.exprs([a, b], env, after)
        if h == "not":
            def after(env2, v, vk):
                if vk != BOOL:
                    err(ln, "`!` on a non-bool")
                return k(env2, f"(negb {v})", BOOL)
            return self.expr(e[2], env, after)
        if h == "cast":
            ty = e[3]
            if squash(qty_text(ty)) == "f64":
                def after(env2, v, vk):
                    if vk != NAT:
                        err(ln, "`as f64` of something that is not a usize")
                    return k(env2, f"(of_usize N {v})", F64)
                return self.expr(e[2], env, after)
            err(ln, f"unsupported cast `as {qty_text(ty)}`")
        if h == "addr":
            inner = e[2]
            if inner[0] not in ("rangeto", "rangefrom", "array"):
                err(ln, "`&` is only supported on `x[..n]`, `x[n..]` and `[]`")
            return self.expr(inner, env, k, want=want)
        if h == "addrmut":
            err(ln, "`&mut` expressions are outside the grammar")
        if h in ("rangeto", "rangefrom"):
            def after(env2, vs):
                (b, bk), (i, ik) = vs
                if bk != FRAMES or ik != NAT:
                    err(ln, "range indexing is only supported on the frame slice with a usize bound")
                return self.fallible(f"{'slice_to' if h == 'rangeto' else 'slice_from'} {b} {i}", FRAMES, env2, k)
            return self.exprs([e[2], e[3]], env, after)
        if h == "array":
            if e[2]:
                err(ln, "only the empty array literal `[]` is supported")
            return k(env, "[]", FRAMES)
        if h in ("index", "rangefull"):
            err(ln, "`x[i]` / `x[..]` are outside the grammar")
        if h == "if":
            return self.if_(e, env, k, tailpos, want)
        if h in ("unsafe", "macro"):
            err(ln, f"`{'unsafe' if h == 'unsafe' else e[2] + '!'}` is outside the translator's grammar")
        if h == "assign":
            err(ln, "assignment used as a value")
        if h == "closure":
            err(ln, "a closure is only supported as the argument of Frame::from_fn and Option::map")
        if h == "call":
            return self.call(e, env, k, want)
        if h == "mcall":
            return self.mcall(e, env, k, tailpos, want)
        err(ln, f"unsupported expression ({h})")

    def if_(self, e, env, k, tailpos, want=None):
        _, ln, c, then, els = e
        if els is None:
            err(ln, "`if` without `else` used as a value")

        def after_c(env2, cv, ck):
            if ck != BOOL:
                err(ln, "condition is not a bool")
            if tailpos:
                return ("if", cv, self.block(then, env2, k, tailpos=True, want=want), self.block(els, env2, k, tailpos=True, want=want))
            for b in (then, els):
                if M.contains_return(b):
                    err(ln, "unsupported control flow: `return` inside an `if` used as a value")
                if mutates(b) or assigned_locals(b):
                    err(ln, "an `if` used as a value whose branches update self or a local is outside the grammar")
            got = {}

            def kk(env3, v, vk):
                got["k"] = vk if got.get("k") is None or (got["k"][0] == "opt" and got["k"][1] is None) else got["k"]
                if "k0" in got and not kinds_agree(got["k0"], vk):
                    err(ln, f"the branches of the `if` have different representations ({got['k0']}, {vk})")
                got.setdefault("k0", vk)
                return Ret(v)
            t1 = self.block(then, env2, kk, want=want)
            t2 = self.block(els, env2, kk, want=want)
            t = self.tmp()
            return mk_bind(t, ("if", cv, t1, t2), k(env2, t, got["k"]))
        return self.expr(c, env, after_c)

    # ---- calls ----
    def user_call(self, owner, name, recv, args, env, k, ln, inst=None, after_update=None):
        """call of a generated definition; inst: parameter renaming for the callee (WindowF)"""
        d = self.gen.get("Window" if owner == "WindowF" else owner, name, ln)
        inst = inst or {}
        ctx_args = [inst.get(n, n) for n in d["ctx"]]
        for n in d["ctx"]:
            if n not in inst:
                self.callee_ctx.add(n)
            else:
                for m in re.findall(r"[A-Za-z_]\w*", inst[n]):
                    if m in dict((c[0], 1) for c in CTX):
                        self.callee_ctx.add(m)
        if len(args) != len(d["params"]):
            err(ln, f"{owner}::{name}: wrong number of arguments")

        def after(env2, vs):
            for (v, vk), wk in zip(vs, d["params"]):
                if not kinds_agree(vk, wk):
                    err(ln, f"{owner}::{name}: argument of representation {vk} where {wk} is needed")
            text = " ".join([d["name"]] + ctx_args + ([recv] if recv else []) + [v for v, _ in vs])
            rk = d["ret_kind"]
            if owner == "WindowF":
                rk = subst_wsmp(rk)
            if d["self_mode"] == "mut":
                t1, t2 = self.tmp(), self.tmp()
                return ("bind", f"({t1}, {t2})", Call(text), after_update(t1, k(env2, t2, rk)))
            return self.fallible(text, rk, env2, k)
        return self.exprs(args, env, after, wants=d["params"])

    def call(self, e, env, k, want):
        _, ln, segs, args = e
        name = "::".join(segs)

        def unary(kind_in, fn):
            if len(args) != 1:
                err(ln, f"{name}: one argument expected")

            def after(env2, v, vk):
                if not kinds_agree(vk, kind_in):
                    err(ln, f"{name}(..): argument of representation {vk} where {kind_in} is needed")
                return fn(env2, v)
            return self.expr(args[0], env, after, want=kind_in)

        if name == "Some" and len(args) == 1:
            w = want[1] if want is not None and want[0] == "opt" else None
            return self.expr(args[0], env, lambda env2, v, vk: k(env2, f"(Some {v})", OPT(vk)), want=w)
        if name == "crate::rate":
            return unary(F64, lambda env2, v: k(env2, f"(rate N {v})", RATE))
        if name == "crate::phase":
            return unary(CONSTHZ, lambda env2, v: k(env2, f"(phase_new N {v})", PHASE))
        if name == "crate::from_iter":
            return unary(ITERVAL, lambda env2, v: k(env2, f"(from_iter_new Smp {v})", SIGNAL))
        if name == "W::window":
            return unary(F64, lambda env2, v: k(env2, f"(wfun {v})", F64))
        if name == "Window::new":
            return self.user_call("Window", "new", None, args, env, lambda env2, v, vk: k(env2, v, REC("WindowF")), ln)
        if name == "F::from_fn" and self.owner == "Window":
            if len(args) != 1 or args[0][0] != "closure":
                err(ln, "F::from_fn needs a closure")
            _, cl, params, body = args[0]
            if len(params) != 1:
                err(cl, "the closure of F::from_fn takes the channel index")
            env2 = dict(env)
            var = "_"
            if params[0] is not None:
                var = "v_" + params[0]
                env2[params[0]] = (var, NAT)
            got = {}

            def kk(env3, v, vk):
                got["k"] = vk
                return Ret(v)
            if mutates(body) or assigned_locals(body) or M.contains_return(body):
                err(cl, "the closure of F::from_fn must not update anything")
            bt = as_pure(simplify(self.block(body, env2, kk)))
            if bt is None:
                err(cl, "the closure of F::from_fn can panic: not supported")
            if got["k"] != WSMP:
                err(cl, f"the closure of F::from_fn yields a {got['k']}, not an F::Sample")
            return k(env, f"(frame_from_fn nch (fun {var} => {bt}))", FRAME(WSMP))
        err(ln, f"call of {name}(..) is outside the translator's grammar")

    def mcall(self, e, env, k, tailpos, want):
        ln, recv, name, args = e[1], e[2], e[3], e[4]
        fish = e[5] if len(e) > 5 else None
        if fish is not None and name != "to_sample":
            err(ln, f"turbofish on .{name}")

        def after(env2, rv, rk):
            if rk is None:
                err(ln, f"method .{name}() on a value of undetermined type")

            def with_args(kinds, fn):
                def got(env3, vs):
                    if len(vs) != len(kinds) or any(not kinds_agree(vk, w) for (_, vk), w in zip(vs, kinds)):
                        err(ln, f".{name}(..) on a {rk}: wrong arguments")
                    return fn(env3, [v for v, _ in vs])
                if len(args) != len(kinds):
                    err(ln, f".{name}(..) on a {rk}: wrong number of arguments")
                return self.exprs(args, env2, got, wants=kinds)

            h = rk[0]
            if rk == RATE and name == "const_hz":
                return with_args([F64], lambda e3, a: k(e3, f"(const_hz N {rv} {a[0]})", CONSTHZ))
            if rk == FRAMES:
                if name == "len":
                    return with_args([], lambda e3, a: k(e3, f"(length {rv})", NAT))
                if name == "iter":
                    return with_args([], lambda e3, a: k(e3, rv, ITERREF))
                if name == "split_at":
                    return with_args([NAT], lambda e3, a: self.fallible(f"split_at {rv} {a[0]}", TUP([FRAMES, FRAMES]), e3, k))
            if rk == ITERREF and name == "cloned":
                return with_args([], lambda e3, a: k(e3, rv, ITERVAL))
            if rk == NAT and name in ("max", "min"):
                return with_args([NAT], lambda e3, a: k(e3, f"(Nat.{name} {rv} {a[0]})", NAT))
            if name == "to_sample" and not args:
                target = self.kind(fish[0], ln) if fish else want
                if fish and len(fish) != 1:
                    err(ln, "to_sample::<..> with several types")
                if rk == F64 and target == FLT:
                    return k(env2, f"(conv {rv})", FLT)
                if rk == FLT and target == WSMP:
                    return k(env2, f"(back {rv})", WSMP)
                err(ln, f".to_sample() from {rk} to {target}: only f64 -> <F::Sample as Sample>::Float (by the annotation of the `let`) "
                        "and Float -> F::Sample (by turbofish) are modelled")
            # `&mut self` methods of a field: the field must be read off self directly
            field_of_self = recv[0] == "field" and recv[2][0] == "path" and recv[2][2] == ("self",)
            if rk == PHASE and name == "next_phase":
                if not field_of_self or self.self_mode != "mut":
                    err(ln, "next_phase() on something that is not a field of `&mut self`")
                t1, t2 = self.tmp(), self.tmp()
                return with_args([], lambda e3, a: ("let", f"({t1}, {t2})", f"next_phase N {rv}",
                                                    self.store_field(recv[3], t2, ln, k(e3, t1, F64))))
            if rk == SIGNAL and name == "next":
                if not field_of_self or self.self_mode != "mut":
                    err(ln, "Signal::next() on something that is not a field of `&mut self`")
                t1, t2 = self.tmp(), self.tmp()
                return with_args([], lambda e3, a: ("let", f"({t1}, {t2})", f"signal_next Smp equilibrium nch {rv}",
                                                    self.store_field(recv[3], t2, ln, k(e3, t1, FRAME(SMP)))))
            if rk == REC("WindowF") and name == "next":
                if not field_of_self or self.self_mode != "mut":
                    err(ln, "Window::next() on something that is not a field of `&mut self`")
                return self.user_call("WindowF", "next", rv, args, env2, k, ln, inst=WINDOWF_INST,
                                      after_update=lambda t1, body: self.store_field(recv[3], t1, ln, body))
            if rk == FRAME(SMP) and name == "mul_amp":
                return with_args([FRAME(FLT)], lambda e3, a: k(e3, f"(frame_mul_amp Smp FS smul {rv} {a[0]})", FRAME(SMP)))
            if h == "opt" and name == "map":
                if len(args) != 1 or args[0][0] != "closure":
                    err(ln, "Option::map needs a closure")
                if rk[1] is None:
                    err(ln, "Option::map on an undetermined Option")
                if not tailpos:
                    err(ln, "Option::map is only supported in tail position")
                _, cl, params, body = args[0]
                if len(params) != 1 or params[0] is None:
                    err(cl, "the closure of Option::map takes one named parameter")
                if M.contains_return(body):
                    err(cl, "`return` inside a closure")
                env3 = dict(env2)
                var = "v_" + params[0]
                env3[params[0]] = (var, rk[1])
                self.mut_locals.discard(params[0])
                some_t = self.block(body, env3, lambda e4, v, vk: k(e4, f"(Some {v})", OPT(vk)))
                w = want[1] if want is not None and want[0] == "opt" else None
                none_t = k(env2, "None", OPT(w))
                return MatchOpt(rv, var, some_t, none_t)
            err(ln, f"method .{name}(..) on a {rk} is outside the translator's grammar")
        return self.expr(recv, env, after)

    def store_field(self, fld, v, ln, body):
        setter = FIELD_COQ[(self.owner, fld)][1]
        if setter == "self":
            return ("let", "s", v, body)
        return ("let", "s", f"({setter} s {v})", body)


def subst_wsmp(k):
    if k == WSMP:
        return FLT
    if k[0] in ("opt", "frame") and k[1] is not None:
        return (k[0], subst_wsmp(k[1]))
    if k[0] == "tuple":
        return TUP([subst_wsmp(x) for x in k[1]])
    return k


def assigned_locals(blk):
    w = set()

    def f(n):
        if n and n[0] == "assign" and len(n) == 5:
            w.add(1)
    M.walk(blk, f)
    return w


# ---------------------------------------------------------------------------------------------
# driver

HEADER = """(* GENERATED by translate/window2coq.py from dasp_signal/src/window/mod.rs -- do not edit.
   One definition per method of Window, Windower and Windowed, in the `res` monad, sub-expressions bound in
   Rust's order of evaluation; vocabulary: Signal/Window.v (records, slices, next_phase, from_iter, signal_next,
   frame_mul_amp) and Signal/WindowPrim.v.  A method taking `&mut self` returns the updated value first.
   Rust local `x` is `v_x`, self is `s`.  A Window<F, W> IS its phase (`marker` is PhantomData); a Windower's
   frames are lists of samples.  Parameters of the definitions:
%s *)
Require Import List Arith Bool.
From Dasp Require Import Base.Res Signal.Window Signal.WindowPrim.
Import ListNotations.
"""


def translate_text(src):
    try:
        fns = parse_file(src)
        gen = Gen(fns)
        for owner, trait, f in fns:
            gen.get(owner, f["name"], f["line"])
    except TranslateError as e:
        raise M.relabel(e, LABEL)
    doc = "\n".join(f"     {n:<12} {CTX_DOC[n]}" for n, _, _ in CTX)
    out = [HEADER % doc]
    for d in gen.order:
        sig = d["sig"].replace("(*", "( *").replace("*)", "* )")
        out.append(f"(* {sig} *)")
        out.append(d["text"])
        out.append("")
    return "\n".join(out), [d["name"] for d in gen.order]


MUT_OPS = {"+": "-", "-": "+", "%": "/", "/": "%", "==": "!=", "!=": "==", "<": "<=", "<=": "<", ">": ">=", ">=": ">"}
MUT_FIELDS = {"bin": "hop", "hop": "bin", "signal": "window", "window": "signal"}
MUT_IDS = {"num_frames": "remaining_hop_frames", "frames": "window", "Some": "None"}


def sensitivity(src):
    """Self-test of "never silently skipped": every single-token edit of a method body out of a fixed family (an
    arithmetic / comparison operator replaced by its neighbour, an integer literal incremented, a float literal
    replaced by another one of the model, `self.bin` <-> `self.hop`, `self.signal` <-> `self.window`, `[..n]` <->
    `[n..]`, a use of a local variable replaced by another local of the same function) must either be rejected or
    change the generated text."""
    base, _ = translate_text(src)
    sites = []
    for owner, trait, f in parse_file(src):
        toks = f["body_toks"]
        where = f"{owner}::{f['name']}"
        locals_ = [n for n, _ in f["params"]]
        for j, t in enumerate(toks):
            if t.k == "id" and t.t not in locals_ and t.t != "_" and (toks[j - 1].t in ("let", "|") or (toks[j - 1].t == "mut" and toks[j - 2].t == "let")
                                                                       or (toks[j - 1].t in ("(", ",") and any(x.t == "let" for x in toks[max(0, j - 4):j]) and toks[j + 1].t in (",", ")"))):
                locals_.append(t.t)
        for j, t in enumerate(toks):
            if t.k == "op" and t.t in MUT_OPS:
                sites.append((t, MUT_OPS[t.t], where))
            elif t.k == "int":
                sites.append((t, str(int(t.t.replace("_", "").replace("usize", "")) + 1), where))
            elif t.k == "float":
                sites.append((t, "0.5" if t.t != "0.5" else "1.0", where))
            elif t.k == "id" and t.t in MUT_FIELDS and j >= 2 and toks[j - 1].t == "." and toks[j - 2].t == "self":
                sites.append((t, MUT_FIELDS[t.t], where))
            elif t.k == "id" and t.t in locals_ and len(locals_) > 1 and toks[j - 1].t not in ("let", "mut", ".", "|", "::") \
                    and not (toks[j + 1].t == ":" and toks[j + 2].t != ":") and toks[j + 1].t != "::":
                # a use of a local replaced by the next local of the same function
                sites.append((t, locals_[(locals_.index(t.t) + 1) % len(locals_)], where))
            elif t.k == "op" and t.t == ".." and toks[j - 1].t == "[":
                # `[..e]` -> `[e..]`: move the `..` behind the bound (one balanced expression up to `]`)
                depth, m = 0, j + 1
                while not (toks[m].t == "]" and depth == 0):
                    depth += toks[m].t in ("[", "(")
                    depth -= toks[m].t in ("]", ")")
                    m += 1
                sites.append(((t, toks[m]), "range", where))
            elif t.k == "op" and t.t == ".." and toks[j + 1].t == "]":
                depth, m = 0, j - 1
                while not (toks[m].t == "[" and depth == 0):
                    depth += toks[m].t in ("]", ")")
                    depth -= toks[m].t in ("[", "(")
                    m -= 1
                sites.append(((toks[m], t), "range_back", where))
    res = dict(sites=len(sites), tried=len(sites), rejected=0, changed=0, ignored=[])
    for t, new, where in sites:
        if new == "range":
            dots, close = t
            mutated = src[:dots.pos] + src[dots.pos + 2:close.pos] + ".." + src[close.pos:]
            desc, line = "`[..n]` -> `[n..]`", dots.line
        elif new == "range_back":
            opn, dots = t
            mutated = src[:opn.pos + 1] + ".." + src[opn.pos + 1:dots.pos] + src[dots.pos + 2:]
            desc, line = "`[n..]` -> `[..n]`", dots.line
        else:
            mutated = src[:t.pos] + new + src[t.pos + len(t.t):]
            desc, line = f"`{t.t}` -> `{new}`", t.line
        try:
            out, _ = translate_text(mutated)
        except TranslateError:
            res["rejected"] += 1
            continue
        if out == base:
            res["ignored"].append(f"{LABEL}:{line} {where}: {desc} leaves the generated model unchanged")
        else:
            res["changed"] += 1
    return res


def generate(src_path=None, out_path=OUT):
    """translate and write coq/gen/WindowGen.v (only if changed). Returns (names, changed files)."""
    src_path = src_path or DEFAULT_SRC
    try:
        with open(src_path) as f:
            src = f.read()
    except OSError as e:
        raise TranslateError(f"cannot read {src_path}: {e}")
    text, names = translate_text(src)
    changed = [os.path.basename(out_path)] if M.write_if_changed(out_path, text) else []
    return names, changed


if __name__ == "__main__":
    if len(sys.argv) > 1 and sys.argv[1] == "--sensitivity":
        p = sys.argv[2] if len(sys.argv) > 2 else DEFAULT_SRC
        print(sensitivity(open(p).read()))
        sys.exit(0)
    if len(sys.argv) > 1 and sys.argv[1] == "--write":
        print(generate(sys.argv[2] if len(sys.argv) > 2 else None))
        sys.exit(0)
    p = sys.argv[1] if len(sys.argv) > 1 else DEFAULT_SRC
    try:
        sys.stdout.write(translate_text(open(p).read())[0])
    except TranslateError as e:
        sys.stderr.write(f"TranslateError: {e}\n")
        sys.exit(2)
