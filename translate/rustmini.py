#!/usr/bin/env python3
"""rustmini.py -- the Rust-subset front end shared by the method-body translators.

The lexer, the recursive-descent parser (types, expressions with Rust precedence, statements, blocks, `fn`
items), the term language of the output (ret / let / bind / if in the `res` monad, sub-expressions bound in Rust's
order of evaluation) and the syntactic control-flow analyses are those of translate/ring2coq.py (C06), imported
from there unchanged -- ring2coq.py itself is not touched and keeps its own tests.  This module adds, for the
sources that need them (dasp_signal/src/window/mod.rs, C20):

  lexer    float literals `1.0`, `2.5f64`
  types    qualified paths `<F::Sample as Sample>::Float` (also as a generic argument)
  let      the type annotation of `let x: T = e;` is KEPT (`let` nodes get a 6th component; ring2coq drops it)
  postfix  turbofish on a method call `e.m::<T>(args)`; `e[a..]` next to `e[..b]`
  primary  closures `|x| e`, `|_| e`, `|x| { .. }` (no `move`, no type annotations); array literals `[e, ..]`, `[]`
  terms    `match o with Some x => .. | None => .. end` in the output language

Everything else is still a TranslateError.  Error messages of ring2coq say `lib.rs:<line>`; `relabel` rewrites
that prefix to the file a translator works on."""
import re
import ring2coq as R
from ring2coq import (Tok, TranslateError, text_of, split_generics, Ret, Call, as_pure, letpat, tuple_text, ty_text,  # noqa: F401
                      walk, contains_return, diverges, write_if_changed, paren)

TOKEN_RE = re.compile(r"""
   (?P<ws>\s+) | (?P<lc>//[^\n]*) | (?P<bc>/\*.*?\*/)
 | (?P<str>"(?:[^"\\]|\\.)*")
 | (?P<life>'[A-Za-z_]\w*(?!'))
 | (?P<float>\d[\d_]*\.\d[\d_]*(?:[eE][-+]?\d+)?(?:f32|f64)?(?!\w))
 | (?P<int>\d[\d_]*(?:usize)?(?!\w)(?!\.\d))
 | (?P<id>[A-Za-z_]\w*)
 | (?P<op>::|->|=>|==|!=|<=|>=|\+=|-=|\*=|/=|%=|&&|\|\||\.\.=|\.\.|[-+*/%=<>!&|.,;:\#\[\]{}()?])
""", re.X | re.S)


def err(line, msg):
    R.err(line, msg)


def relabel(e, label):
    """the same error with ring2coq's `lib.rs:` prefix replaced by the name of the file being translated"""
    return TranslateError(re.sub(r"^lib\.rs:", label + ":", str(e)))


def lex(src):
    toks, i, line = [], 0, 1
    while i < len(src):
        m = TOKEN_RE.match(src, i)
        if not m:
            err(line, f"unrecognised character {src[i]!r}")
        k = m.lastgroup
        if k not in ("ws", "lc", "bc"):
            toks.append(Tok(k, m.group(0), line, i))
        line += m.group(0).count("\n")
        i = m.end()
    toks.append(Tok("eof", "<eof>", line))
    return toks


class Parser(R.Parser):
    # ---- types: + qualified paths ----
    def type_(self):
        if self.at("<"):
            line = self.next().line
            inner = self.type_()
            if not self.eat("as"):
                err(line, "`<T>::X` without `as Trait` is not supported")
            trait = self.type_()
            self.expect(">")
            segs = []
            while self.eat("::"):
                segs.append(self.ident())
            if not segs:
                err(line, "qualified path without an associated item")
            return ("qpath", inner, trait, tuple(segs))
        return super().type_()

    # ---- expressions ----
    def postfix(self, ns):
        e = self.primary(ns)
        while True:
            t = self.peek()
            if self.at("."):
                self.next()
                if self.peek().k in ("int", "float"):
                    err(t.line, "tuple field access is not supported")
                name = self.ident()
                fish = None
                if self.at("::"):
                    self.next()
                    self.expect("<")
                    fish = [self.type_()]
                    while self.eat(","):
                        fish.append(self.type_())
                    self.expect(">")
                    if not self.at("("):
                        err(t.line, "turbofish without a call")
                if self.at("("):
                    args = self.args()
                    e = ("mcall", t.line, e, name, args) if fish is None else ("mcall", t.line, e, name, args, fish)
                else:
                    e = ("field", t.line, e, name)
            elif self.at("["):
                self.next()
                if self.eat(".."):
                    if self.at("]"):
                        self.next()
                        e = ("rangefull", t.line, e)
                    else:
                        hi = self.expr()
                        self.expect("]")
                        e = ("rangeto", t.line, e, hi)
                else:
                    idx = self.expr()
                    if self.eat(".."):
                        if not self.at("]"):
                            err(t.line, "only `[..n]` and `[n..]` ranges are supported")
                        self.next()
                        e = ("rangefrom", t.line, e, idx)
                    else:
                        if self.at("..="):
                            err(t.line, "only `[..n]` and `[n..]` ranges are supported")
                        self.expect("]")
                        e = ("index", t.line, e, idx)
            elif self.at("?"):
                err(t.line, "`?` is not supported")
            else:
                return e

    def primary(self, ns):
        t = self.peek()
        if t.k == "float":
            self.next()
            return ("float", t.line, t.t.replace("_", ""))
        if t.k == "op" and t.t == "|":
            self.next()
            params = []
            while not self.at("|"):
                if self.at("_"):
                    self.next()
                    params.append(None)
                else:
                    if self.at("mut") or self.at("ref") or self.at("&") or self.at("("):
                        err(t.line, "closure parameters other than a plain name or `_` are not supported")
                    params.append(self.ident())
                if self.at(":"):
                    err(t.line, "type annotations on closure parameters are not supported")
                if not self.eat(","):
                    break
            self.expect("|")
            if self.at("->"):
                err(t.line, "closure return types are not supported")
            if self.at("{"):
                body = self.block()
            else:
                e = self.expr(ns)
                body = ("block", t.line, [], e)
            return ("closure", t.line, params, body)
        if t.k == "op" and t.t == "||":
            err(t.line, "closures without parameters are not supported")
        if t.k == "op" and t.t == "[":
            self.next()
            parts = []
            while not self.at("]"):
                parts.append(self.expr())
                if self.at(";"):
                    err(t.line, "array repeat expressions are not supported")
                if not self.eat(","):
                    break
            self.expect("]")
            return ("array", t.line, parts)
        return super().primary(ns)

    # ---- blocks: as ring2coq's, keeping the type annotation of a `let` ----
    def block(self):
        line = self.expect("{").line
        stmts, tail = [], None
        while not self.at("}"):
            t = self.peek()
            if tail is not None:
                err(t.line, "expression without `;` in the middle of a block")
            if t.k == "eof":
                err(line, "unterminated block")
            if self.at(";"):
                self.next()
                continue
            if self.at("#"):
                err(t.line, "attributes on statements are not supported")
            if self.at("let"):
                self.next()
                mut = bool(self.eat("mut"))
                pat = self.pattern()
                if mut and pat[0] != "pvar":
                    err(t.line, "`let mut` with a destructuring pattern is not supported")
                ann = None
                if self.eat(":"):
                    ann = self.type_()
                if not self.eat("="):
                    err(t.line, "`let` without initialiser is not supported")
                rhs = self.expr()
                if self.at("else"):
                    err(t.line, "let-else is not supported")
                self.expect(";")
                stmts.append(("let", t.line, mut, pat, rhs, ann))
            elif self.at("return"):
                self.next()
                e = None if self.at(";") or self.at("}") else self.expr()
                self.eat(";")
                stmts.append(("return", t.line, e))
            elif self.at("for") or self.at("while") or self.at("loop"):
                err(t.line, f"`{t.t}` is not supported")
            elif self.at("if") or self.at("unsafe"):
                e = self.if_() if self.at("if") else self.primary(False)
                if self.at("}"):
                    tail = e
                elif self.at(".") or self.at("?") or (self.peek().k == "op" and self.peek().t in ("+", "-", "*", "/", "%", "==", "as")):
                    err(t.line, "a block-like expression used as an operand must be parenthesised")
                else:
                    self.eat(";")
                    stmts.append(("expr", t.line, e))
            else:
                e = self.expr()
                if self.eat(";"):
                    stmts.append(("expr", t.line, e))
                elif self.at("}"):
                    tail = e
                else:
                    err(self.peek().line, f"expected `;` or `}}`, found {self.peek().t!r}")
        self.expect("}")
        return ("block", line, stmts, tail)


def qty_text(ty):
    """ty_text for the types of this module's parser (adds qualified paths)"""
    if ty is None:
        return "()"
    h = ty[0]
    if h == "qpath":
        return "<" + qty_text(ty[1]) + " as " + qty_text(ty[2]) + ">::" + "::".join(ty[3])
    if h == "ref":
        return "&" + ("mut " if ty[1] else "") + qty_text(ty[2])
    if h == "slice":
        return "[" + qty_text(ty[1]) + "]"
    if h == "tuple":
        return "(" + ", ".join(qty_text(x) for x in ty[1]) + ")"
    if h == "assoc":
        return ty[1] + " = " + qty_text(ty[2])
    if h == "path":
        args = ty[2]
        return "::".join(ty[1]) + ("<" + ", ".join(qty_text(a) for a in args) + ">" if args else "")
    return ty_text(ty)


# ---------------------------------------------------------------------------------------------
# output terms: ring2coq's  ret e | let pat e body | bind pat comp body | if c t1 t2 | call text
# plus  ("matchopt", scrutinee, var, some_term, none_term)

def MatchOpt(scrut, var, some_t, none_t):
    return ("matchopt", scrut, var, some_t, none_t)


def mk_bind(pat, comp, body):
    if body == ("ret", pat):
        return comp
    pure = as_pure(comp) if comp[0] != "matchopt" else None
    if pure is not None:
        return ("let", pat, pure, body)
    return ("bind", pat, comp, body)


def occurs(name, t):
    return re.search(r"(?<![\w'])" + re.escape(name) + r"(?![\w'])", emit(t, "")) is not None


def simplify(t):
    k = t[0]
    if k in ("ret", "call"):
        return t
    if k == "if":
        return ("if", t[1], simplify(t[2]), simplify(t[3]))
    if k == "matchopt":
        return ("matchopt", t[1], t[2], simplify(t[3]), simplify(t[4]))
    if k == "let":
        return ("let", t[1], t[2], simplify(t[3]))
    if k == "bind":
        comp, body = simplify(t[2]), simplify(t[3])
        if re.match(r"^t\d+$", t[1]) and body[0] == "let" and body[2] == t[1] and not occurs(t[1], body[3]):
            return mk_bind(body[1], comp, body[3])
        return mk_bind(t[1], comp, body)
    raise TranslateError(f"internal: term {k}")


def emit(t, ind):
    k = t[0]
    if k == "ret":
        return f"{ind}Ok {t[1]}"
    if k == "call":
        return f"{ind}{t[1]}"
    if k == "let":
        return f"{ind}let {letpat(t[1])} := {t[2]} in\n" + emit(t[3], ind)
    if k == "bind":
        if t[2][0] == "call":
            return f"{ind}let* {t[1]} := {t[2][1]} in\n" + emit(t[3], ind)
        return f"{ind}let* {t[1]} :=\n{ind}  (\n" + emit(t[2], ind + "    ") + f"\n{ind}  ) in\n" + emit(t[3], ind)
    if k == "if":
        return f"{ind}if {t[1]} then\n" + emit(t[2], ind + "  ") + f"\n{ind}else\n" + emit(t[3], ind + "  ")
    if k == "matchopt":
        return (f"{ind}match {t[1]} with\n{ind}| Some {t[2]} =>\n" + emit(t[3], ind + "    ") +
                f"\n{ind}| None =>\n" + emit(t[4], ind + "    ") + f"\n{ind}end")
    raise TranslateError(f"internal: term {k}")
