#!/usr/bin/env python3
"""Self-test of translate/ring2coq.py: edits of the real source that must be REJECTED (outside the grammar,
or no counterpart in the hand model), edits that must leave the output UNCHANGED (comments, layout), and edits
that must be accepted and CHANGE the output.  usage: test_ring2coq.py [lib.rs]   (exit 0 = all as expected)"""
import sys, os, re
sys.path.insert(0, os.path.dirname(os.path.abspath(__file__)))
import ring2coq as T

SRC = open(sys.argv[1] if len(sys.argv) > 1 else T.DEFAULT_SRC).read()
BASE, _ = T.translate_text(SRC)


def sub(old, new, count=1):
    def f(s):
        assert old in s, f"test is stale: {old!r} not in the source"
        return s.replace(old, new, count)
    return f


def after(marker, old, new):
    def f(s):
        i = s.index(marker)
        j = s.index(old, i)
        return s[:j] + new + s[j + len(old):]
    return f


POP_GUARD = "if self.len == 0 {\n            return None;\n        }"

REJECT = [
    ("an overridden Iterator method", sub("    #[inline]\n    fn size_hint(&self)", "    fn nth(&mut self, n: usize) -> Option<Self::Item> { self.bounded.pop() }\n    #[inline]\n    fn size_hint(&self)"), "no counterpart"),
    ("a method removed", sub("    #[inline]\n    pub fn is_full(&self) -> bool {\n        self.len == self.max_len()\n    }\n", ""), "are gone"),
    ("a Slice impl that is not the identity view", sub("fn slice(&self) -> &[Self::Element] {\n        &self[..]", "fn slice(&self) -> &[Self::Element] {\n        &self[1..]"), "identity view"),
    ("cfg on a method", sub("    #[inline]\n    pub fn max_len", "    #[cfg(feature = \"std\")]\n    pub fn max_len"), "attribute"),
    ("while loop", after("pub fn pop", POP_GUARD, "while self.len == 0 {\n            return None;\n        }"), "not supported"),
    ("match", after("pub fn pop", POP_GUARD, "match self.len { 0 => return None, _ => {} }"), "not supported"),
    ("closure", sub("self.first = index % self.len();", "self.first = (|x| x)(index) % self.len();"), "unsupported"),
    ("numeric cast", sub("self.first = index % self.len();", "self.first = (index as u32 as usize) % self.len();"), "cast"),
    ("debug_assert!", sub("assert!(first < data.slice().len());", "debug_assert!(first < data.slice().len());"), "macro"),
    ("assert! with a message", sub("assert!(first < data.slice().len());", "assert!(first < data.slice().len(), \"bad\");"), "macro"),
    ("wrapping arithmetic", sub("self.len -= 1;", "self.len = self.len.wrapping_sub(1);"), "outside the translator's grammar"),
    ("checked arithmetic", sub("self.len += 1;", "self.len = self.len.checked_add(1).unwrap();"), "outside the translator's grammar"),
    ("a public field", sub("    start: usize,\n    len: usize,\n    data: S,", "    pub start: usize,\n    len: usize,\n    data: S,"), "public field"),
    ("an extra field", sub("    start: usize,\n    len: usize,\n    data: S,", "    start: usize,\n    len: usize,\n    gen: usize,\n    data: S,"), "fields"),
    ("a Drop impl", sub("impl<S> From<S> for Bounded<S>", "impl<S> Drop for Bounded<S> { fn drop(&mut self) { } }\n\nimpl<S> From<S> for Bounded<S>"), "no counterpart"),
    ("a free function", sub("impl<S> From<S> for Bounded<S>", "fn helper(x: usize) -> usize { x }\n\nimpl<S> From<S> for Bounded<S>"), "unsupported item"),
    ("return in one arm of if/else", after("pub fn pop", POP_GUARD, "if self.len == 0 {\n            return None;\n        } else {\n            self.len += 0;\n        }"), "control flow"),
    ("shift", sub("self.first = index % self.len();", "self.first = (index << 0) % self.len();"), ""),
    ("the Slice trait changed", sub("    fn slice(&self) -> &[Self::Element];\n}", "    fn slice(&self) -> &[Self::Element];\n    fn other(&self) {}\n}"), "differs"),
    ("if let", after("pub fn pop", POP_GUARD, "if let 0 = self.len {\n            return None;\n        }"), "if let"),
    ("short-circuit with a panicking operand", sub("if index >= self.len {\n            return None;\n        }\n        let wrapped_index = (self.start + index) % self.max_len();\n        unsafe { Some(self.data.slice().get_unchecked(",
                                                     "if index >= self.len || (self.len - index) % self.max_len() == 7 {\n            return None;\n        }\n        let wrapped_index = (self.start + index) % self.max_len();\n        unsafe { Some(self.data.slice().get_unchecked("), "short-circuit"),
    ("assignment to an immutable local", sub("let index = (self.start + self.len) % self.max_len();", "let index = (self.start + self.len) % self.max_len();\n        index = 0;"), "let mut"),
    ("an unknown iterator adaptor", sub("start.iter().chain(end.iter())", "start.iter().rev().chain(end.iter())"), "outside the translator's grammar"),
    ("a wrong return representation", sub("    pub fn len(&self) -> usize {\n        self.len\n    }", "    pub fn len(&self) -> usize {\n        self.len == 0\n    }"), "representation"),
    ("store through &self", sub("    pub fn is_empty(&self) -> bool {\n        self.len == 0", "    pub fn is_empty(&self) -> bool {\n        self.len = 0;\n        self.len == 0"), "&mut self"),
    ("an unknown struct", sub("pub struct DrainBounded", "pub struct Extra { x: usize }\n\npub struct DrainBounded"), "unknown struct"),
    ("a nested function call on foreign storage", sub("Self::from_raw_parts(0, 0, data)", "Self::from_raw_parts(0, 0, Vec::from(data))"), ""),
    ("tuple field access", sub("(start, end)\n    }\n\n    /// The same as", "let p = (start, end);\n        (p.0, p.1)\n    }\n\n    /// The same as"), "tuple field"),
    ("a for loop that assigns a local", sub("for item in iter {\n            self.push(item);\n        }", "let mut n = 0;\n        for item in iter {\n            n += 1;\n            self.push(item);\n        }"), "only updates of self"),
]

UNCHANGED = [
    ("comments and blank lines", lambda s: s.replace("pub fn pop(&mut self)", "// a comment\n\n    /* another */ pub fn pop(&mut self)")),
    ("layout", lambda s: s.replace("let mut next_start = self.start + 1;", "let   mut   next_start=self.start+1 ;")),
    ("doc comments", lambda s: s.replace("/// Pop an element", "/// Pop (remove) an element")),
]

CHANGED = [
    ("conditional subtraction instead of %", sub("let wrapped_index = (self.first + index % self.len()) % self.len();\n        &self.data.slice()[wrapped_index]",
                                                "let mut wrapped_index = self.first + index;\n        if wrapped_index >= self.len() {\n            wrapped_index -= self.len();\n        }\n        &self.data.slice()[wrapped_index]")),
    ("if as an expression", after("pub fn push(&mut self, elem", "let mut next_start = self.start + 1;", "let mut next_start = if self.start < self.max_len() { self.start + 1 } else { 0 };")),
    ("operands swapped", sub("(self.start + self.len) % self.max_len()", "(self.len + self.start) % self.max_len()")),
    ("cmp::min", sub("self.first = index % self.len();", "self.first = core::cmp::min(index, self.len()) % self.len();")),
    ("else if chain in tail position", sub("    pub fn is_empty(&self) -> bool {\n        self.len == 0", "    pub fn is_empty(&self) -> bool {\n        if self.len == 0 { true } else if self.len == 1 { false } else { false }")),
]

fail = 0
for name, edit, needle in REJECT:
    try:
        T.translate_text(edit(SRC))
        print(f"FAIL  not rejected: {name}")
        fail += 1
    except T.TranslateError as e:
        if needle and needle not in str(e):
            print(f"FAIL  rejected for another reason: {name}: {e}")
            fail += 1
        else:
            print(f"ok    rejected: {name}: {str(e)[:110]}")
for name, edit in UNCHANGED:
    s2 = edit(SRC)
    assert s2 != SRC, name
    out, _ = T.translate_text(s2)
    if out != BASE:
        print(f"FAIL  output changed: {name}")
        fail += 1
    else:
        print(f"ok    unchanged: {name}")
for name, edit in CHANGED:
    try:
        out, _ = T.translate_text(edit(SRC))
        if out == BASE:
            print(f"FAIL  accepted but ignored: {name}")
            fail += 1
        else:
            print(f"ok    accepted, output differs: {name}")
    except T.TranslateError as e:
        print(f"FAIL  should be accepted: {name}: {e}")
        fail += 1
# evaluation order: a field read BEFORE a later operand updates self is bound before the update
probe = sub("    fn next(&mut self) -> Option<Self::Item> {\n        self.bounded.pop()",
            "    fn next(&mut self) -> Option<Self::Item> {\n        let (a, b) = (self.bounded.len, self.bounded.pop());\n        if a == 0 { return None; }\n        b")(SRC)
out, _ = T.translate_text(probe)
if "let t1 := (len s) in\n  let* (s, t2) := Bounded_pop s in" in out:
    print("ok    evaluation order: read of self.len bound before the later pop")
else:
    print("FAIL  evaluation order probe")
    fail += 1
r = T.sensitivity(SRC)
print(f"sensitivity: {r['sites']} single-token edits, {r['rejected']} rejected, {r['changed']} change the output, {len(r['ignored'])} ignored")
for l in r["ignored"]:
    print("FAIL ", l)
    fail += 1
print("FAILED" if fail else "ALL OK")
sys.exit(1 if fail else 0)
