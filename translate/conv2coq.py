#!/usr/bin/env python3
"""conv2coq -- translate dasp_sample/src/conv.rs (+ format facts of types.rs, lib.rs) to Coq.

Reads, from the current source tree (default /repo, env DASP_REPO; the single file conv.rs can be
redirected with env DASP_CONV_RS -- FOR TESTING the broken-proof flow only):

  conv.rs   every `conversions!(T, mod { s to_x { body } ... })` block       -> one Gallina definition per function
            every `impl_from_sample! {T, to_x from {U:mod} ...}` table       -> the dispatch of Sample::to_sample
            every other top-level item (the macro definitions, the traits, the blanket impls) is PINNED:
            its comment-stripped token stream must hash to the value recorded here, otherwise the
            meaning of the tables may have changed and the model cannot be regenerated
  types.rs  the `new_sample_type!(T: Rep, eq:, min:, max:, total:, ...)` invocations, and that
            `new_unchecked` / `inner` are the identity on the representation
  lib.rs    the `impl_sample!` table (Signed, Float, EQUILIBRIUM) and that to_sample / from_sample only dispatch

Emits into coq/gen/ (write-if-changed):
  FormatTable.v        rep type, MIN, MAX, EQUILIBRIUM, signedness per integer format, as read from the source
  ConvGen.v            integer -> integer functions (explicit machine-integer semantics of Sample/Rint.v) + dispatch
  ConvFloatGen.v       functions with a float source or target (operations of Base/Float.v) + dispatch
  ConvProofs_<src>.v   the correctness statements of the dispatched int->int conversions (one tactic each)
  ConvTransfer.v       debug(Checked) -> release(Wrapping) transfer, syntax-directed
  ConvCorrect.v        assembly: forall s d, ...

Expression grammar (anything else is a TranslateError, never skipped):
  literals with `_` and optional type suffix, the parameter, `.inner()`, `T::new_unchecked(e)`, `to_x(e)`,
  `super::m::to_x(e)`, unary `-`, `as T`, `* /`, `+ -`, `<< >>` by a literal count, `< <= > >= == !=`,
  `if c {a} else {b}`, parentheses; Rust precedence (unary > as > * / > + - > << >> > comparison).
"""
import os, re, sys, hashlib
from fractions import Fraction

HERE = os.path.dirname(os.path.abspath(__file__))
VERIF = os.path.dirname(HERE)
GEN = os.path.join(VERIF, "coq", "gen")


class TranslateError(Exception):
    pass


PRIM = {"i8": (8, True), "i16": (16, True), "i32": (32, True), "i64": (64, True),
        "u8": (8, False), "u16": (16, False), "u32": (32, False), "u64": (64, False)}
FLOATS = {"f32": ("F32", 24, 128, 32), "f64": ("F64", 53, 1024, 64)}
# the twelve integer sample formats of the property, in the order of ConvSpec.fmt
FORMATS = ["i8", "i16", "I24", "i32", "I48", "i64", "u8", "u16", "U24", "u32", "U48", "u64"]
FMT_CTOR = {t: "F" + t.upper() for t in FORMATS}
FMT_BITS = {"i8": 8, "i16": 16, "I24": 24, "i32": 32, "I48": 48, "i64": 64,
            "u8": 8, "u16": 16, "U24": 24, "u32": 32, "U48": 48, "u64": 64}
RET_OF_FN = {"to_i8": "i8", "to_i16": "i16", "to_i24": "I24", "to_i32": "i32", "to_i48": "I48", "to_i64": "i64",
             "to_u8": "u8", "to_u16": "u16", "to_u24": "U24", "to_u32": "u32", "to_u48": "U48", "to_u64": "u64",
             "to_f32": "f32", "to_f64": "f64"}


def prim_range(t):
    b, s = PRIM[t]
    return (-(1 << (b - 1)), (1 << (b - 1)) - 1) if s else (0, (1 << b) - 1)


# ---------------------------------------------------------------------------
# tokens

TOKEN = re.compile(r"""
    (?P<ws>\s+|//[^\n]*|/\*.*?\*/)
  | (?P<num>\d[\d_]*(?:\.\d[\d_]*)?(?:[eE][+-]?\d+)?(?:_*(?:i8|i16|i32|i64|u8|u16|u32|u64|f32|f64))?)
  | (?P<id>[A-Za-z_]\w*)
  | (?P<op>::|<<|>>|<=|>=|==|!=|&&|\|\||=>|->|\.\.|[-+*/%<>=!&|^~?.,;:(){}\[\]#$@'"\\])
""", re.X | re.S)


class Tok:
    __slots__ = ("kind", "text", "pos")

    def __init__(self, kind, text, pos):
        self.kind, self.text, self.pos = kind, text, pos

    def __repr__(self):
        return f"{self.text!r}"


def tokenize(src, fname):
    toks, i = [], 0
    while i < len(src):
        m = TOKEN.match(src, i)
        if not m:
            line = src.count("\n", 0, i) + 1
            raise TranslateError(f"{fname}:{line}: cannot tokenize {src[i:i+20]!r}")
        if m.lastgroup != "ws":
            toks.append(Tok(m.lastgroup, m.group(), i))
        i = m.end()
    return toks


def line_of(src, pos):
    return src.count("\n", 0, pos) + 1


CLOSE = {"(": ")", "{": "}", "[": "]"}


def balanced(toks, i, fname="?"):
    """toks[i] is an opening delimiter; returns index of its matching closer."""
    stack = [CLOSE[toks[i].text]]
    j = i + 1
    while j < len(toks) and stack:
        t = toks[j].text
        if toks[j].kind == "op":
            if t in CLOSE:
                stack.append(CLOSE[t])
            elif t in (")", "}", "]"):
                if t != stack[-1]:
                    raise TranslateError(f"{fname}: unbalanced delimiter {t!r}")
                stack.pop()
        j += 1
    if stack:
        raise TranslateError(f"{fname}: unclosed delimiter")
    return j - 1


def tok_hash(toks):
    return hashlib.sha256(" ".join(t.text for t in toks).encode()).hexdigest()[:16]


# ---------------------------------------------------------------------------
# expression parser (Rust precedence)


class P:
    def __init__(self, toks, where, src=None):
        self.t, self.i, self.where = toks, 0, where

    def peek(self, k=0):
        return self.t[self.i + k].text if self.i + k < len(self.t) else None

    def next(self):
        if self.i >= len(self.t):
            raise TranslateError(f"{self.where}: unexpected end of expression")
        tok = self.t[self.i]
        self.i += 1
        return tok

    def expect(self, text):
        tok = self.next()
        if tok.text != text:
            raise TranslateError(f"{self.where}: expected {text!r}, found {tok.text!r}")
        return tok

    def fail(self, msg):
        raise TranslateError(f"{self.where}: {msg} (outside the translator's grammar)")

    def expr(self):
        return self.cmp()

    def cmp(self):
        l = self.shift()
        if self.peek() in ("<", "<=", ">", ">=", "==", "!="):
            op = self.next().text
            r = self.shift()
            if self.peek() in ("<", "<=", ">", ">=", "==", "!="):
                self.fail("chained comparison")
            return {"k": "cmp", "op": op, "l": l, "r": r}
        return l

    def shift(self):
        l = self.addsub()
        while self.peek() in ("<<", ">>"):
            op = self.next().text
            r = self.addsub()
            l = {"k": "shift", "op": op, "l": l, "r": r}
        return l

    def addsub(self):
        l = self.muldiv()
        while self.peek() in ("+", "-"):
            op = self.next().text
            r = self.muldiv()
            l = {"k": "bin", "op": op, "l": l, "r": r}
        return l

    def muldiv(self):
        l = self.cast()
        while self.peek() in ("*", "/"):
            op = self.next().text
            r = self.cast()
            l = {"k": "bin", "op": op, "l": l, "r": r}
        return l

    def cast(self):
        e = self.unary()
        while self.peek() == "as":
            self.next()
            ty = self.next()
            if ty.kind != "id" or (ty.text not in PRIM and ty.text not in FLOATS):
                self.fail(f"cast to {ty.text!r}")
            e = {"k": "cast", "e": e, "to": ty.text}
        return e

    def unary(self):
        if self.peek() == "-":
            self.next()
            return {"k": "neg", "e": self.unary()}
        return self.postfix()

    def postfix(self):
        e = self.primary()
        while self.peek() == ".":
            self.next()
            name = self.next()
            if name.text != "inner":
                self.fail(f"method .{name.text}")
            self.expect("(")
            self.expect(")")
            e = {"k": "inner", "e": e}
        return e

    def primary(self):
        tok = self.next()
        if tok.kind == "num":
            return parse_number(tok.text, self.where)
        if tok.text == "(":
            e = self.expr()
            self.expect(")")
            return {"k": "paren", "e": e}
        if tok.text == "if":
            c = self.expr()
            self.expect("{")
            a = self.expr()
            self.expect("}")
            self.expect("else")
            self.expect("{")
            b = self.expr()
            self.expect("}")
            return {"k": "if", "c": c, "a": a, "b": b}
        if tok.kind == "id":
            path = [tok.text]
            while self.peek() == "::":
                self.next()
                nx = self.next()
                if nx.kind != "id":
                    self.fail("path segment " + nx.text)
                path.append(nx.text)
            if self.peek() == "(":
                self.next()
                arg = self.expr()
                self.expect(")")
                return {"k": "call", "path": path, "arg": arg}
            if len(path) == 1:
                return {"k": "var", "name": path[0]}
            self.fail("path expression " + "::".join(path))
        self.fail(f"unexpected token {tok.text!r}")


def parse_number(text, where):
    m = re.match(r"^(.*?)_*(i8|i16|i32|i64|u8|u16|u32|u64|f32|f64)?$", text)
    body, suffix = m.group(1), m.group(2)
    body = body.replace("_", "")
    if re.fullmatch(r"\d+", body) and (suffix is None or suffix in PRIM):
        return {"k": "int", "v": int(body), "suffix": suffix}
    if re.fullmatch(r"\d+(\.\d+)?([eE][+-]?\d+)?", body) and (suffix is None or suffix in FLOATS):
        return {"k": "float", "v": Fraction(body), "text": body, "suffix": suffix}
    raise TranslateError(f"{where}: literal {text!r} (outside the translator's grammar)")


# ---------------------------------------------------------------------------
# correctly rounded decimal -> binary32/64 bit pattern (round to nearest even), exact rational arithmetic


def float_bits(fr, prec, emax, total):
    """fr >= 0 Fraction. Returns the IEEE bit pattern (as int) of the nearest float, ties to even."""
    if fr < 0:
        raise ValueError
    mw = prec - 1
    ew = total - 1 - mw
    bias = emax - 1
    emin = 3 - emax - prec  # exponent of the least significant bit of subnormals
    if fr == 0:
        return 0
    # find e such that 2^(prec-1) <= fr / 2^e < 2^prec, with e >= emin
    e = fr.numerator.bit_length() - fr.denominator.bit_length() - prec
    while fr / Fraction(2) ** e >= (1 << prec):
        e += 1
    while fr / Fraction(2) ** e < (1 << (prec - 1)):
        e -= 1
    e = max(e, emin)
    q = fr / Fraction(2) ** e
    m = q.numerator // q.denominator
    rem = q - m
    if rem > Fraction(1, 2) or (rem == Fraction(1, 2) and m % 2 == 1):
        m += 1
    if m == (1 << prec):
        m >>= 1
        e += 1
    if e + prec > emax:
        return ((1 << ew) - 1) << mw  # infinity
    if m < (1 << mw):
        return m  # subnormal (e == emin)
    return ((e - emin + 1) << mw) | (m - (1 << mw))


# ---------------------------------------------------------------------------
# the source model: parsed tables


class Source:
    def __init__(self, repo=None, conv_rs=None):
        self.repo = repo or os.environ.get("DASP_REPO", "/repo")
        self.conv_path = conv_rs or os.environ.get("DASP_CONV_RS") or os.path.join(self.repo, "dasp_sample/src/conv.rs")
        self.types_path = os.environ.get("DASP_TYPES_RS") or os.path.join(self.repo, "dasp_sample/src/types.rs")  # env: TESTING only
        self.lib_path = os.path.join(self.repo, "dasp_sample/src/lib.rs")
        self.custom = {}      # I24 -> dict(rep, eq, min, max, total)
        self.sample = {}      # i8 -> dict(signed_ty, float_ty, eq)
        self.mods = {}        # mod name -> source type
        self.funcs = {}       # (mod, fn) -> dict(param, body tokens, ast, src text, line)
        self.order = []       # (mod, fn) in source order
        self.dispatch = {}    # (src type, dst type) -> (mod, fn)
        self.parse_types()
        self.parse_lib()
        self.parse_conv()
        self.typecheck_all()

    # ---- types.rs
    def parse_types(self):
        src = open(self.types_path).read()
        toks = tokenize(src, "types.rs")
        n = 0
        for i, t in enumerate(toks):
            if t.text == "new_sample_type" and toks[i + 1].text == "!" and toks[i + 2].text == "(" and toks[i - 1].text != "macro_rules":
                j = balanced(toks, i + 2, "types.rs")
                a = toks[i + 3:j]
                txt = " ".join(x.text for x in a)
                m = re.match(r"^(\w+) : (\w+) , eq : (-? ?[\d_]+) , min : (-? ?[\d_]+) , max : (-? ?[\d_]+) , total : (-? ?[\d_]+) , from : ", txt)
                if not m:
                    raise TranslateError(f"types.rs:{line_of(src, t.pos)}: new_sample_type! invocation not in the expected form: {txt[:120]}")
                num = lambda s: int(s.replace(" ", "").replace("_", ""))
                name, rep = m.group(1), m.group(2)
                if rep not in PRIM:
                    raise TranslateError(f"types.rs: representation type {rep} of {name} is not a primitive integer")
                self.custom[name] = dict(rep=rep, eq=num(m.group(3)), min=num(m.group(4)), max=num(m.group(5)), total=num(m.group(6)))
                lo, hi = prim_range(rep)
                c = self.custom[name]
                if not (lo <= c["min"] <= c["eq"] <= c["max"] <= hi):
                    raise TranslateError(f"types.rs: {name}: min/eq/max not ordered inside {rep}")
                n += 1
        for need in ("I24", "U24", "I48", "U48"):
            if need not in self.custom:
                raise TranslateError(f"types.rs: no new_sample_type! invocation for {need}")
        # new_unchecked and inner must be the identity on the representation
        flat = " ".join(t.text for t in toks)
        if "pub fn new_unchecked ( s : $ Rep ) -> Self { $ T ( s ) }" not in flat:
            raise TranslateError("types.rs: new_unchecked is no longer `$T(s)`; the model treats it as the identity")
        if "pub fn inner ( self ) -> $ Rep { self . 0 }" not in flat:
            raise TranslateError("types.rs: inner() is no longer `self.0`; the model treats it as the identity")
        # the constants and the validity check must be the macro arguments the tables are read from
        for what, text in (
                ("MIN", "pub const MIN : $ T = $ T ( $ MIN ) ;"), ("MAX", "pub const MAX : $ T = $ T ( $ MAX ) ;"),
                ("EQUILIBRIUM", "pub const EQUILIBRIUM : $ T = $ T ( $ EQ ) ;"),
                ("MIN_REP", "const MIN_REP : $ Rep = $ MIN ;"), ("MAX_REP", "const MAX_REP : $ Rep = $ MAX ;"),
                ("new (the format's validity check)",
                 "pub fn new ( val : $ Rep ) -> Option < Self > { if val > MAX_REP || val < MIN_REP { None } else { Some ( $ T ( val ) ) } }")):
            if text not in flat:
                raise TranslateError(f"types.rs: the definition of {what} in new_sample_type! is no longer `{text.replace(' ', '')}`; "
                                     "the format table read from the invocations may not describe the types (model cannot be regenerated)")

    # ---- lib.rs
    def parse_lib(self):
        src = open(self.lib_path).read()
        toks = tokenize(src, "lib.rs")
        found = False
        for i, t in enumerate(toks):
            if t.text == "impl_sample" and toks[i + 1].text == "!" and toks[i + 2].text == "{" and toks[i - 1].text != "macro_rules":
                j = balanced(toks, i + 2, "lib.rs")
                txt = " ".join(x.text for x in toks[i + 3:j])
                # entries: T : Signed : X , Float : Y , EQUILIBRIUM : E ,?
                pos = 0
                ent = re.compile(r"\s*(\w+) : Signed : (\w+) , Float : (\w+) , EQUILIBRIUM : (.+?)(?: , (?=\w+ : Signed)|$)")
                while pos < len(txt):
                    m = ent.match(txt, pos)
                    if not m:
                        raise TranslateError(f"lib.rs: impl_sample! entry not in the expected form near {txt[pos:pos+80]!r}")
                    self.sample[m.group(1)] = dict(signed_ty=m.group(2), float_ty=m.group(3), eq_text=m.group(4).strip())
                    pos = m.end()
                found = True
        if not found:
            raise TranslateError("lib.rs: impl_sample! table not found")
        for f in FORMATS + ["f32", "f64"]:
            if f not in self.sample:
                raise TranslateError(f"lib.rs: impl_sample! has no entry for {f}")
        for f in FORMATS:
            e = self.sample[f]["eq_text"]
            m = re.fullmatch(r"types :: (\w+) :: EQUILIBRIUM", e)
            if m:
                owner = {"i24": "I24", "i48": "I48", "u24": "U24", "u48": "U48"}.get(m.group(1))
                if owner != f:
                    raise TranslateError(f"lib.rs: EQUILIBRIUM of {f} refers to {e}")
                self.sample[f]["eq"] = self.custom[f]["eq"]
            elif re.fullmatch(r"[\d_ ]+", e):
                self.sample[f]["eq"] = int(e.replace("_", "").replace(" ", ""))
            else:
                raise TranslateError(f"lib.rs: EQUILIBRIUM of {f} is {e!r} (outside the translator's grammar)")
        flat = " ".join(t.text for t in toks)
        if "fn to_sample < S > ( self ) -> S where Self : ToSample < S > , { self . to_sample_ ( ) }" not in flat:
            raise TranslateError("lib.rs: Sample::to_sample no longer just dispatches to ToSample::to_sample_")
        if "fn from_sample < S > ( s : S ) -> Self where Self : FromSample < S > , { FromSample :: from_sample_ ( s ) }" not in flat:
            raise TranslateError("lib.rs: Sample::from_sample no longer just dispatches to FromSample::from_sample_")

    def fmt_facts(self, f):
        """(rep, min, max, eq, signed) of an integer format as the source defines it."""
        if f in PRIM:
            lo, hi = prim_range(f)
            rep = f
        else:
            c = self.custom[f]
            lo, hi, rep = c["min"], c["max"], c["rep"]
        sg = self.sample[f]["signed_ty"] == f
        return rep, lo, hi, self.sample[f]["eq"], sg

    # ---- conv.rs
    PINNED = {
        "use": None, "macro conversion_fn": None, "macro conversion_fns": None, "macro conversions": None,
        "macro impl_from_sample": None, "trait FromSample": None, "impl FromSample for S": None,
        "trait ToSample": None, "impl ToSample for T": None, "trait Duplex": None, "impl Duplex for T": None,
    }

    def parse_conv(self):
        src = open(self.conv_path).read()
        self.conv_src = src
        fname = "conv.rs"
        toks = tokenize(src, fname)
        i, seen = 0, {}
        n = len(toks)

        def upto_semicolon(i):
            j = i
            while j < n and toks[j].text != ";":
                j += 1
            if j >= n:
                raise TranslateError(f"{fname}: item without `;`")
            return j

        def pin(name, body):
            seen[name] = tok_hash(body)

        while i < n:
            t = toks[i]
            ln = line_of(src, t.pos)
            if t.text == "use":
                j = upto_semicolon(i)
                pin("use", toks[i:j + 1])
                i = j + 1
            elif t.text == "macro_rules" and toks[i + 1].text == "!":
                name = toks[i + 2].text
                j = balanced(toks, i + 3, fname)
                pin("macro " + name, toks[i:j + 1])
                i = j + 1
            elif t.text == "conversions" and toks[i + 1].text == "!" and toks[i + 2].text == "(":
                j = balanced(toks, i + 2, fname)
                self.parse_conversions(toks[i + 3:j], src, ln)
                i = j + 1
                if i < n and toks[i].text == ";":
                    i += 1
            elif t.text == "impl_from_sample" and toks[i + 1].text == "!" and toks[i + 2].text == "{":
                j = balanced(toks, i + 2, fname)
                self.parse_dispatch(toks[i + 3:j], ln)
                i = j + 1
            elif t.text == "pub" and toks[i + 1].text == "trait":
                k = i
                while toks[k].text != "{":
                    k += 1
                j = balanced(toks, k, fname)
                pin("trait " + toks[i + 2].text, toks[i:j + 1])
                i = j + 1
            elif t.text == "impl":
                k = i
                while toks[k].text != "{":
                    k += 1
                head = " ".join(x.text for x in toks[i:k])
                j = balanced(toks, k, fname)
                key = {"impl < S > FromSample < S > for S": "impl FromSample for S",
                       "impl < T , U > ToSample < U > for T where U : FromSample < T > ,": "impl ToSample for T",
                       "impl < S , T > Duplex < S > for T where T : FromSample < S > + ToSample < S >": "impl Duplex for T"}.get(head)
                if key is None:
                    raise TranslateError(f"{fname}:{ln}: unknown impl `{head}`: it may add or override a conversion (model cannot be regenerated)")
                pin(key, toks[i:j + 1])
                i = j + 1
            else:
                raise TranslateError(f"{fname}:{ln}: unexpected top-level item starting with {t.text!r} (model cannot be regenerated)")
        self.seen_hashes = seen
        for name, want in PINNED_HASHES.items():
            got = seen.get(name)
            if got is None:
                raise TranslateError(f"{fname}: expected item `{name}` is missing (model cannot be regenerated)")
            if got != want:
                raise TranslateError(f"{fname}: the definition of `{name}` changed (token hash {got}, pinned {want}); "
                                     "the conversion tables may no longer mean what the translator assumes (model cannot be regenerated)")
        for name in seen:
            if name not in PINNED_HASHES:
                raise TranslateError(f"{fname}: unknown glue item `{name}` (model cannot be regenerated)")

    def parse_conversions(self, toks, src, ln):
        # T , mod { entries }
        if len(toks) < 4 or toks[1].text != "," or toks[3].text != "{":
            raise TranslateError(f"conv.rs:{ln}: conversions! header not `T, mod {{ ... }}`")
        T, mod = toks[0].text, toks[2].text
        if T not in PRIM and T not in FLOATS and T not in self.custom:
            raise TranslateError(f"conv.rs:{ln}: conversions! for unknown type {T}")
        if mod in self.mods:
            raise TranslateError(f"conv.rs:{ln}: module {mod} defined twice")
        end = balanced(toks, 3, "conv.rs")
        if end != len(toks) - 1:
            raise TranslateError(f"conv.rs:{ln}: tokens after the conversions! body")
        self.mods[mod] = T
        i = 4
        while i < end:
            if not (toks[i].kind == "id" and toks[i + 1].kind == "id" and toks[i + 2].text == "{"):
                raise TranslateError(f"conv.rs:{line_of(src, toks[i].pos)}: entry not of the form `s to_x {{ body }}`")
            param, fn = toks[i].text, toks[i + 1].text
            if fn not in RET_OF_FN:
                raise TranslateError(f"conv.rs:{line_of(src, toks[i].pos)}: {mod}::{fn}: conversion_fn! has no arm for this name")
            j = balanced(toks, i + 2, "conv.rs")
            body = toks[i + 3:j]
            where = f"conv.rs:{line_of(src, toks[i].pos)} {mod}::{fn}"
            if (mod, fn) in self.funcs:
                raise TranslateError(f"{where}: defined twice")
            p = P(body, where)
            ast = p.expr()
            if p.i != len(body):
                p.fail(f"unexpected token {body[p.i].text!r} after the expression")
            self.funcs[(mod, fn)] = dict(param=param, ast=ast, where=where, src=T, ret=RET_OF_FN[fn],
                                         text=" ".join(x.text for x in body))
            self.order.append((mod, fn))
            i = j + 1

    def parse_dispatch(self, toks, ln):
        # T , fn from {U : m} ...
        txt = [t.text for t in toks]
        if len(txt) < 4 or txt[1] != "," or txt[3] != "from":
            raise TranslateError(f"conv.rs:{ln}: impl_from_sample! header not `T, to_x from ...`")
        T, fn = txt[0], txt[2]
        if RET_OF_FN.get(fn) != T:
            raise TranslateError(f"conv.rs:{ln}: impl_from_sample! for {T} dispatches to {fn}, which does not return {T}")
        i = 4
        while i < len(txt):
            if not (txt[i] == "{" and i + 4 < len(txt) + 1 and txt[i + 2] == ":" and txt[i + 4] == "}"):
                raise TranslateError(f"conv.rs:{ln}: impl_from_sample! entry not `{{U:mod}}`")
            U, m = txt[i + 1], txt[i + 3]
            if (U, T) in self.dispatch:
                raise TranslateError(f"conv.rs:{ln}: FromSample<{U}> for {T} implemented twice")
            self.dispatch[(U, T)] = (m, fn)
            i += 5

    # ---- typing
    def is_int(self, t):
        return t in PRIM

    def is_float(self, t):
        return t in FLOATS

    def untyped(self, e):
        k = e["k"]
        if k in ("int", "float"):
            return e["suffix"] is None
        if k in ("paren", "neg"):
            return self.untyped(e["e"])
        if k == "bin":
            return self.untyped(e["l"]) and self.untyped(e["r"])
        if k == "shift":
            return self.untyped(e["l"])
        if k == "if":
            return self.untyped(e["a"]) and self.untyped(e["b"])
        return False

    def unify2(self, l, r, expect, fn):
        lu, ru = self.untyped(l), self.untyped(r)
        if lu and not ru:
            tr = self.ty(r, expect, fn)
            tl = self.ty(l, tr, fn)
        elif ru and not lu:
            tl = self.ty(l, expect, fn)
            tr = self.ty(r, tl, fn)
        else:
            tl = self.ty(l, expect, fn)
            tr = self.ty(r, expect, fn)
        if tl != tr:
            raise TranslateError(f"{fn['where']}: operand types differ: {tl} vs {tr}")
        return tl

    def ty(self, e, expect, fn):
        t = self.ty_(e, expect, fn)
        e["ty"] = t
        return t

    def ty_(self, e, expect, fn):
        k, W = e["k"], fn["where"]
        if k == "int":
            t = e["suffix"] or expect
            if t in FLOATS:
                raise TranslateError(f"{W}: integer literal {e['v']} where {t} is expected (rustc rejects this)")
            if t not in PRIM:
                raise TranslateError(f"{W}: cannot infer the type of integer literal {e['v']} (outside the translator's grammar)")
            lo, hi = prim_range(t)
            if not (lo <= e["v"] <= hi):
                raise TranslateError(f"{W}: literal {e['v']} does not fit {t}")
            return t
        if k == "float":
            t = e["suffix"] or expect
            if t not in FLOATS:
                raise TranslateError(f"{W}: cannot infer the type of float literal {e['text']} (outside the translator's grammar)")
            return t
        if k == "var":
            if e["name"] != fn["param"]:
                raise TranslateError(f"{W}: unknown variable {e['name']}")
            return fn["src"]
        if k == "paren":
            return self.ty(e["e"], expect, fn)
        if k == "neg":
            inner = e["e"]
            if inner["k"] == "int" and inner["suffix"] is None:
                # negative literal: -128 as i8 is accepted by rustc
                t = expect
                if t not in PRIM:
                    raise TranslateError(f"{W}: cannot infer the type of literal -{inner['v']}")
                lo, hi = prim_range(t)
                if not (lo <= -inner["v"] <= hi) or not PRIM[t][1]:
                    raise TranslateError(f"{W}: literal -{inner['v']} does not fit {t}")
                inner["ty"] = t
                e["neglit"] = True
                return t
            t = self.ty(inner, expect, fn)
            if not ((t in PRIM and PRIM[t][1]) or t in FLOATS):
                raise TranslateError(f"{W}: unary minus on {t}")
            return t
        if k == "cast":
            inner = e["e"]
            if self.untyped(inner):
                lit = inner
                while lit["k"] == "paren":
                    lit = lit["e"]
                default = "f64" if lit["k"] == "float" else "i32"
                t = self.ty(inner, default, fn)
            else:
                t = self.ty(inner, None, fn)
            if t not in PRIM and t not in FLOATS:
                raise TranslateError(f"{W}: `as` applied to a value of type {t}")
            return e["to"]
        if k == "bin":
            t = self.unify2(e["l"], e["r"], expect, fn)
            if t not in PRIM and t not in FLOATS:
                raise TranslateError(f"{W}: arithmetic `{e['op']}` on {t} (operator impls of the custom types are outside the grammar)")
            return t
        if k == "shift":
            t = self.ty(e["l"], expect, fn)
            if t not in PRIM:
                raise TranslateError(f"{W}: shift of a value of type {t}")
            r = e["r"]
            while r["k"] == "paren":
                r = r["e"]
            if r["k"] != "int":
                raise TranslateError(f"{W}: shift count is not a literal (outside the translator's grammar)")
            if not (0 <= r["v"] < PRIM[t][0]):
                raise TranslateError(f"{W}: shift count {r['v']} out of range for {t}")
            e["count"] = r["v"]
            return t
        if k == "cmp":
            t = self.unify2(e["l"], e["r"], None, fn)
            if t not in PRIM and t not in FLOATS:
                raise TranslateError(f"{W}: comparison of values of type {t}")
            e["argty"] = t
            return "bool"
        if k == "if":
            tc = self.ty(e["c"], None, fn)
            if tc != "bool":
                raise TranslateError(f"{W}: `if` condition of type {tc}")
            return self.unify2(e["a"], e["b"], expect, fn)
        if k == "inner":
            t = self.ty(e["e"], None, fn)
            if t not in self.custom:
                raise TranslateError(f"{W}: .inner() on {t}")
            return self.custom[t]["rep"]
        if k == "call":
            path = e["path"]
            if len(path) == 2 and path[1] == "new_unchecked" and path[0] in self.custom:
                rep = self.custom[path[0]]["rep"]
                t = self.ty(e["arg"], rep, fn)
                if t != rep:
                    raise TranslateError(f"{W}: {path[0]}::new_unchecked applied to {t}, expects {rep}")
                e["callk"] = "new"
                return path[0]
            if len(path) == 1:
                mod = fn["mod"]
            elif len(path) == 3 and path[0] == "super":
                mod = path[1]
            else:
                raise TranslateError(f"{W}: call of {'::'.join(path)} (outside the translator's grammar)")
            name = path[-1]
            if (mod, name) not in self.funcs:
                raise TranslateError(f"{W}: call of undefined function {mod}::{name}")
            callee = self.funcs[(mod, name)]
            t = self.ty(e["arg"], callee["src"], fn)
            if t != callee["src"]:
                raise TranslateError(f"{W}: {mod}::{name} applied to {t}, expects {callee['src']}")
            e["callk"] = "fn"
            e["callee"] = (mod, name)
            return callee["ret"]
        raise TranslateError(f"{W}: unknown node {k}")

    def typecheck_all(self):
        for (mod, name) in self.order:
            f = self.funcs[(mod, name)]
            f["mod"] = mod
        for key in self.order:
            f = self.funcs[key]
            t = self.ty(f["ast"], f["ret"], f)
            if t != f["ret"]:
                raise TranslateError(f"{f['where']}: body has type {t}, the function returns {f['ret']}")
            f["calls"] = sorted(set(self.calls(f["ast"])))
        # dispatch must cover the 132 ordered pairs of distinct integer formats, and name existing functions
        for (U, T), (m, fn) in self.dispatch.items():
            if (m, fn) not in self.funcs:
                raise TranslateError(f"conv.rs: FromSample<{U}> for {T} dispatches to undefined {m}::{fn}")
            g = self.funcs[(m, fn)]
            if g["src"] != U or g["ret"] != T:
                raise TranslateError(f"conv.rs: FromSample<{U}> for {T} dispatches to {m}::{fn} : {g['src']} -> {g['ret']}")
        for s in FORMATS:
            for d in FORMATS:
                if s != d and (s, d) not in self.dispatch:
                    raise TranslateError(f"conv.rs: no FromSample<{s}> for {d}: the property quantifies over all 132 pairs")
        # topological order (no recursion)
        self.topo = []
        state = {}

        def visit(key, stack):
            if state.get(key) == 2:
                return
            if state.get(key) == 1:
                raise TranslateError(f"conv.rs: recursive conversion functions {' -> '.join(a + '::' + b for a, b in stack + [key])}")
            state[key] = 1
            for c in self.funcs[key]["calls"]:
                visit(c, stack + [key])
            state[key] = 2
            self.topo.append(key)
        for key in self.order:
            visit(key, [])

    def calls(self, e):
        out = []
        if e["k"] == "call" and e.get("callk") == "fn":
            out.append(e["callee"])
        for k in ("e", "l", "r", "c", "a", "b", "arg"):
            if k in e and isinstance(e[k], dict):
                out += self.calls(e[k])
        return out


# filled below (token hashes of the pinned glue of conv.rs at the revision the translator was written for)
PINNED_HASHES = {
    "use": "8b36c9f011b7fef5", "macro conversion_fn": "0df97980d4bc0d21", "macro conversion_fns": "f6ab2b5c32c8592c",
    "macro conversions": "4d25bbeff8e84b35", "macro impl_from_sample": "de8fbb6bf42482b3",
    "trait FromSample": "2c756be7ae69c157", "impl FromSample for S": "1920f88ab377806c",
    "trait ToSample": "96f5857f07113b99", "impl ToSample for T": "630bdf32e5fe475e",
    "trait Duplex": "271874e85399c90c", "impl Duplex for T": "b8d1ff02125cba51",
}


# ---------------------------------------------------------------------------
# emission


def zl(v):
    return f"({v})" if v < 0 else str(v)


def coq_name(key):
    return f"{key[0]}_{key[1]}"


def coq_valty(t, src):
    if t in FLOATS:
        return FLOATS[t][0] + ".t"
    return "Z"


class Emit:
    """ANF emission of one function body in the res monad."""

    def __init__(self, src, fn):
        self.S, self.fn, self.n = src, fn, 0

    def fresh(self):
        self.n += 1
        return f"x{self.n}"

    def rep(self, t):
        return self.S.custom[t]["rep"] if t in self.S.custom else t

    def comp(self, e):
        """-> (stmts, atom); stmts are (var, monadic term) pairs in evaluation order"""
        k = e["k"]
        if k == "int":
            return [], str(e["v"])
        if k == "float":
            mod, prec, emax, total = FLOATS[e["ty"]]
            return [], f"({mod}.of_bits {float_bits(e['v'], prec, emax, total)})"
        if k == "var":
            return [], e["name"]
        if k == "paren":
            return self.comp(e["e"])
        if k == "neg":
            if e.get("neglit"):
                return [], zl(-e["e"]["v"])
            st, a = self.comp(e["e"])
            if e["ty"] in FLOATS:
                return st, f"({FLOATS[e['ty']][0]}.neg {a})"
            x = self.fresh()
            return st + [(x, f"neg m {e['ty']} {a}")], x
        if k == "cast":
            st, a = self.comp(e["e"])
            frm, to = e["e"]["ty"], e["to"]
            if frm in PRIM and to in PRIM:
                return st, f"(cast {to} {a})"
            if frm in PRIM and to in FLOATS:
                return st, f"({FLOATS[to][0]}.of_Z {a})"
            if frm in FLOATS and to in PRIM:
                lo, hi = prim_range(to)
                return st, f"({FLOATS[frm][0]}.to_Z_sat {zl(lo)} {zl(hi)} {a})"
            if frm == to:
                return st, a
            return st, f"({frm}_to_{to} {a})"
        if k == "bin":
            sl, a = self.comp(e["l"])
            sr, b = self.comp(e["r"])
            t = e["ty"]
            if t in FLOATS:
                op = {"+": "add", "-": "sub", "*": "mul", "/": "div"}[e["op"]]
                return sl + sr, f"({FLOATS[t][0]}.{op} {a} {b})"
            op = {"+": "add", "-": "sub", "*": "mul", "/": "idiv"}[e["op"]]
            x = self.fresh()
            return sl + sr + [(x, f"{op} m {t} {a} {b}")], x
        if k == "shift":
            st, a = self.comp(e["l"])
            op = "shl" if e["op"] == "<<" else "shr"
            return st, f"({op} {e['ty']} {a} {e['count']})"
        if k == "cmp":
            sl, a = self.comp(e["l"])
            sr, b = self.comp(e["r"])
            t = e["argty"]
            if t in FLOATS:
                M = FLOATS[t][0]
                c = {"<": f"{M}.ltb {a} {b}", "<=": f"{M}.leb {a} {b}", ">": f"{M}.gtb {a} {b}", ">=": f"{M}.geb {a} {b}",
                     "==": f"{M}.eqb {a} {b}", "!=": f"negb ({M}.eqb {a} {b})"}[e["op"]]
            else:
                c = {"<": f"{a} <? {b}", "<=": f"{a} <=? {b}", ">": f"{b} <? {a}", ">=": f"{b} <=? {a}",
                     "==": f"{a} =? {b}", "!=": f"negb ({a} =? {b})"}[e["op"]]
            return sl + sr, f"({c})"
        if k == "if":
            sc, c = self.comp(e["c"])
            x = self.fresh()
            return sc + [(x, f"(if {c} then {self.block(e['a'], 6)} else {self.block(e['b'], 6)})")], x
        if k == "inner":
            return self.comp(e["e"])
        if k == "call":
            st, a = self.comp(e["arg"])
            if e["callk"] == "new":
                return st, a
            x = self.fresh()
            return st + [(x, f"{coq_name(e['callee'])} m {a}")], x
        raise TranslateError("emit: " + k)

    def block(self, e, ind):
        """a complete monadic term for expression e in tail position"""
        while e["k"] == "paren":
            e = e["e"]
        pad = " " * ind
        if e["k"] == "if":
            sc, c = self.comp(e["c"])
            head = "".join(f"let* {x} := {t} in\n{pad}" for x, t in sc)
            return (f"{head}if {c} then\n{pad}  {self.block(e['a'], ind + 2)}\n{pad}else\n{pad}  {self.block(e['b'], ind + 2)}")
        st, a = self.comp(e)
        if st and st[-1][0] == a:
            last = st.pop()[1]
        else:
            last = f"Ok {a}"
        return "".join(f"let* {x} := {t} in\n{pad}" for x, t in st) + last


def emit_function(S, key):
    f = S.funcs[key]
    em = Emit(S, f)
    body = em.block(f["ast"], 2)
    pty = coq_valty(f["src"], S)
    rty = coq_valty(f["ret"], S)
    name = coq_name(key)
    txt = f["text"]
    return (f"(* {key[0]}::{key[1]} ({f['src']} -> {f['ret']}):  {txt} *)\n"
            f"Definition {name} (m : mode) ({f['param']} : {pty}) : res {rty} :=\n  {body}.\n"
            f"#[global] Hint Unfold {name} : convdb.\n")


def is_float_fn(S, key, memo={}):
    f = S.funcs[key]
    if f["src"] in FLOATS or f["ret"] in FLOATS:
        return True
    return any(is_float_fn(S, c) for c in f["calls"])


HEADER = "(* GENERATED by translate/conv2coq.py from dasp_sample/src/{conv.rs,types.rs,lib.rs} -- do not edit.\n   Regenerated on every run of the check; committed so that a fresh checkout builds. *)\n"


def gen_format_table(S):
    o = [HEADER, "Require Import ZArith.", "From Dasp Require Import Sample.Rint Sample.ConvSpec.", "Open Scope Z_scope.", "",
         "(* what the source says about each integer sample format: representation type (types.rs",
         "   new_sample_type! / the primitive itself), MIN, MAX (types.rs / the primitive's range),",
         "   EQUILIBRIUM and signedness (lib.rs impl_sample!: signed iff `Signed` is the type itself) *)"]
    facts = {f: S.fmt_facts(f) for f in FORMATS}

    def table(name, ty, fn):
        o.append(f"Definition {name} (f : fmt) : {ty} :=\n  match f with\n" +
                 "\n".join(f"  | {FMT_CTOR[f]} => {fn(facts[f])}" for f in FORMATS) + "\n  end.")
    table("src_rep", "mty", lambda x: x[0])
    table("src_min", "Z", lambda x: zl(x[1]))
    table("src_max", "Z", lambda x: zl(x[2]))
    table("src_equilibrium", "Z", lambda x: zl(x[3]))
    table("src_signed", "bool", lambda x: "true" if x[4] else "false")
    return "\n".join(o) + "\n"


def gen_conv(S):
    o = [HEADER, "Require Import ZArith Bool.", "From Dasp Require Import Base.Res Sample.Rint Sample.ConvSpec.",
         "Open Scope Z_scope.", "",
         "(* One definition per function of the `conversions!` blocks whose source, target and callees are all",
         "   integer formats.  [m] is the build profile (Checked = overflow checks on, Wrapping = off).",
         "   Values of I24/U24/I48/U48 are their representation values: `new_unchecked` and `.inner()` are",
         "   the identity (checked by the translator against types.rs). *)", ""]
    for key in S.topo:
        if not is_float_fn(S, key):
            o.append(emit_function(S, key))
    o.append("(* Sample::to_sample::<D>() on a value of format S, i.e. <D as FromSample<S>>::from_sample_, as the\n"
             "   impl_from_sample! tables dispatch it; S = D is the blanket identity impl. *)")
    o.append("Definition to_sample (m : mode) (s d : fmt) (z : Z) : res Z :=\n  match s, d with")
    for s in FORMATS:
        for d in FORMATS:
            if s == d:
                o.append(f"  | {FMT_CTOR[s]}, {FMT_CTOR[d]} => Ok z")
            else:
                o.append(f"  | {FMT_CTOR[s]}, {FMT_CTOR[d]} => {coq_name(S.dispatch[(s, d)])} m z")
    o.append("  end.\n#[global] Hint Unfold to_sample : convdb.")
    return "\n".join(o) + "\n"


def gen_conv_float(S):
    o = [HEADER, "Require Import Floats.SpecFloat.", "Require Import ZArith Bool.",
         "From Flocq Require Import Core BinarySingleNaN.",
         "From Dasp Require Import Base.Res Base.Float Sample.Rint Sample.ConvSpec.", "From DaspGen Require Import ConvGen.",
         "Open Scope Z_scope.", "",
         "(* Functions of the `conversions!` blocks with a float source, target or callee.  Float literals are",
         "   exact bit patterns (decimal -> nearest, computed by the translator in rational arithmetic);",
         "   `int as fN` = of_Z (round to nearest even), `fN as int` = to_Z_sat (NaN -> 0, saturating, truncating),",
         "   `f32 as f64` / `f64 as f32` = f32_to_f64 / f64_to_f32. *)", ""]
    for key in S.topo:
        if is_float_fn(S, key):
            o.append(emit_function(S, key))
    # dispatch tables
    for ft in ("f32", "f64"):
        M = FLOATS[ft][0]
        o.append(f"Definition to_sample_{ft}_of_int (m : mode) (s : fmt) (z : Z) : res {M}.t :=\n  match s with")
        for s in FORMATS:
            if (s, ft) not in S.dispatch:
                raise TranslateError(f"conv.rs: no FromSample<{s}> for {ft}")
            o.append(f"  | {FMT_CTOR[s]} => {coq_name(S.dispatch[(s, ft)])} m z")
        o.append("  end.")
        o.append(f"Definition to_sample_int_of_{ft} (m : mode) (d : fmt) (x : {M}.t) : res Z :=\n  match d with")
        for d in FORMATS:
            if (ft, d) not in S.dispatch:
                raise TranslateError(f"conv.rs: no FromSample<{ft}> for {d}")
            o.append(f"  | {FMT_CTOR[d]} => {coq_name(S.dispatch[(ft, d)])} m x")
        o.append("  end.")
    for a, b in (("f32", "f64"), ("f64", "f32")):
        if (a, b) not in S.dispatch:
            raise TranslateError(f"conv.rs: no FromSample<{a}> for {b}")
        o.append(f"Definition to_sample_{a}_{b} (m : mode) (x : {FLOATS[a][0]}.t) : res {FLOATS[b][0]}.t := {coq_name(S.dispatch[(a, b)])} m x.")
    # the diagonal: no impl_from_sample! row may name it (a second impl would overlap the blanket impl), so what
    # to_sample::<f32>() on an f32 dispatches to is the blanket `impl<S> FromSample<S> for S`, whose text is pinned
    # (PINNED_HASHES["impl FromSample for S"]: `fn from_sample_(s: S) -> Self { s }`)
    o.append("(* S = D: the blanket `impl<S> FromSample<S> for S { fn from_sample_(s: S) -> Self { s } }` (text pinned by the translator) *)")
    for a in ("f32", "f64"):
        if (a, a) in S.dispatch:
            raise TranslateError(f"conv.rs: an impl_from_sample! row for {a} -> {a} next to the blanket identity impl")
        o.append(f"Definition to_sample_{a}_{a} (m : mode) (x : {FLOATS[a][0]}.t) : res {FLOATS[a][0]}.t := Ok x.")
    return "\n".join(o) + "\n"


def pair_name(s, d):
    return f"{s.lower()}_{d.lower()}"


def gen_proofs(S, s):
    o = [HEADER, "Require Import ZArith Bool Lia.",
         "From Dasp Require Import Base.Res Sample.Rint Sample.RintProofs Sample.ConvSpec Sample.ConvTactics.",
         "From DaspGen Require Import ConvGen.", "Open Scope Z_scope.", "",
         f"(* what Sample::to_sample dispatches to for source format {s}, against the specification;",
         "   [Ok] = no overflow panic in a debug build *)"]
    for d in FORMATS:
        if d == s:
            continue
        key = S.dispatch[(s, d)]
        o.append(f"Lemma conv_{pair_name(s, d)}_correct : forall z, in_range {FMT_CTOR[s]} z ->\n"
                 f"  to_sample Checked {FMT_CTOR[s]} {FMT_CTOR[d]} z = Ok (spec_conv {FMT_CTOR[s]} {FMT_CTOR[d]} z).\n"
                 f"Proof. solve_conv. Qed.  (* {key[0]}::{key[1]} *)")
    return "\n".join(o) + "\n"


def gen_transfer(S):
    o = [HEADER, "Require Import ZArith Bool.",
         "From Dasp Require Import Base.Res Sample.Rint Sample.RintProofs Sample.ConvSpec Sample.ConvTactics.",
         "From DaspGen Require Import ConvGen.", "Open Scope Z_scope.", "",
         "(* whenever the debug build (overflow checks on) returns a value, the release build returns the same",
         "   value -- for EVERY input, in range or not; syntax-directed, no arithmetic *)"]
    for key in S.topo:
        if is_float_fn(S, key):
            continue
        n = coq_name(key)
        o.append(f"Lemma {n}_transfer : forall z, le_res ({n} Checked z) ({n} Wrapping z).\n"
                 f"Proof. solve_transfer {n}. Qed.\n#[global] Hint Resolve {n}_transfer : convle.")
    o.append("Lemma to_sample_transfer : forall s d z v, to_sample Checked s d z = Ok v -> to_sample Wrapping s d z = Ok v.\n"
             "Proof.\n  intros s d z. change (le_res (to_sample Checked s d z) (to_sample Wrapping s d z)).\n"
             "  destruct s, d; cbv beta iota delta [to_sample]; auto using @le_res_refl with convle.\nQed.")
    return "\n".join(o) + "\n"


def gen_correct(S):
    o = [HEADER, "Require Import ZArith Bool Lia.",
         "From Dasp Require Import Base.Res Sample.Rint Sample.RintProofs Sample.ConvSpec Sample.ConvTactics.",
         "From DaspGen Require Import FormatTable ConvGen ConvTransfer " + " ".join(f"ConvProofs_{s.lower()}" for s in FORMATS) + ".",
         "Open Scope Z_scope.", "",
         "Lemma to_sample_correct : forall s d z, s <> d -> in_range s z -> to_sample Checked s d z = Ok (spec_conv s d z).",
         "Proof.", "  intros s d z Hne Hr; destruct s, d; try congruence."]
    for s in FORMATS:
        for d in FORMATS:
            if s != d:
                o.append(f"  - exact (conv_{pair_name(s, d)}_correct z Hr).")
    o += ["Qed.", "",
          "(* the formats as the source defines them (types.rs MIN/MAX, lib.rs EQUILIBRIUM/Signed, the primitive",
          "   ranges) are the formats of the specification *)",
          "Lemma format_table_ok : forall f,",
          "  src_min f = fmin f /\\ src_max f = fmax f /\\ src_equilibrium f = equilibrium f /\\ src_signed f = signed f /\\",
          "  tmin (src_rep f) <= fmin f /\\ fmax f <= tmax (src_rep f).",
          "Proof. destruct f; vm_compute; repeat split; congruence. Qed."]
    return "\n".join(o) + "\n"


def write_if_changed(path, content):
    try:
        with open(path) as f:
            if f.read() == content:
                return False
    except FileNotFoundError:
        pass
    os.makedirs(os.path.dirname(path), exist_ok=True)
    with open(path, "w") as f:
        f.write(content)
    return True


def generate(outdir=GEN, repo=None, conv_rs=None, model_only=False):
    """Returns (Source, list of files written).  Raises TranslateError."""
    S = Source(repo, conv_rs)
    files = {"FormatTable.v": gen_format_table(S), "ConvGen.v": gen_conv(S), "ConvFloatGen.v": gen_conv_float(S)}
    if not model_only:
        for s in FORMATS:
            files[f"ConvProofs_{s.lower()}.v"] = gen_proofs(S, s)
        files["ConvTransfer.v"] = gen_transfer(S)
        files["ConvCorrect.v"] = gen_correct(S)
    changed = [n for n, c in files.items() if write_if_changed(os.path.join(outdir, n), c)]
    return S, changed


def main():
    if "--hashes" in sys.argv:
        S = Source.__new__(Source)
        S.repo = os.environ.get("DASP_REPO", "/repo")
        S.conv_path = os.path.join(S.repo, "dasp_sample/src/conv.rs")
        S.custom = {"I24": dict(rep="i32"), "U24": dict(rep="i32"), "I48": dict(rep="i64"), "U48": dict(rep="i64")}
        S.mods, S.funcs, S.order, S.dispatch = {}, {}, [], {}
        global PINNED_HASHES
        saved, PINNED_HASHES = PINNED_HASHES, {}
        try:
            S.parse_conv()
        except TranslateError as e:
            print("note:", e)
        for k, v in S.seen_hashes.items() if hasattr(S, "seen_hashes") else []:
            print(f'    "{k}": "{v}",')
        return 0
    try:
        S, changed = generate()
    except TranslateError as e:
        print("TRANSLATE-ERROR:", e)
        return 2
    print(f"conv2coq: {len(S.funcs)} functions, {len(S.dispatch)} dispatch entries, rewritten: {changed or 'nothing'}")
    return 0


if __name__ == "__main__":
    sys.exit(main())
