#!/usr/bin/env python3
"""typesops2coq.py — reads the BODIES of the macros `new_sample_type!`, `impl_neg!`, `impl_from!` (and pins the
list-walking `impl_froms!`) of dasp_sample/src/types.rs (current working tree) and emits coq/gen/TypesOpsGen.v:
one shallow Gallina definition per Rust function over the machine-integer semantics of Sample/Rint.v
(see Sample/TypesGenSem.v for the embedding), generic in the macro arguments, then instantiated for every
`new_sample_type!` invocation (one [gops] record per type: exactly the impls the invocation expands to).

Strict: a recursive-descent parser for the Rust subset these macro bodies use.  Anything outside the subset is a
TranslateError (never silently skipped).  The only parts of the macro bodies that are not translated are the trait
impls that C15 does not speak about (Div Not Rem Shl Shr BitAnd BitOr BitXor): their headers are parsed, their
function bodies are skipped, and they are LISTED in the generated file.

Accepted subset
  items   pub? const NAME: $T|$Rep = $T($X) | $X;          #[derive(..)] pub struct $T($Rep);
          impl From<$Rep> for $T {fn}    impl $T {fn*}    impl ::core::ops::TRAIT<$T>? for $T { type Output = $T; fn }
          impl_froms!($T: $Rep, $($rest)*);
  fn      #[inline]* pub? fn NAME(self | mut self | x: TYPE, ...) -> TYPE BLOCK
  TYPE    Self | $T | $Rep | $U | Option<Self|$T|$Rep>
  BLOCK   { STMT* EXPR? }
  STMT    let x = EXPR;  |  while EXPR { (self.0 -= EXPR; | self.0 += EXPR; | self.0 = EXPR;)* }   (only with `mut self`)
          |  self.0 -= EXPR; | self.0 += EXPR; | self.0 = EXPR;                                     (only with `mut self`)
  EXPR    || && (short-circuit), == != < <= > >=, + - *, unary - !, `as $Rep`, literals, self, self.0, x, x.0,
          MIN MAX EQUILIBRIUM MIN_REP MAX_REP TOTAL, cfg!(debug_assertions), $T(e), Self(e), $T::f(e..), Some(e), None,
          if c BLOCK else BLOCK|if.., (e), e.m() for the methods m of `impl $T`, e.expect(".."), e.and_then($T::new),
          e.checked_add|sub|mul(e), e.wrapping_add|sub|mul(e)
"""
import re, sys, os

sys.path.insert(0, os.path.dirname(os.path.abspath(__file__)))
import types2coq  # noqa: E402
from types2coq import TranslateError  # noqa: E402

# ---------------------------------------------------------------------------------------------
# tokens

TOK = re.compile(r"""
  (?P<ws>\s+)
 |(?P<lc>//[^\n]*)
 |(?P<bc>/\*.*?\*/)
 |(?P<str>"(?:[^"\\]|\\.)*")
 |(?P<int>[0-9][0-9_]*)
 |(?P<mvar>\$[A-Za-z_]\w*)
 |(?P<id>[A-Za-z_]\w*)
 |(?P<op>::|->|=>|==|!=|<=|>=|&&|\|\||\+=|-=|\*=|/=|%=|<<=|>>=|<<|>>|\.\.=|\.\.|[-+*/%^&|!<>=.,;:(){}\[\]\#$?@~'])
""", re.X | re.S)


class Tok:
    __slots__ = ("k", "s", "line", "a", "b")

    def __init__(self, k, s, line, a, b):
        self.k, self.s, self.line, self.a, self.b = k, s, line, a, b

    def __repr__(self):
        return f"{self.s!r}@{self.line}"


def tokenize(text):
    toks, i, line = [], 0, 1
    while i < len(text):
        m = TOK.match(text, i)
        if not m:
            raise TranslateError(f"types.rs:{line}: cannot tokenize {text[i:i + 20]!r}")
        k = m.lastgroup
        if k not in ("ws", "lc", "bc"):
            toks.append(Tok(k, m.group(0), line, m.start(), m.end()))
        line += m.group(0).count("\n")
        i = m.end()
    return toks


def close_of(toks, i):
    """toks[i] is an opening bracket; index of the matching closing one"""
    pair = {"(": ")", "{": "}", "[": "]"}
    if toks[i].s not in pair:
        raise TranslateError(f"types.rs:{toks[i].line}: expected a bracket, found {toks[i].s!r}")
    stack = []
    for j in range(i, len(toks)):
        s = toks[j].s
        if toks[j].k == "op" and s in pair:
            stack.append(pair[s])
        elif toks[j].k == "op" and s in pair.values():
            if not stack or stack.pop() != s:
                raise TranslateError(f"types.rs:{toks[j].line}: unbalanced {s!r}")
            if not stack:
                return j
    raise TranslateError(f"types.rs:{toks[i].line}: unclosed {toks[i].s!r}")


def text_of(toks):
    return " ".join(t.s for t in toks)


# ---------------------------------------------------------------------------------------------
# macro definitions

PATTERNS = {
    "new_sample_type": ["$T : ident : $Rep : ident , eq : $EQ : expr , min : $MIN : expr , max : $MAX : expr , "
                        "total : $TOTAL : expr , from : $ ( $rest : tt ) *"],
    "impl_neg": ["$T : ident"],
    "impl_from": ["$T : ident : $Rep : ident from { $U : ident : $URep : ty }", "$T : ident : $Rep : ident from $U : ident"],
}
# impl_froms! walks the from-list: `{U:URep}` entries go to the first arm of impl_from!, bare identifiers to the
# second.  The table translator (types2coq.py) and the instantiation below rely on exactly this dispatch.
IMPL_FROMS = [
    ("$T : ident : $Rep : ident , { $U : ident : $URep : ty } , $ ( $rest : tt ) *",
     "impl_from ! ( $T : $Rep from { $U : $URep } ) ; impl_froms ! ( $T : $Rep , $ ( $rest ) * ) ;"),
    ("$T : ident : $Rep : ident , { $U : ident : $URep : ty }",
     "impl_from ! ( $T : $Rep from { $U : $URep } ) ;"),
    ("$T : ident : $Rep : ident , $U : ident , $ ( $rest : tt ) *",
     "impl_from ! ( $T : $Rep from $U ) ; impl_froms ! ( $T : $Rep , $ ( $rest ) * ) ;"),
    ("$T : ident : $Rep : ident , $U : ident",
     "impl_from ! ( $T : $Rep from $U ) ;"),
    ("$T : ident : $Rep : ident ,", ""),
]


def macro_defs(toks):
    """{name: [(pattern tokens, body tokens)]} for every macro_rules! definition of the file"""
    defs, i = {}, 0
    while i < len(toks):
        if toks[i].s == "macro_rules" and i + 3 < len(toks) and toks[i + 1].s == "!":
            name = toks[i + 2].s
            if toks[i + 3].s != "{":
                raise TranslateError(f"types.rs:{toks[i].line}: macro_rules! {name} not followed by '{{'")
            end = close_of(toks, i + 3)
            arms, j = [], i + 4
            while j < end:
                if toks[j].s != "(":
                    raise TranslateError(f"types.rs:{toks[j].line}: macro {name}: expected '(' of an arm, found {toks[j].s!r}")
                pe = close_of(toks, j)
                if toks[pe + 1].s != "=>" or toks[pe + 2].s != "{":
                    raise TranslateError(f"types.rs:{toks[pe].line}: macro {name}: expected `=> {{` after the pattern")
                be = close_of(toks, pe + 2)
                arms.append((toks[j + 1:pe], toks[pe + 3:be]))
                j = be + 1
                if j < end and toks[j].s == ";":
                    j += 1
            if name in defs:
                raise TranslateError(f"macro {name} defined twice")
            defs[name] = arms
            i = end + 1
        else:
            i += 1
    return defs


# ---------------------------------------------------------------------------------------------
# parser of the macro bodies

UNMODELLED_TRAITS = ["Div", "Not", "Rem", "Shl", "Shr", "BitAnd", "BitOr", "BitXor"]   # outside C15
MODELLED_TRAITS = {"Add": "add", "Sub": "sub", "Mul": "mul", "Neg": "neg"}
REQUIRED_DERIVES = {"PartialEq", "Eq", "PartialOrd", "Ord"}
CONSTS_EXPECTED = {"MIN": ("T", "MIN"), "MAX": ("T", "MAX"), "EQUILIBRIUM": ("T", "EQ"),
                   "MIN_REP": ("Rep", "MIN"), "MAX_REP": ("Rep", "MAX"), "TOTAL": ("Rep", "TOTAL")}
ARG_FIELD = {"MIN": "a_min", "MAX": "a_max", "EQ": "a_eq", "TOTAL": "a_total"}
CMP = {"==", "!=", "<", "<=", ">", ">="}
UNSUPPORTED_BIN = {"/", "%", "&", "|", "^", "<<", ">>", "..", "..=", "=", "*=", "/=", "%=", "<<=", ">>=", "?"}


class Fn:
    def __init__(self, name, params, ret, body, line, where, mut_self, src):
        self.name, self.params, self.ret, self.body, self.line = name, params, ret, body, line
        self.where, self.mut_self, self.src = where, mut_self, src


class P:
    text = ""   # the source text the tokens index into (set by translate_text)

    def __init__(self, toks, what):
        self.t, self.i, self.what = toks, 0, what

    # -- token helpers
    def peek(self, k=0):
        return self.t[self.i + k].s if self.i + k < len(self.t) else None

    def line(self):
        return self.t[min(self.i, len(self.t) - 1)].line if self.t else 0

    def err(self, msg):
        raise TranslateError(f"types.rs:{self.line()}: {self.what}: {msg}")

    def eat(self, s):
        if self.peek() != s:
            self.err(f"expected {s!r}, found {self.peek()!r}")
        self.i += 1

    def eat_seq(self, seq):
        for s in seq.split():
            self.eat(s)

    def accept(self, s):
        if self.peek() == s:
            self.i += 1
            return True
        return False

    def ident(self):
        if self.i >= len(self.t) or self.t[self.i].k != "id":
            self.err(f"expected an identifier, found {self.peek()!r}")
        self.i += 1
        return self.t[self.i - 1].s

    def done(self):
        return self.i >= len(self.t)

    # -- types
    def ty(self):
        s = self.peek()
        if s in ("Self", "$T"):
            self.i += 1
            return "T"
        if s == "$Rep":
            self.i += 1
            return "Rep"
        if s == "$U":
            self.i += 1
            return "U"
        if s == "Option":
            self.i += 1
            self.eat("<")
            inner = self.ty()
            self.eat(">")
            if inner not in ("T", "Rep"):
                self.err("Option of an unsupported type")
            return "Opt" + inner
        self.err(f"type {s!r} is outside the modelled subset")

    # -- attributes
    def attrs(self):
        out = []
        while self.peek() == "#":
            self.eat("#")
            if self.peek() != "[":
                self.err("expected '[' after '#'")
            e = close_of(self.t, self.i)
            out.append(self.t[self.i + 1:e])
            self.i = e + 1
        return out

    # -- functions
    def fn(self, where):
        for a in self.attrs():
            if text_of(a) != "inline":
                self.err(f"attribute #[{text_of(a)}] on a function is outside the modelled subset")
        self.accept("pub")
        start = self.i
        line = self.line()
        self.eat("fn")
        name = self.ident()
        self.eat("(")
        params, mut_self = [], False
        while self.peek() != ")":
            if self.peek() == "mut" and self.peek(1) == "self":
                self.i += 2
                params.append(("self", "T"))
                mut_self = True
            elif self.peek() == "self":
                self.i += 1
                params.append(("self", "T"))
            else:
                if self.peek() == "mut":
                    self.err("`mut` parameters other than self are outside the modelled subset")
                pn = self.ident()
                self.eat(":")
                params.append((pn, self.ty()))
            if not self.accept(","):
                break
        self.eat(")")
        ret = "Unit"
        if self.accept("->"):
            ret = self.ty()
        if self.peek() != "{":
            self.err(f"fn {name}: expected the body")
        end = close_of(self.t, self.i)
        src = P.text[self.t[start].a:self.t[end].b]
        src = re.sub(r"\s+", " ", re.sub(r"//[^\n]*", "", re.sub(r"/\*.*?\*/", "", src, flags=re.S)))
        body = self.block(mut_self)
        return Fn(name, params, ret, body, line, where, mut_self, src)

    def skip_fn(self):
        """a function of an impl that C15 does not speak about: header checked, body skipped"""
        self.attrs()
        self.accept("pub")
        self.eat("fn")
        name = self.ident()
        if self.peek() != "(":
            self.err(f"fn {name}: expected '('")
        self.i = close_of(self.t, self.i) + 1
        if self.accept("->"):
            self.ty()
        if self.peek() != "{":
            self.err(f"fn {name}: expected the body")
        self.i = close_of(self.t, self.i) + 1
        return name

    # -- statements / blocks
    def block(self, mut_self):
        self.eat("{")
        stmts, tail = [], None
        while self.peek() != "}":
            if self.done():
                self.err("unterminated block")
            s = self.peek()
            if s == "let":
                ln = self.line()
                self.i += 1
                if self.peek() == "mut":
                    self.err("`let mut` is outside the modelled subset (only `mut self` is mutable)")
                x = self.ident()
                if self.accept(":"):
                    self.ty()
                self.eat("=")
                e = self.expr()
                self.eat(";")
                stmts.append(("let", x, e, ln))
            elif s == "while":
                ln = self.line()
                self.i += 1
                if not mut_self:
                    self.err("`while` in a function whose self is not `mut`: nothing can change, outside the modelled subset")
                c = self.expr()
                b = self.block(mut_self)
                if b[2] is not None:
                    self.err("a `while` body must not end in an expression")
                stmts.append(("while", c, b, ln))
            elif s == "self" and self.peek(1) == "." and self.peek(2) == "0" and self.peek(3) in ("-=", "+=", "=", "*="):
                ln = self.line()
                op = self.peek(3)
                if op == "*=":
                    self.err("`self.0 *=` is outside the modelled subset")
                if not mut_self:
                    self.err("assignment to self.0 without `mut self`")
                self.i += 4
                e = self.expr()
                self.eat(";")
                stmts.append(("assign", op, e, ln))
            else:
                if tail is not None:
                    self.err("expression followed by more code (expression statements are outside the modelled subset)")
                ln = self.line()
                e = self.expr()
                if self.peek() == ";":
                    self.err("expression statement `e;` (its value is dropped) is outside the modelled subset")
                if self.peek() != "}":
                    self.err(f"unexpected {self.peek()!r} after an expression")
                tail = e
        self.eat("}")
        return ("block", stmts, tail)

    # -- expressions
    def expr(self):
        return self.e_or()

    def e_or(self):
        a = self.e_and()
        while self.peek() == "||":
            ln = self.line()
            self.i += 1
            a = ("bin", "||", a, self.e_and(), ln)
        return a

    def e_and(self):
        a = self.e_cmp()
        while self.peek() == "&&":
            ln = self.line()
            self.i += 1
            a = ("bin", "&&", a, self.e_cmp(), ln)
        return a

    def e_cmp(self):
        a = self.e_add()
        if self.peek() in CMP:
            ln = self.line()
            op = self.peek()
            self.i += 1
            a = ("bin", op, a, self.e_add(), ln)
            if self.peek() in CMP:
                self.err("chained comparison")
        if self.peek() in UNSUPPORTED_BIN:
            self.err(f"operator {self.peek()!r} is outside the modelled subset")
        return a

    def e_add(self):
        a = self.e_mul()
        while self.peek() in ("+", "-"):
            ln = self.line()
            op = self.peek()
            self.i += 1
            a = ("bin", op, a, self.e_mul(), ln)
        return a

    def e_mul(self):
        a = self.e_cast()
        while self.peek() == "*":
            ln = self.line()
            self.i += 1
            a = ("bin", "*", a, self.e_cast(), ln)
        if self.peek() in ("/", "%"):
            self.err(f"operator {self.peek()!r} is outside the modelled subset")
        return a

    def e_cast(self):
        a = self.e_unary()
        while self.peek() == "as":
            ln = self.line()
            self.i += 1
            t = self.ty()
            a = ("as", a, t, ln)
        return a

    def e_unary(self):
        if self.peek() in ("-", "!"):
            ln = self.line()
            op = self.peek()
            self.i += 1
            return ("un", op, self.e_unary(), ln)
        if self.peek() in ("&", "*"):
            self.err(f"unary {self.peek()!r} is outside the modelled subset")
        return self.e_postfix()

    def args(self):
        self.eat("(")
        out = []
        while self.peek() != ")":
            out.append(self.expr())
            if not self.accept(","):
                break
        self.eat(")")
        return out

    def e_postfix(self):
        a = self.e_primary()
        while self.peek() == ".":
            ln = self.line()
            self.i += 1
            if self.peek() == "0":
                self.i += 1
                a = ("field0", a, ln)
                continue
            if self.i < len(self.t) and self.t[self.i].k == "int":
                self.err(f"field .{self.peek()} does not exist on a one-field tuple struct")
            m = self.ident()
            if self.peek() != "(":
                self.err(f"field access .{m} is outside the modelled subset")
            if m == "expect":
                self.eat("(")
                if self.i >= len(self.t) or self.t[self.i].k != "str":
                    self.err("expect(..) with something other than a string literal")
                msg = self.t[self.i].s
                self.i += 1
                self.eat(")")
                a = ("mcall", a, "expect", [("str", msg)], ln)
            else:
                a = ("mcall", a, m, self.args(), ln)
        return a

    def e_primary(self):
        ln = self.line()
        if self.done():
            self.err("unexpected end of the macro body")
        tk = self.t[self.i]
        s = tk.s
        if tk.k == "int":
            self.i += 1
            return ("int", int(s.replace("_", "")), ln)
        if s == "(":
            self.i += 1
            e = self.expr()
            self.eat(")")
            return e
        if s == "self":
            self.i += 1
            return ("self", ln)
        if s in ("$T", "Self"):
            self.i += 1
            if self.peek() == "(":
                a = self.args()
                if len(a) != 1:
                    self.err("$T(..) takes exactly one field")
                return ("ctor", a[0], ln)
            if self.peek() == "::":
                self.i += 1
                f = self.ident()
                if self.peek() == "(":
                    return ("scall", f, self.args(), ln)
                return ("path", f, ln)
            self.err(f"unexpected {self.peek()!r} after $T")
        if s == "Some":
            self.i += 1
            a = self.args()
            if len(a) != 1:
                self.err("Some(..) takes one argument")
            return ("some", a[0], ln)
        if s == "None":
            self.i += 1
            return ("none", ln)
        if s == "cfg" and self.peek(1) == "!":
            self.i += 2
            self.eat("(")
            what = self.ident()
            if what != "debug_assertions":
                self.err(f"cfg!({what}) is outside the modelled subset (only debug_assertions)")
            self.eat(")")
            return ("cfg_da", ln)
        if s == "if":
            self.i += 1
            c = self.expr()
            a = self.block(False)
            if self.peek() != "else":
                self.err("`if` without `else` is outside the modelled subset")
            self.i += 1
            if self.peek() == "if":
                b = ("block", [], self.e_primary())
            else:
                b = self.block(False)
            return ("if", c, a, b, ln)
        if tk.k == "id":
            if self.peek(1) == "!":
                self.err(f"macro invocation {s}!(..) is outside the modelled subset")
            if self.peek(1) in ("::", "("):
                self.err(f"call/path `{s}{self.peek(1)}..` is outside the modelled subset")
            self.i += 1
            return ("var", s, ln)
        self.err(f"unexpected {s!r} in an expression")


def parse_new_sample_type(body):
    """-> dict(consts, derives, fns{name: Fn}, unmodelled[list of trait names])"""
    p = P(body, "new_sample_type!")
    consts, fns, unmodelled, traits_seen = {}, {}, [], []
    derives, struct_seen, froms_seen = None, False, False

    def add_fn(key, f):
        if key in fns:
            p.err(f"function {key} defined twice")
        fns[key] = f

    while not p.done():
        at = p.attrs()
        s = p.peek()
        if s in ("pub", "const") and (s == "const" or p.peek(1) == "const"):
            if at:
                p.err("attribute on a const")
            p.accept("pub")
            p.eat("const")
            name = p.ident()
            p.eat(":")
            t = p.ty()
            p.eat("=")
            if p.peek() == "$T":
                p.eat_seq("$T (")
                x = p.peek()
                p.i += 1
                p.eat(")")
                vt = "T"
            else:
                x = p.peek()
                p.i += 1
                vt = "Rep"
            p.eat(";")
            if not x or not x.startswith("$") or x[1:] not in ARG_FIELD:
                p.err(f"const {name}: value {x!r} is not one of the macro arguments $MIN $MAX $EQ $TOTAL")
            if vt != t:
                p.err(f"const {name}: declared type and value disagree")
            if name in consts:
                p.err(f"const {name} defined twice")
            consts[name] = (t, x[1:])
        elif s == "pub" and p.peek(1) == "struct":
            for a in at:
                ta = [x.s for x in a]
                if ta[:2] == ["derive", "("] and ta[-1] == ")":
                    derives = [x for x in ta[2:-1] if x != ","]
                else:
                    p.err(f"attribute #[{text_of(a)}] on the struct is outside the modelled subset")
            p.eat_seq("pub struct $T ( $Rep ) ;")
            struct_seen = True
        elif s == "impl":
            if at:
                p.err("attribute on an impl")
            p.i += 1
            if p.peek() == "From":
                p.eat_seq("From < $Rep > for $T {")
                f = p.fn("impl From<$Rep> for $T")
                p.eat("}")
                if f.name != "from":
                    p.err(f"impl From<$Rep>: unexpected fn {f.name}")
                add_fn("from_rep", f)
            elif p.peek() == "$T":
                p.eat_seq("$T {")
                while p.peek() != "}":
                    f = p.fn("impl $T")
                    add_fn(f.name, f)
                p.eat("}")
            elif p.peek() == "::":
                p.eat_seq(":: core :: ops ::")
                tr = p.ident()
                if tr in traits_seen:
                    p.err(f"impl {tr} twice")
                traits_seen.append(tr)
                if tr not in MODELLED_TRAITS and tr not in UNMODELLED_TRAITS:
                    p.err(f"impl of trait ::core::ops::{tr} is unknown to the translator")
                if tr == "Neg":
                    p.err("impl of Neg inside new_sample_type! (the translator knows it in impl_neg! only)")
                unary = tr in ("Not", "Neg")
                if not unary:
                    p.eat_seq("< $T >")
                p.eat_seq("for $T { type Output = $T ;")
                if tr in MODELLED_TRAITS:
                    f = p.fn(f"impl ::core::ops::{tr} for $T")
                    if f.name != MODELLED_TRAITS[tr]:
                        p.err(f"impl {tr}: unexpected fn {f.name}")
                    add_fn(f.name, f)
                elif tr in UNMODELLED_TRAITS:
                    p.skip_fn()
                    unmodelled.append(tr)
                else:
                    p.err(f"impl of trait ::core::ops::{tr} is unknown to the translator")
                p.eat("}")
            else:
                p.err(f"impl of {p.peek()!r} is unknown to the translator")
        elif s == "impl_froms":
            if at:
                p.err("attribute on impl_froms!")
            p.eat_seq("impl_froms ! ( $T : $Rep , $ ( $rest ) * ) ;")
            froms_seen = True
        else:
            p.err(f"unexpected item starting with {s!r}")
    if not struct_seen:
        p.err("no `pub struct $T($Rep);`")
    if derives is None or not REQUIRED_DERIVES <= set(derives):
        p.err(f"the struct must derive {sorted(REQUIRED_DERIVES)} (c15_order is about the derived comparison of the single field); found {derives}")
    if not froms_seen:
        p.err("no impl_froms!($T: $Rep, $($rest)*); — the widening From impls of the from-list are not generated")
    for k, v in CONSTS_EXPECTED.items():
        if k not in consts:
            p.err(f"const {k} missing")
    for k in consts:
        if k not in CONSTS_EXPECTED:
            p.err(f"const {k} is unknown to the translator")
    return dict(consts=consts, derives=derives, fns=fns, unmodelled=unmodelled)


def parse_impl_neg(body):
    p = P(body, "impl_neg!")
    p.eat_seq("impl :: core :: ops :: Neg for $T { type Output = $T ;")
    f = p.fn("impl ::core::ops::Neg for $T")
    p.eat("}")
    if not p.done():
        p.err(f"unexpected {p.peek()!r} after the impl")
    if f.name != "neg":
        p.err(f"unexpected fn {f.name}")
    return f


def parse_impl_from(body, which):
    p = P(body, f"impl_from! arm {which}")
    p.eat_seq("impl From < $U > for $T {")
    f = p.fn("impl From<$U> for $T")
    p.eat("}")
    if not p.done():
        p.err(f"unexpected {p.peek()!r} after the impl")
    if f.name != "from":
        p.err(f"unexpected fn {f.name}")
    return f


# ---------------------------------------------------------------------------------------------
# type checking + emission (A-normalisation into the monad M of Sample/TypesGenSem.v)

SIGS = {   # the interface Sample/TypesGenEquiv.v and TypesGenRun.v rely on: (parameter types, result)
    "new": (["Rep"], "OptT"), "new_unchecked": (["Rep"], "T"), "inner": (["T"], "Rep"),
    "wrap_overflow_once": (["T"], "T"), "wrap_overflow": (["T"], "T"), "from_rep": (["Rep"], "T"),
    "add": (["T", "T"], "T"), "sub": (["T", "T"], "T"), "mul": (["T", "T"], "T"), "neg": (["T"], "T"),
    "from_custom": (["U"], "T"), "from_prim": (["U"], "T"),
}
COQ_TY = {"T": "Z", "Rep": "Z", "U": "Z", "OptT": "option Z", "OptRep": "option Z", "Bool": "bool"}


def paren(s):
    return s if re.match(r"^[\w.']+$", s) or (s.startswith("(") and s.endswith(")") and balanced_outer(s)) else f"({s})"


def balanced_outer(s):
    d = 0
    for i, ch in enumerate(s):
        d += ch == "("
        d -= ch == ")"
        if d == 0 and i < len(s) - 1:
            return False
    return True


class Emit:
    """one function body -> an mtree:  ('atom', s) | ('ret', s) | ('let', x, m, body) | ('plet', x, s, body) | ('if', s, a, b)"""

    def __init__(self, fn, fns, key, u_kind=None):
        self.fn, self.fns, self.key, self.u_kind = fn, fns, key, u_kind
        self.n = 0
        self.calls = set()

    def err(self, ln, msg):
        raise TranslateError(f"types.rs:{ln}: fn {self.fn.name} ({self.fn.where}): {msg}")

    def fresh(self):
        self.n += 1
        return f"t{self.n}"

    @staticmethod
    def to_m(c):
        return ("ret", c[1]) if c[0] == "P" else c[1]

    def bind(self, parts, k):
        """parts: compiled operands [('P', s) | ('M', mtree)], evaluated left to right; k(list of pure terms) -> compiled"""
        names, lets = [], []
        for c in parts:
            if c[0] == "P":
                names.append(c[1])
            else:
                x = self.fresh()
                lets.append((x, c[1]))
                names.append(x)
        r = k(names)
        if not lets:
            return r
        m = self.to_m(r)
        for x, mm in reversed(lets):
            m = self.let(x, mm, m)
        return ("M", m)

    @staticmethod
    def let(x, mm, body):
        """let! x := mm in body, re-associated so that the temporaries bound inside mm come first (monad
        associativity; they are fresh names t<n>, so nothing is captured) and `let! x := m in ret x` is m"""
        if mm[0] == "let" and re.match(r"^t\d+$", mm[1]):
            return ("let", mm[1], mm[2], Emit.let(x, mm[3], body))
        if body == ("ret", x):
            return mm
        return ("let", x, mm, body)

    def call(self, ln, key, args_c, margs="p"):
        """call of the generated function g_<key>"""
        if key not in self.fns:
            self.err(ln, f"call of `{key}`, which the macro does not define")
        self.calls.add(key)
        return self.bind(args_c, lambda xs: ("M", ("atom", f"g_{key} c {margs} fuel " + " ".join(paren(x) for x in xs))))

    def coerce(self, ln, ty, want, what):
        if ty == "Int" and want == "Rep":
            return
        if ty != want:
            self.err(ln, f"{what}: expected a value of type {want}, found {ty}")

    def expr(self, e, env):
        """-> (type, compiled)"""
        k = e[0]
        ln = e[-1]
        if k == "int":
            return "Int", ("P", f"({e[1]})" if e[1] < 0 else str(e[1]))
        if k == "self":
            if "self" not in env:
                self.err(ln, "`self` in a function without a self parameter")
            return env["self"]
        if k == "var":
            if e[1] in env:
                return env[e[1]]
            if e[1] in CONSTS_EXPECTED:
                return CONSTS_EXPECTED[e[1]][0], ("P", f"k_{e[1]} p")
            self.err(ln, f"unknown identifier `{e[1]}`")
        if k == "cfg_da":
            return "Bool", ("P", "debug_assertions c")
        if k == "none":
            return "OptAny", ("P", "None")
        if k == "some":
            t, c = self.expr(e[1], env)
            if t == "Int":
                t = "Rep"
            if t not in ("T", "Rep"):
                self.err(ln, f"Some(..) of a {t}")
            return "Opt" + t, self.bind([c], lambda xs: ("P", f"Some {paren(xs[0])}"))
        if k == "ctor":
            t, c = self.expr(e[1], env)
            self.coerce(ln, t, "Rep", "$T(..)")
            return "T", c
        if k == "field0":
            t, c = self.expr(e[1], env)
            if t != "T":
                self.err(ln, f".0 on a value of type {t}")
            return "Rep", c
        if k == "as":
            t, c = self.expr(e[1], env)
            if e[2] != "Rep":
                self.err(ln, "`as` to a type other than $Rep is outside the modelled subset")
            if t not in ("Rep", "U", "URep", "Int"):
                self.err(ln, f"`as $Rep` applied to a {t}")
            if t == "U" and self.u_kind == "custom":
                self.err(ln, "`as $Rep` applied to a custom sample type")
            return "Rep", self.bind([c], lambda xs: ("P", f"p_as (a_rep p) {paren(xs[0])}"))
        if k == "un":
            t, c = self.expr(e[2], env)
            if e[1] == "!":
                if t != "Bool":
                    self.err(ln, "`!` on a non-boolean (bitwise not) is outside the modelled subset")
                return "Bool", self.bind([c], lambda xs: ("P", f"negb {paren(xs[0])}"))
            self.coerce(ln, t, "Rep", "unary -")
            if e[2][0] == "int":   # a negative literal, not an operation
                return "Int", ("P", f"(-{e[2][1]})")
            return "Rep", self.bind([c], lambda xs: ("M", ("atom", f"p_neg c (a_rep p) {paren(xs[0])}")))
        if k == "bin":
            op = e[1]
            if op in ("||", "&&"):
                ta, ca = self.expr(e[2], env)
                tb, cb = self.expr(e[3], env)
                if ta != "Bool" or tb != "Bool":
                    self.err(ln, f"`{op}` on non-booleans")
                if ca[0] == "P" and cb[0] == "P":
                    return "Bool", ("P", f"{paren(ca[1])} {op} {paren(cb[1])}")
                # short circuit: the right operand is evaluated only if needed
                def sc(xs, cb=cb, op=op):
                    rhs = self.to_m(cb)
                    return ("M", ("if", xs[0], ("ret", "true"), rhs) if op == "||" else ("if", xs[0], rhs, ("ret", "false")))
                return "Bool", self.bind([ca], sc)
            ta, ca = self.expr(e[2], env)
            tb, cb = self.expr(e[3], env)
            if op in CMP:
                if ta == "Int":
                    ta = tb
                if tb == "Int":
                    tb = ta
                if ta != tb or ta not in ("Rep", "T", "Int"):
                    self.err(ln, f"comparison `{op}` of a {ta} with a {tb}")
                z = {"==": "{} =? {}", "!=": "negb ({} =? {})", "<": "{} <? {}", "<=": "{} <=? {}", ">": "{} >? {}", ">=": "{} >=? {}"}[op]
                return "Bool", self.bind([ca, cb], lambda xs: ("P", z.format(paren(xs[0]), paren(xs[1]))))
            self.coerce(ln, ta, "Rep", f"left operand of `{op}`")
            self.coerce(ln, tb, "Rep", f"right operand of `{op}`")
            f = {"+": "p_add", "-": "p_sub", "*": "p_mul"}[op]
            return "Rep", self.bind([ca, cb], lambda xs: ("M", ("atom", f"{f} c (a_rep p) {paren(xs[0])} {paren(xs[1])}")))
        if k == "if":
            tc, cc = self.expr(e[1], env)
            if tc != "Bool":
                self.err(ln, "`if` condition is not a boolean")
            ta, ma = self.block(e[2], env, None)
            tb, mb = self.block(e[3], env, None)
            t = self.join(ln, ta, tb, "the branches of `if`")
            if ma[0] == "ret" and mb[0] == "ret":
                return t, self.bind([cc], lambda xs: ("P", f"if {xs[0]} then {ma[1]} else {mb[1]}"))
            return t, self.bind([cc], lambda xs: ("M", ("if", xs[0], ma, mb)))
        if k == "scall":
            f, args = e[1], e[2]
            cs = [self.expr(a, env) for a in args]
            if f == "from":
                if len(cs) != 1:
                    self.err(ln, "$T::from takes one argument")
                self.coerce(ln, cs[0][0], "Rep", "$T::from(..) (only the From<$Rep> impl is callable inside the macro)")
                return "T", self.call(ln, "from_rep", [cs[0][1]])
            if f not in self.fns or self.fns[f].where != "impl $T" or self.fns[f].params[:1] == [("self", "T")]:
                self.err(ln, f"$T::{f}(..) is not an associated function of `impl $T`")
            g = self.fns[f]
            if len(cs) != len(g.params):
                self.err(ln, f"$T::{f}: wrong number of arguments")
            for (t, _), (_, want) in zip(cs, g.params):
                self.coerce(ln, t, want, f"argument of $T::{f}")
            return g.ret, self.call(ln, f, [c for _, c in cs])
        if k == "mcall":
            t, c = self.expr(e[1], env)
            m, args = e[2], e[3]
            if m == "expect":
                if t not in ("OptT", "OptRep"):
                    self.err(ln, f".expect(..) on a {t}")
                return t[3:], self.bind([c], lambda xs: ("M", ("atom", f"p_expect {paren(xs[0])}")))
            if m == "and_then":
                if len(args) != 1 or args[0][0] != "path":
                    self.err(ln, ".and_then(..) with anything but a path to an associated function is outside the modelled subset")
                f = args[0][1]
                if f not in self.fns or self.fns[f].where != "impl $T" or self.fns[f].params[:1] == [("self", "T")] or len(self.fns[f].params) != 1:
                    self.err(ln, f".and_then($T::{f}): not a one-argument associated function of `impl $T`")
                g = self.fns[f]
                if t != "Opt" + g.params[0][1] or not g.ret.startswith("Opt"):
                    self.err(ln, f".and_then($T::{f}) on a {t}")
                self.calls.add(f)
                return g.ret, self.bind([c], lambda xs: ("M", ("atom", f"p_and_then {paren(xs[0])} (g_{f} c p fuel)")))
            mm = re.match(r"^(checked|wrapping)_(add|sub|mul)$", m)
            if mm:
                if len(args) != 1:
                    self.err(ln, f".{m} takes one argument")
                self.coerce(ln, t, "Rep", f"receiver of .{m}")
                if t == "Int":
                    self.err(ln, f".{m} on an untyped literal")
                t2, c2 = self.expr(args[0], env)
                self.coerce(ln, t2, "Rep", f"argument of .{m}")
                rt = "OptRep" if mm.group(1) == "checked" else "Rep"
                return rt, self.bind([c, c2], lambda xs: ("P", f"p_{m} (a_rep p) {paren(xs[0])} {paren(xs[1])}"))
            if t == "U":
                if m != "inner" or args or self.u_kind != "custom":
                    self.err(ln, f".{m}(..) on the source value is outside the modelled subset")
                # $U::inner — the same macro's `inner`, instantiated for the source type (its arguments: pu)
                if "inner" not in self.fns:
                    self.err(ln, "call of `inner`, which the macro does not define")
                self.calls.add("inner")
                return "URep", self.bind([c], lambda xs: ("M", ("atom", f"g_inner c pu fuel {paren(xs[0])}")))
            if t == "T":
                if m in self.fns and self.fns[m].where == "impl $T" and self.fns[m].params[:1] == [("self", "T")]:
                    g = self.fns[m]
                    cs = [self.expr(a, env) for a in args]
                    if len(cs) != len(g.params) - 1:
                        self.err(ln, f".{m}: wrong number of arguments")
                    for (ta, _), (_, want) in zip(cs, g.params[1:]):
                        self.coerce(ln, ta, want, f"argument of .{m}")
                    return g.ret, self.call(ln, m, [c] + [x for _, x in cs])
                self.err(ln, f"method .{m}(..) is not defined by the macro (outside the modelled subset)")
            self.err(ln, f"method .{m}(..) on a {t} is outside the modelled subset")
        if k == "path":
            self.err(ln, f"path $T::{e[1]} used as a value outside .and_then(..)")
        if k == "str":
            self.err(ln, "string literal")
        self.err(ln, f"expression form {k} is outside the modelled subset")

    def join(self, ln, ta, tb, what):
        if ta == "OptAny" and tb.startswith("Opt"):
            return tb
        if tb == "OptAny" and ta.startswith("Opt"):
            return ta
        if ta == "Int" and tb in ("Rep", "Int"):
            return tb
        if tb == "Int" and ta == "Rep":
            return ta
        if ta != tb:
            self.err(ln, f"{what} have different types ({ta}, {tb})")
        return ta

    def block(self, b, env, state_tail):
        """-> (type, mtree).  state_tail = name of the state variable to return when the block has no tail
        expression (loop bodies), else None."""
        _, stmts, tail = b
        env = dict(env)

        def go(i):
            if i == len(stmts):
                if tail is None:
                    if state_tail is None:
                        raise TranslateError(f"types.rs:{self.fn.line}: fn {self.fn.name}: a block without a final expression")
                    return "T", ("ret", state_tail)
                t, c = self.expr(tail, env)
                return t, self.to_m(c)
            s = stmts[i]
            ln = s[-1]
            if s[0] == "let":
                t, c = self.expr(s[2], env)
                if t == "Int":
                    t = "Rep"
                if t == "OptAny":
                    self.err(ln, "`let x = None` without a type")
                x = "v_" + s[1]
                env[s[1]] = (t, ("P", x))
                rt, rest = go(i + 1)
                return rt, (("plet", x, c[1], rest) if c[0] == "P" else ("let", x, c[1], rest))
            if s[0] == "assign":
                cur = ("field0", ("self", ln), ln)
                rhs = s[2] if s[1] == "=" else ("bin", s[1][0], cur, s[2], ln)
                t, c = self.expr(rhs, env)
                self.coerce(ln, t, "Rep", "assignment to self.0")
                rt, rest = go(i + 1)
                if c[0] == "M" and rest == ("ret", "v_self"):
                    return rt, c[1]                      # let! x := m in ret x  ==  m
                return rt, (("plet", "v_self", c[1], rest) if c[0] == "P" else ("let", "v_self", c[1], rest))
            if s[0] == "while":
                tc, cc = self.expr(s[1], env)
                if tc != "Bool":
                    self.err(ln, "`while` condition is not a boolean")
                for st in s[2][1]:
                    if st[0] != "assign":
                        self.err(st[-1], "only assignments to self.0 are modelled inside a `while` body")
                _, mb = self.block(s[2], env, "v_self")
                rt, rest = go(i + 1)
                return rt, ("let", "v_self", ("while", self.to_m(cc), mb), rest)
            self.err(ln, f"statement {s[0]}")

        return go(0)

    def function(self):
        f = self.fn
        env = {}
        for pn, pt in f.params:
            env[pn] = (pt, ("P", "v_" + pn))
        t, m = self.block(f.body, env, None)
        t = self.join(f.line, t, f.ret, f"body and declared result of fn {f.name}")
        return m


def pp(m, ind):
    """pretty-print an mtree as lines"""
    pad = "  " * ind
    k = m[0]
    if k == "atom":
        return [pad + m[1]]
    if k == "ret":
        return [pad + "ret " + paren(m[1])]
    if k == "plet":
        return [pad + f"let {m[1]} := {m[2]} in"] + pp(m[3], ind)
    if k == "let":
        if m[2][0] == "while":
            c, b = pp(m[2][1], 0), pp(m[2][2], 0)
            if len(c) == 1 and len(b) == 1:
                return [pad + f"let! {m[1]} := p_while (fun v_self => {c[0]})",
                        pad + f"                       (fun v_self => {b[0]}) fuel v_self in"] + pp(m[3], ind)
            return ([pad + f"let! {m[1]} := p_while (fun v_self =>"] + pp(m[2][1], ind + 3) + [pad + "    ) (fun v_self =>"]
                    + pp(m[2][2], ind + 3) + [pad + "    ) fuel v_self in"] + pp(m[3], ind))
        inner = pp(m[2], 0)
        if len(inner) == 1:
            return [pad + f"let! {m[1]} := {inner[0]} in"] + pp(m[3], ind)
        return [pad + f"let! {m[1]} := ("] + pp(m[2], ind + 2) + [pad + "  ) in"] + pp(m[3], ind)
    if k == "if":
        out = [pad + f"if {m[1]} then"] + pp(m[2], ind + 1)
        e = m[3]
        while e[0] == "if":
            out += [pad + f"else if {e[1]} then"] + pp(e[2], ind + 1)
            e = e[3]
        return out + [pad + "else"] + pp(e, ind + 1)
    raise AssertionError(k)


def comment_safe(s):
    return s.replace("(*", "( *").replace("*)", "* )").replace('"', "'")


# ---------------------------------------------------------------------------------------------


def translate_text(text):
    rows = types2coq.parse(text)             # the invocations (also rejects hand-written items outside the macros)
    P.text = text
    toks = tokenize(text)
    defs = macro_defs(toks)
    for name in defs:
        if name not in ("new_sample_type", "impl_neg", "impl_from", "impl_froms"):
            raise TranslateError(f"macro_rules! {name} is unknown to the translator")
    for name in ("new_sample_type", "impl_neg", "impl_from", "impl_froms"):
        if name not in defs:
            raise TranslateError(f"macro_rules! {name} not found")
    for name, pats in PATTERNS.items():
        got = [text_of(a[0]) for a in defs[name]]
        if got != pats:
            raise TranslateError(f"macro {name}: the argument pattern(s) changed: {got} (the translator knows {pats})")
    got = [(text_of(a), text_of(b)) for a, b in defs["impl_froms"]]
    if got != IMPL_FROMS:
        raise TranslateError("macro impl_froms!: the list-walking macro changed; the translator knows only the dispatch "
                             "`{U:URep}` -> impl_from! arm 1, identifier -> arm 2")
    nst = parse_new_sample_type(defs["new_sample_type"][0][1])
    fns = dict(nst["fns"])
    fns["neg"] = parse_impl_neg(defs["impl_neg"][0][1])
    fns["from_custom"] = parse_impl_from(defs["impl_from"][0][1], 1)
    fns["from_prim"] = parse_impl_from(defs["impl_from"][1][1], 2)
    for k, (pts, rt) in SIGS.items():
        if k not in fns:
            raise TranslateError(f"the macros no longer define `{k}` (Sample/TypesGenEquiv.v compares it with the hand model)")
        f = fns[k]
        if [t for _, t in f.params] != pts or f.ret != rt:
            raise TranslateError(f"types.rs:{f.line}: fn {f.name} ({f.where}): signature changed: "
                                 f"({', '.join(t for _, t in f.params)}) -> {f.ret}, the translator knows ({', '.join(pts)}) -> {rt}")
    # (a const bound to another macro argument than expected is translated as written: the equivalence proof notices)
    # compile
    compiled, deps = {}, {}
    for k, f in fns.items():
        em = Emit(f, fns, k, u_kind={"from_custom": "custom", "from_prim": "prim"}.get(k))
        compiled[k] = em.function()
        deps[k] = em.calls
    order, state = [], {}

    def visit(k, path):
        if state.get(k) == 2:
            return
        if state.get(k) == 1:
            raise TranslateError(f"recursive call cycle through {' -> '.join(path + [k])} (outside the modelled subset)")
        state[k] = 1
        for d in sorted(deps[k]):
            visit(d, path + [k])
        state[k] = 2
        order.append(k)

    for k in fns:
        visit(k, [])
    return dict(rows=rows, fns=fns, compiled=compiled, order=order, consts=nst["consts"], derives=nst["derives"],
                unmodelled=nst["unmodelled"])


def z(n):
    return f"({n})" if n < 0 else str(n)


def mty(p, what):
    sg, bits = p
    if bits not in (8, 16, 32, 64):
        raise TranslateError(f"{what}: {'i' if sg else 'u'}{bits} has no machine type in Sample/Rint.v")
    return f"{'i' if sg else 'u'}{bits}"


def emit(tr):
    rows, fns = tr["rows"], tr["fns"]
    out = ["(* GENERATED by translate/typesops2coq.py from dasp_sample/src/types.rs — do not edit.",
           "   One definition per function of the macros new_sample_type!, impl_neg!, impl_from!, generic in the macro",
           "   arguments [p : margs] (and, for impl_from! arm 1, the source type's arguments [pu]), in the build",
           "   configuration [c : cfg] and in the [fuel] of `while` loops; then one [gops] record per invocation.",
           "   Embedding: Sample/TypesGenSem.v.  Proved equal to the hand model in Sample/TypesGenEquiv.v.",
           "   Trait impls of the macro that C15 does not speak about (headers parsed, bodies NOT translated): "
           + " ".join(tr["unmodelled"]) + ".",
           "   #[derive(" + ", ".join(tr["derives"]) + ")] pub struct $T($Rep); *)",
           "Require Import List ZArith Bool String.",
           "From Dasp Require Import Base.Res Sample.Rint Sample.TypesModel Sample.TypesGenSem.",
           "Import ListNotations.",
           "Open Scope string_scope.",
           "Open Scope Z_scope.",
           ""]
    for k in CONSTS_EXPECTED:
        t, x = tr["consts"][k]
        rhs = f"$T(${x})" if t == "T" else f"${x}"
        out.append(f"Definition k_{k} (p : margs) : Z := {ARG_FIELD[x]} p.   (* const {k}: {'$T' if t == 'T' else '$Rep'} = {rhs}; *)")
    out.append("")
    for k in tr["order"]:
        f = fns[k]
        params = " ".join(f"(v_{pn} : Z)" for pn, _ in f.params)
        extra = " (pu : margs)" if k == "from_custom" else ""
        out.append(f"(* {f.where}")
        out.append(f"   {comment_safe(f.src)} *)")
        out.append(f"Definition g_{k} (c : cfg) (p : margs){extra} (fuel : nat) {params} : M {paren(COQ_TY[f.ret])} :=")
        body = pp(tr["compiled"][k], 1)
        body[-1] += "."
        out += body
        out.append("")
    out.append("(* ---- the invocations ---- *)")
    out.append("")
    for r in rows:
        out.append(f"Definition args_{r['name']} : margs := mkArgs \"{r['name']}\" {mty(r['rep'], r['name'] + ' Rep')} "
                   f"{z(r['eq'])} {z(r['min'])} {z(r['max'])} {z(r['total'])}.")
    out.append("")
    for r in rows:
        n = r["name"]
        fs = []
        for s in r["froms"]:
            if s[0] == "prim":
                fs.append(f"(GPrim {mty(s[1], n + ' from-list')}, fun c => g_from_prim c args_{n})")
            else:
                fs.append(f"(GCustom \"{s[1]}\" {mty(s[2], n + ' from-list')}, fun c => g_from_custom c args_{n} args_{s[1]})")
        neg = f"(Some (fun c => g_neg c args_{n}))" if r["neg"] else "None"
        out.append(f"Definition ops_{n} : gops :=")
        out.append(f"  mkOps args_{n} (fun c => g_new c args_{n}) (fun c => g_wrap_overflow_once c args_{n}) (fun c => g_wrap_overflow c args_{n})")
        out.append(f"    (fun c => g_from_rep c args_{n}) (fun c => g_add c args_{n}) (fun c => g_sub c args_{n}) (fun c => g_mul c args_{n})")
        out.append(f"    {neg}")
        out.append("    [" + ";\n     ".join(fs) + "].")
        out.append("")
    out.append("Definition gen_ops : list gops :=")
    out.append("  [" + "; ".join(f"ops_{r['name']}" for r in rows) + "].")
    return "\n".join(out) + "\n"


def translate(path):
    with open(path) as f:
        tr = translate_text(f.read())
    return emit(tr), tr


if __name__ == "__main__":
    pth = sys.argv[1] if len(sys.argv) > 1 else (os.environ.get("DASP_TYPES_RS") or "/repo/dasp_sample/src/types.rs")
    try:
        sys.stdout.write(translate(pth)[0])
    except TranslateError as e:
        sys.stderr.write(f"TranslateError: {e}\n")
        sys.exit(2)
