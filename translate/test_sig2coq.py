#!/usr/bin/env python3
"""Self-test of translate/sig2coq.py: edits of the real dasp_signal/src/lib.rs that must be REJECTED (outside the
grammar, or no counterpart in the hand model), edits that must leave the output UNCHANGED (comments, layout, items that
do not touch the adaptors), and edits that must be accepted and CHANGE the output.
usage: test_sig2coq.py [dasp_signal lib.rs [dasp_ring_buffer lib.rs]]   (exit 0 = all as expected)"""
import sys, os
sys.path.insert(0, os.path.dirname(os.path.abspath(__file__)))
import sig2coq as T

SRC = open(sys.argv[1] if len(sys.argv) > 1 else T.DEFAULT_SRC).read()
RING = open(sys.argv[2] if len(sys.argv) > 2 else T.DEFAULT_RING).read()
BASE = {g: T.translate_text(SRC, RING, g)[0] for g in ("buffered", "fork")}


def sub(old, new, count=1):
    def f(s):
        assert old in s, f"test is stale: {old!r} not in the source"
        return s.replace(old, new, count)
    return f


def after(marker, old, new):
    def f(s):
        i = s.index(marker)
        j = s.index(old, i)
        return s[:j] + new + s[j + len(old):]
    return f


NEXT_LOOP = "loop {\n            match ring_buffer.pop() {"
B_IMPL = "impl<S, D> Signal for Buffered<S, D>"
REFILL = "for _ in 0..ring_buffer.max_len() {\n                ring_buffer.push(signal.next());\n            }"
BR_POP = "if let Some(frame) = fork.ring_buffer.pop() {\n                        return frame;\n                    }"

# (group, name, edit, needle expected in the error)
REJECT = [
    ("buffered", "a Drop impl for BufferedFrames", sub("///// Signal Constructors", "impl<'a, D> Drop for BufferedFrames<'a, D> { fn drop(&mut self) { } }\n\n///// Signal Constructors"), "no counterpart"),
    ("buffered", "size_hint overridden", sub("    fn next(&mut self) -> Option<Self::Item> {\n        self.ring_buffer.pop()\n    }", "    fn next(&mut self) -> Option<Self::Item> {\n        self.ring_buffer.pop()\n    }\n    fn size_hint(&self) -> (usize, Option<usize>) { (0, None) }"), "no counterpart"),
    ("buffered", "a second inherent impl", sub(B_IMPL, "impl<S, D> Buffered<S, D> { pub fn poke(&mut self) { } }\n\n" + B_IMPL), "second impl"),
    ("buffered", "a method removed", sub("    fn is_exhausted(&self) -> bool {\n        self.ring_buffer.len() == 0 && self.signal.is_exhausted()\n    }\n", ""), "are gone"),
    ("buffered", "a free function touching the adaptor", sub(B_IMPL, "fn poke<S, D>(b: &mut Buffered<S, D>) { }\n\n" + B_IMPL), "mentions"),
    ("buffered", "an impl for another type mentioning the adaptor", sub(B_IMPL, "impl<S, D> From<Buffered<S, D>> for Rate { fn from(b: Buffered<S, D>) -> Self { loop {} } }\n\n" + B_IMPL), "mentions"),
    ("buffered", "another trait method mentioning the adaptor", sub("    fn by_ref(&mut self) -> &mut Self", "    fn twice<S>(self, rb: ring_buffer::Bounded<S>) -> Buffered<Self, S> where Self: Sized, S: ring_buffer::Slice<Element = Self::Frame> + ring_buffer::SliceMut { self.buffered(rb) }\n\n    fn by_ref(&mut self) -> &mut Self"), "mentions"),
    ("buffered", "a public field", sub("pub struct Buffered<S, D> {\n    signal: S,", "pub struct Buffered<S, D> {\n    pub signal: S,"), "public field"),
    ("buffered", "an extra field", sub("pub struct Buffered<S, D> {\n    signal: S,", "pub struct Buffered<S, D> {\n    count: usize,\n    signal: S,"), "fields"),
    ("buffered", "break in the refill", after("fn next(&mut self) -> Self::Frame {\n        let Buffered", "ring_buffer.push(signal.next());", "ring_buffer.push(signal.next());\n                        if signal.is_exhausted() { break; }"), "break"),
    ("buffered", "while loop", after(B_IMPL, "loop {", "while true {"), "not supported"),
    ("buffered", "closure", sub("self.ring_buffer.len() == 0 && self.signal.is_exhausted()", "(|| self.ring_buffer.len() == 0)() && self.signal.is_exhausted()"), ""),
    ("buffered", "debug_assert!", sub("BufferedFrames {\n            ring_buffer: ring_buffer,\n        }", "debug_assert!(ring_buffer.len() > 0);\n        BufferedFrames {\n            ring_buffer: ring_buffer,\n        }"), "macro"),
    ("buffered", "another adaptor of the source", after(B_IMPL, "ring_buffer.push(signal.next());", "ring_buffer.push(signal.by_ref().next());"), "source signal"),
    ("buffered", "a private access to the ring buffer", sub("self.ring_buffer.len() == 0 && self.signal.is_exhausted()", "self.ring_buffer.len == 0 && self.signal.is_exhausted()"), "private field"),
    ("buffered", "an unknown ring method", sub("self.ring_buffer.len() == 0 && self.signal.is_exhausted()", "self.ring_buffer.capacity() == 0 && self.signal.is_exhausted()"), "unknown method"),
    ("buffered", "a draining iterator of the ring", sub("self.ring_buffer.len() == 0 && self.signal.is_exhausted()", "self.ring_buffer.drain().len() == 0 && self.signal.is_exhausted()"), "not supported"),
    ("buffered", "loop not in tail position", after(B_IMPL, "        loop {", "        let x = loop {"), ""),
    ("buffered", "`..` in a struct pattern", after("pub fn into_parts", "let Buffered {\n            signal,\n            ring_buffer,\n        } = self;", "let Buffered { signal, .. } = self;\n        let ring_buffer = self.ring_buffer;"), "`..`"),
    ("buffered", "the import of the ring buffer changed", sub("use dasp_ring_buffer as ring_buffer;", "use dasp_slice as ring_buffer;"), "ring_buffer::Bounded"),
    ("buffered", "an inline module", sub(B_IMPL, "mod extra { }\n\n" + B_IMPL), "inline module"),
    ("buffered", "cfg on a method", after(B_IMPL, "    fn is_exhausted(&self)", "    #[cfg(feature = \"std\")]\n    fn is_exhausted(&self)"), "attribute"),
    ("buffered", "a wrong return representation", sub("self.ring_buffer.len() == 0 && self.signal.is_exhausted()", "self.ring_buffer.len()"), "representation"),
    ("buffered", "Signal::next declared differently", sub("    fn next(&mut self) -> Self::Frame;", "    fn next(&mut self) -> Self::Frame { loop {} }"), "pinned"),
    ("fork", "by_rc rebuilds the shared state", sub("let shared_fork = Rc::new(shared);", "let ForkShared { signal, ring_buffer, .. } = shared.into_inner();\n        let shared_fork = Rc::new(RefCell::new(ForkShared { signal, ring_buffer, pending: Self::B }));"), "`..`"),
    ("fork", "a third invocation of the macro", sub("define_branch!(BranchRcB, BranchRefB, B, A);", "define_branch!(BranchRcB, BranchRefB, B, A);\ndefine_branch!(BranchRcC, BranchRefC, A, A);"), "invocations"),
    ("fork", "the invocations' constants swapped", sub("define_branch!(BranchRcB, BranchRefB, B, A);", "define_branch!(BranchRcB, BranchRefB, A, B);"), "invocations"),
    ("fork", "a second arm in the macro", sub("define_branch!(BranchRcA, BranchRefA, A, B);", "define_branch!(BranchRcA, BranchRefA, A, B);", 1) if False else sub("    };\n}\n\ndefine_branch!(BranchRcA", "    };\n    () => {};\n}\n\ndefine_branch!(BranchRcA"), "more than one arm"),
    ("fork", "borrow_mut in pending_frames", sub("let fork = self.shared_fork.borrow();", "let mut fork = self.shared_fork.borrow_mut();", 1), "borrow_mut"),
    ("fork", "is_exhausted overridden in a branch", sub("                fork.ring_buffer.push(frame);\n                frame\n            }\n        }", "                fork.ring_buffer.push(frame);\n                frame\n            }\n            fn is_exhausted(&self) -> bool { true }\n        }", 1), "no counterpart"),
    ("fork", "a third constant", sub("    const B: bool = false;", "    const B: bool = false;\n    const C: bool = true;"), "no counterpart"),
    ("fork", "a constant that is not a literal", sub("    const B: bool = false;", "    const B: bool = !true;"), "constants"),
    ("fork", "debug_assert_eq!", sub("fork.pending = Fork::<S, D>::$OTHER;", "debug_assert_eq!(core::mem::replace(&mut fork.pending, Fork::<S, D>::$OTHER), Fork::<S, D>::$SELF);", 1), "macro"),
    ("fork", "a nested block", sub("let Fork { ref shared } = *self;", "{ let shared = self.shared.get_mut(); }\n        let Fork { ref shared } = *self;"), "nested bare"),
    ("fork", "Rc alias changed", sub("type Rc<T> = std::rc::Rc<T>;", "type Rc<T> = std::sync::Arc<T>;"), "alias"),
    ("fork", "a Clone of the shared state (deep copy)", sub("shared_fork: shared_fork.clone(),", "shared_fork: Rc::new((*shared_fork).clone()),"), ""),
    ("fork", "a Drop impl for a branch", sub("define_branch!(BranchRcA, BranchRefA, A, B);", "impl<S, D> Drop for BranchRcA<S, D> { fn drop(&mut self) { } }\ndefine_branch!(BranchRcA, BranchRefA, A, B);"), "no counterpart"),
]

UNCHANGED = [
    ("comments and blank lines", lambda s: s.replace("        loop {\n            match ring_buffer.pop()", "        // a comment\n\n        /* another */ loop {\n            match ring_buffer.pop()").replace("let mut fork = self.shared_fork.borrow_mut();", "let mut fork = /* c */ self.shared_fork.borrow_mut();")),
    ("layout", lambda s: s.replace("if ring_buffer.len() == 0 {", "if   ring_buffer . len ( )==0{").replace("fork.pending = Fork::<S, D>::$OTHER;", "fork . pending=Fork :: < S , D > :: $OTHER ;")),
    ("doc comments", lambda s: s.replace("/// Buffers the signal using the given ring buffer.", "/// Buffers (prefetches) the signal using the given ring buffer.")),
    ("an unrelated item", lambda s: s.replace(B_IMPL, "fn unrelated(x: usize) -> usize { x + 1 }\n\n" + B_IMPL)),
    ("an unrelated method of trait Signal", lambda s: s.replace("    fn by_ref(&mut self) -> &mut Self", "    fn other(&self) -> usize { 3 }\n\n    fn by_ref(&mut self) -> &mut Self")),
]

# other spellings of the same control flow: accepted, same generated text
SAME = [
    ("buffered", "if let instead of match", after(B_IMPL, "match ring_buffer.pop() {\n                Some(frame) => return frame,\n                None => {\n                    for _ in 0..ring_buffer.max_len() {\n                        ring_buffer.push(signal.next());\n                    }\n                }\n            }",
                                                "if let Some(frame) = ring_buffer.pop() {\n                return frame;\n            }\n            for _ in 0..ring_buffer.max_len() {\n                ring_buffer.push(signal.next());\n            }")),
    ("fork", "match instead of if let", sub(BR_POP, "match fork.ring_buffer.pop() {\n                        Some(frame) => return frame,\n                        None => {}\n                    }", 1)),
]

CHANGED = [
    ("buffered", "is_empty() instead of len() == 0", sub("if ring_buffer.len() == 0 {", "if ring_buffer.is_empty() {")),
    ("buffered", "a temporary in the refill", sub(REFILL, "for _ in 0..ring_buffer.max_len() {\n                let frame = signal.next();\n                ring_buffer.push(frame);\n            }")),
    ("buffered", "operands of && swapped", sub("self.ring_buffer.len() == 0 && self.signal.is_exhausted()", "self.signal.is_exhausted() && self.ring_buffer.len() == 0")),
    ("buffered", "fills at construction", sub("        Buffered {\n            signal: self,\n            ring_buffer: ring_buffer,\n        }\n    }", "        let mut buffered = Buffered {\n            signal: self,\n            ring_buffer: ring_buffer,\n        };\n        if buffered.ring_buffer.is_empty() {\n            for _ in 0..buffered.ring_buffer.max_len() {\n                buffered.ring_buffer.push(buffered.signal.next());\n            }\n        }\n        buffered\n    }")),
    ("buffered", "the range starts at len", sub("if ring_buffer.len() == 0 {\n            for _ in 0..ring_buffer.max_len() {", "if !ring_buffer.is_full() {\n            for _ in ring_buffer.len()..ring_buffer.max_len() {")),
    ("fork", "the flag is not handed over", sub("                    fork.pending = Fork::<S, D>::$OTHER;\n", "", 1)),
    ("fork", "pending_frames through slices()", sub("                    fork.ring_buffer.len()\n", "                    let (pending, _) = fork.ring_buffer.slices();\n                    pending.len()\n", 1)),
    ("fork", "no queueing after the source is exhausted", sub("                fork.ring_buffer.push(frame);\n                frame", "                if !fork.signal.is_exhausted() {\n                    fork.ring_buffer.push(frame);\n                }\n                frame", 1)),
    ("fork", "pending flag read as a bool", sub("if fork.pending == Fork::<S, D>::$SELF {\n                    fork.ring_buffer.len()", "if fork.pending {\n                    fork.ring_buffer.len()", 1)),
    ("fork", "fork starts pending on A", sub("pending: Fork::<Self, S>::B,", "pending: Fork::<Self, S>::A,")),
]

fail = 0
for group, name, edit, needle in REJECT:
    try:
        T.translate_text(edit(SRC), RING, group)
        print(f"FAIL  not rejected: [{group}] {name}")
        fail += 1
    except T.TranslateError as e:
        if needle and needle not in str(e):
            print(f"FAIL  rejected for another reason: [{group}] {name}: {e}")
            fail += 1
        else:
            print(f"ok    rejected: [{group}] {name}: {str(e)[:120]}")
for name, edit in UNCHANGED:
    s2 = edit(SRC)
    assert s2 != SRC, name
    for group in ("buffered", "fork"):
        out, _ = T.translate_text(s2, RING, group)
        if out != BASE[group]:
            print(f"FAIL  output changed: [{group}] {name}")
            fail += 1
        else:
            print(f"ok    unchanged: [{group}] {name}")
for group, name, edit in SAME:
    try:
        out, _ = T.translate_text(edit(SRC), RING, group)
        print((f"ok    accepted, same output: [{group}] {name}") if out == BASE[group] else f"FAIL  output differs: [{group}] {name}")
        fail += out != BASE[group]
    except T.TranslateError as e:
        print(f"FAIL  should be accepted: [{group}] {name}: {e}")
        fail += 1
for group, name, edit in CHANGED:
    try:
        out, _ = T.translate_text(edit(SRC), RING, group)
        if out == BASE[group]:
            print(f"FAIL  accepted but ignored: [{group}] {name}")
            fail += 1
        else:
            print(f"ok    accepted, output differs: [{group}] {name}")
    except T.TranslateError as e:
        print(f"FAIL  should be accepted: [{group}] {name}: {e}")
        fail += 1
# a change in the OTHER adaptor does not disturb this one's regeneration
s2 = sub("                    fork.pending = Fork::<S, D>::$OTHER;\n", "", 1)(SRC)
if T.translate_text(s2, RING, "buffered")[0] != BASE["buffered"]:
    print("FAIL  an edit of Fork changes BufferedGen.v")
    fail += 1
else:
    print("ok    an edit of Fork leaves BufferedGen.v unchanged")
# the ring layer: a change of a ring method's signature is seen through the method table
r2 = RING.replace("pub fn push(&mut self, elem: S::Element) -> Option<S::Element>", "pub fn push(&mut self, elem: S::Element, n: usize) -> Option<S::Element>")
assert r2 != RING
try:
    T.translate_text(SRC, r2, "buffered")
    print("FAIL  a changed signature of Bounded::push is not noticed")
    fail += 1
except T.TranslateError as e:
    print(f"ok    rejected: ring method signature changed: {str(e)[:120]}")
# evaluation order: the argument `signal.next()` is evaluated (and the source advanced) before the push
out = BASE["buffered"]
i, j = out.index("sig_next (bg_signal s)"), out.index("Bounded_push (bg_ring_buffer s)")
if i < j:
    print("ok    evaluation order: signal.next() bound before ring_buffer.push(..)")
else:
    print("FAIL  evaluation order probe")
    fail += 1
for group in ("buffered", "fork"):
    r = T.sensitivity(SRC, RING, group)
    print(f"sensitivity [{group}]: {r['sites']} single-token edits, {r['rejected']} rejected, {r['changed']} change the output, {len(r['ignored'])} ignored")
    for l in r["ignored"]:
        print("FAIL ", l)
        fail += 1
print("FAILED" if fail else "ALL OK")
sys.exit(1 if fail else 0)
