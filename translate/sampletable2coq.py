#!/usr/bin/env python3
"""translate/sampletable2coq.py -- the `impl_sample!` companion table of dasp_sample/src/lib.rs -> Coq (property C03).

Reads (through the parser of translate/conv2coq.py, which is imported, not modified):
  lib.rs    every `T: Signed: X, Float: Y, EQUILIBRIUM: E` entry of the impl_sample! invocation (14 formats),
            and pins the token text of the four provided methods of `trait Sample` that the hand model
            Sample/SampleOps.v is written after (to_signed_sample, to_float_sample, add_amp, mul_amp):
            if one of them changes the model can no longer be claimed to follow the source and the
            translator refuses ("model cannot be regenerated").
  types.rs  `eq:` of the custom-width types (for `types::i24::EQUILIBRIUM` ...), via conv2coq.Source.

Emits coq/gen/SampleTable.v (write-if-changed):
  src_signed_fmt : fmt -> fmt     the integer format named as `Signed` of each integer format
  src_float64    : fmt -> bool    `Float` of each integer format is f64 (true) / f32 (false)
  signed_of, float_of : sfmt -> sfmt   over all 14 formats (f32/f64 rows included)
  equilibrium_of : forall f, sty f     EQUILIBRIUM (integer value / exact bit pattern of the float literal)
  float_identity : forall f, sty (float_of f)   FloatSample::IDENTITY of the Float companion (1.0 literal bits)
Anything outside the expected shape is a TranslateError, never silently skipped."""
import os, sys, re
from fractions import Fraction
HERE = os.path.dirname(os.path.abspath(__file__))
sys.path.insert(0, HERE)
import conv2coq as C

TranslateError = C.TranslateError
GEN = os.path.join(os.path.dirname(HERE), "coq", "gen")
FORMATS = C.FORMATS                      # the 12 integer formats, conv2coq's order
CTOR = {"i8": "FI8", "i16": "FI16", "I24": "FI24", "i32": "FI32", "I48": "FI48", "i64": "FI64",
        "u8": "FU8", "u16": "FU16", "U24": "FU24", "u32": "FU32", "U48": "FU48", "u64": "FU64"}

PINNED = {
    "to_signed_sample": "fn to_signed_sample ( self ) -> Self :: Signed { self . to_sample ( ) }",
    "to_float_sample": "fn to_float_sample ( self ) -> Self :: Float { self . to_sample ( ) }",
    "add_amp": "fn add_amp ( self , amp : Self :: Signed ) -> Self { let self_s = self . to_signed_sample ( ) ; ( self_s + amp ) . to_sample ( ) }",
    "mul_amp": "fn mul_amp ( self , amp : Self :: Float ) -> Self { let self_f = self . to_float_sample ( ) ; ( self_f * amp ) . to_sample ( ) }",
    "identity32": "impl FloatSample for f32 { const IDENTITY : Self = 1.0 ;",
    "identity64": "impl FloatSample for f64 { const IDENTITY : Self = 1.0 ;",
    "identity": "const IDENTITY : Self :: Float = < Self :: Float as FloatSample > :: IDENTITY ;",
    "same_type": "impl < S > FromSample < S > for S { # [ inline ] fn from_sample_ ( s : S ) -> Self { s } }",
}


def float_lit_bits(text, prec, emax, total, what):
    t = text.replace(" ", "").replace("_", "")
    if not re.fullmatch(r"\d+\.\d+", t):
        raise TranslateError(f"lib.rs: {what} is {text!r} (outside the translator's grammar)")
    return C.float_bits(Fraction(t), prec, emax, total)


def read(repo=None):
    S = C.Source(repo)
    flat = " ".join(t.text for t in C.tokenize(open(S.lib_path).read(), "lib.rs"))
    for k in ("to_signed_sample", "to_float_sample", "add_amp", "mul_amp", "identity32", "identity64", "identity"):
        if PINNED[k] not in flat:
            raise TranslateError(f"lib.rs: `{k}` is no longer written as the model Sample/SampleOps.v assumes: expected `{PINNED[k]}`")
    flatc = " ".join(t.text for t in C.tokenize(open(S.conv_path).read(), "conv.rs"))
    if PINNED["same_type"] not in flatc:
        raise TranslateError("conv.rs: the blanket `impl<S> FromSample<S> for S` is no longer the identity")
    rows = {}
    for f in FORMATS:
        e = S.sample[f]
        if e["signed_ty"] not in CTOR:
            raise TranslateError(f"lib.rs: Signed of {f} is {e['signed_ty']} (not an integer format)")
        if e["float_ty"] not in ("f32", "f64"):
            raise TranslateError(f"lib.rs: Float of {f} is {e['float_ty']}")
        rows[f] = dict(signed=e["signed_ty"], f64=e["float_ty"] == "f64", eq=e["eq"])
    for f in ("f32", "f64"):
        e = S.sample[f]
        if e["signed_ty"] != f or e["float_ty"] != f:
            raise TranslateError(f"lib.rs: {f} is no longer its own Signed and Float companion")
    eq32 = float_lit_bits(S.sample["f32"]["eq_text"], 24, 128, 32, "EQUILIBRIUM of f32")
    eq64 = float_lit_bits(S.sample["f64"]["eq_text"], 53, 1024, 64, "EQUILIBRIUM of f64")
    one32 = C.float_bits(Fraction(1), 24, 128, 32)
    one64 = C.float_bits(Fraction(1), 53, 1024, 64)
    return dict(rows=rows, eq32=eq32, eq64=eq64, one32=one32, one64=one64)


def table(name, ty, fn):
    o = [f"Definition {name} (f : fmt) : {ty} :=", "  match f with"]
    for f in FORMATS:
        o.append(f"  | {CTOR[f]} => {fn(f)}")
    o.append("  end.")
    return "\n".join(o)


def gen(T):
    r = T["rows"]
    o = ["(* GENERATED by translate/sampletable2coq.py from dasp_sample/src/lib.rs (impl_sample!) -- do not edit.",
         "   Regenerated on every run of the C03 check; committed so that a fresh checkout builds. *)",
         "",
         "Require Import Floats.SpecFloat.",
         "Require Import ZArith Bool.",
         "From Flocq Require Import Core BinarySingleNaN.",
         "From Dasp Require Import Base.Float Sample.ConvSpec Sample.SampleFmt.",
         "From DaspGen Require Import FormatTable.",
         "Open Scope Z_scope.",
         "",
         "(* `Signed:` column of the integer rows *)",
         table("src_signed_fmt", "fmt", lambda f: CTOR[r[f]["signed"]]),
         "(* `Float:` column of the integer rows: true = f64, false = f32 *)",
         table("src_float64", "bool", lambda f: "true" if r[f]["f64"] else "false"),
         "",
         "(* all 14 rows; the f32 / f64 rows name themselves in both columns *)",
         "Definition signed_of (f : sfmt) : sfmt :=",
         "  match f with SInt fi => SInt (src_signed_fmt fi) | SF32 => SF32 | SF64 => SF64 end.",
         "Definition float_of (f : sfmt) : sfmt :=",
         "  match f with SInt fi => if src_float64 fi then SF64 else SF32 | SF32 => SF32 | SF64 => SF64 end.",
         "",
         "(* `EQUILIBRIUM:` column (integer rows: FormatTable.src_equilibrium, read from the same table;",
         "   float rows: the exact bit pattern of the literal) *)",
         "Definition equilibrium_of (f : sfmt) : sty f :=",
         "  match f with",
         "  | SInt fi => src_equilibrium fi",
         f"  | SF32 => F32.of_bits {T['eq32']}",
         f"  | SF64 => F64.of_bits {T['eq64']}",
         "  end.",
         "",
         "(* FloatSample::IDENTITY = 1.0 of the two float formats *)",
         f"Definition identity32 : F32.t := F32.of_bits {T['one32']}.",
         f"Definition identity64 : F64.t := F64.of_bits {T['one64']}.",
         ""]
    return "\n".join(o)


def generate(outdir=GEN, repo=None):
    T = read(repo)
    changed = C.write_if_changed(os.path.join(outdir, "SampleTable.v"), gen(T))
    return T, changed


def main():
    try:
        T, changed = generate()
    except TranslateError as e:
        print("TRANSLATE-ERROR:", e)
        return 2
    print(f"sampletable2coq: {len(T['rows'])} integer rows + f32 + f64, rewritten: {changed}")
    return 0


if __name__ == "__main__":
    sys.exit(main())
