#!/usr/bin/env python3
"""ring2coq.py — strict translator from dasp_ring_buffer/src/lib.rs (current working tree) to
coq/gen/RingGen.v: shallow Gallina in the `res` monad (Base/Res.v) over the `bounded` / `fixed`
records of the hand model (Ring/Bounded.v, Ring/Fixed.v), one definition per Rust method of
`Fixed`, `Bounded` and `DrainBounded`, sub-expressions bound in Rust's order of evaluation.
The vocabulary of the output is Ring/RingPrim.v.

Everything outside the grammar below is a TranslateError (never silently skipped):

  file   ::= item*
  item   ::= `use ..;` | `extern crate alloc;` | the two `type Vec/Box` aliases
           | the traits Slice, SliceMut, FixedSizeArray                  (token text pinned)
           | `impl .. Slice/SliceMut/FixedSizeArray for ..`              (every `slice`/`slice_mut` body must be
                                                                          the identity view `self` | `&self[..]` | `&mut self[..]`)
           | the structs Fixed{first,data}, Bounded{start,len,data}, DrainBounded{bounded}   (fields pinned)
           | `impl .. [Trait for] Fixed<S> | Bounded<S> | DrainBounded<'a,S> { fn* }`
             Trait in From, FromIterator, Index, IndexMut, Extend, Iterator, ExactSizeIterator;
             the SET of methods is pinned (a new or missing method has no counterpart in the hand model)
  attrs  ::= #[inline] on fns, #[derive(..)] on structs, #[cfg(..std..)]/#[allow(dead_code)] on the aliases
  fn     ::= [pub] [unsafe] fn name [<G>] ( [&self | &mut self | self] , x: T ... ) [-> T] [where ..] block
  T      ::= usize | bool | S | Self | S::Element | T | Self::Output | Self::Item | &T | &mut T | &[T] | &mut [T]
           | Option<T> | (T, ..) | I (a fn generic bounded by IntoIterator) | DrainBounded<S>
           | Chain<X,X> | slice::Iter<T> | slice::IterMut<T> | Cycle<X> | Skip<X> | Take<X>
  block  ::= { stmt* [expr] }
  stmt   ::= let [mut] pat = expr ;   (pat: x | (x, y, ..) | Struct { f, .. })
           | lhs = expr ; | lhs += expr ; | lhs -= expr ;   (lhs: a `let mut` local, self.f, self.bounded.f)
           | if cond block [else block]       (no `return` in it, or: no else and the block always returns)
           | for x in expr block              (body may only update self)
           | return expr ; | assert!(expr) ; | unsafe block | expr ;
  expr   ::= int | true | false | x | self | expr.f | expr.m(args) | Path::f(args) | Some(e) | None | (e, ..) | Struct { f [: e], .. }
           | e + e | e - e | e * e | e / e | e % e | e == e | e != e | e < e | e <= e | e > e | e >= e
           | e && e | e || e | !e           (operands of && || must be panic-free)
           | &e | &mut e | e[i] | e[..n] | e as &_ | e as &mut _ | if cond block else block | unsafe block
           | mem::replace(place, e) | ptr::write(place, e) | ptr::read(place) | core::cmp::min/max(e, e)
  methods of the representation (see Ring/RingPrim.v): slice slice_mut len split_at split_at_mut
     get_unchecked get_unchecked_mut iter iter_mut chain cycle skip take expect, S::from_iter
"""
import os, re, sys

HERE = os.path.dirname(os.path.abspath(__file__))
VERIF = os.path.dirname(HERE)
DEFAULT_SRC = os.path.join(os.environ.get("DASP_REPO", "/repo"), "dasp_ring_buffer", "src", "lib.rs")
OUT = os.path.join(VERIF, "coq", "gen", "RingGen.v")
OUT_CK = os.path.join(VERIF, "coq", "gen", "RingGenCk.v")


class TranslateError(Exception):
    pass


def err(line, msg):
    raise TranslateError(f"lib.rs:{line}: {msg}")


# ---------------------------------------------------------------------------------------------
# lexer

TOKEN_RE = re.compile(r"""
   (?P<ws>\s+) | (?P<lc>//[^\n]*) | (?P<bc>/\*.*?\*/)
 | (?P<str>"(?:[^"\\]|\\.)*")
 | (?P<life>'[A-Za-z_]\w*(?!'))
 | (?P<int>\d[\d_]*(?:usize)?(?!\w)(?!\.\d))
 | (?P<id>[A-Za-z_]\w*)
 | (?P<op>::|->|=>|==|!=|<=|>=|\+=|-=|\*=|/=|%=|&&|\|\||\.\.=|\.\.|[-+*/%=<>!&|.,;:\#\[\]{}()?])
""", re.X | re.S)


class Tok:
    __slots__ = ("k", "t", "line", "pos")

    def __init__(self, k, t, line, pos=-1):
        self.k, self.t, self.line, self.pos = k, t, line, pos

    def __repr__(self):
        return f"{self.t!r}@{self.line}"


def lex(src):
    toks, i, line = [], 0, 1
    while i < len(src):
        m = TOKEN_RE.match(src, i)
        if not m:
            err(line, f"unrecognised character {src[i]!r}")
        k = m.lastgroup
        if k not in ("ws", "lc", "bc"):
            toks.append(Tok(k, m.group(0), line, i))
        line += m.group(0).count("\n")
        i = m.end()
    toks.append(Tok("eof", "<eof>", line))
    return toks


def text_of(toks):
    """canonical text of a token run (used for pinned items and for comments in the output)"""
    out = ""
    for t in toks:
        s = t.t
        if out and (out[-1].isalnum() or out[-1] in "_'\"") and (s[0].isalnum() or s[0] in "_'\""):
            out += " "
        out += s
    return out


# ---------------------------------------------------------------------------------------------
# kinds (the Coq representation of a Rust type)

NAT, BOOL, ELEM, LIST, STORE, REGION, PLACE, STREAM, UNIT = (("nat",), ("bool",), ("elem",), ("list",), ("store",),
                                                             ("region",), ("place",), ("stream",), ("unit",))


def OPT(k):
    return ("opt", k)


def ITER(k):
    return ("iter", k)


def TUP(ks):
    return ("tuple", tuple(ks))


def REC(n):
    return ("rec", n)


RECORD_COQ = {"Fixed": "fixed A", "Bounded": "bounded A", "DrainBounded": "bounded A"}


def paren(t):
    return t if " " not in t or (t.startswith("(") and t.endswith(")")) else f"({t})"


def coq_type(k):
    h = k[0]
    if h == "nat":
        return "nat"
    if h == "bool":
        return "bool"
    if h == "elem":
        return "A"
    if h in ("list", "store"):
        return "list A"
    if h == "region":
        return "region"
    if h == "place":
        return "place"
    if h == "stream":
        return "@stream A"
    if h == "unit":
        return "unit"
    if h == "opt":
        if k[1] is None:
            raise TranslateError("internal: undetermined Option type")
        return f"option {paren(coq_type(k[1]))}"
    if h == "iter":
        return f"list {paren(coq_type(k[1]))}"
    if h == "tuple":
        return "(" + " * ".join(paren(coq_type(x)) for x in k[1]) + ")"
    if h == "rec":
        return RECORD_COQ[k[1]]
    raise TranslateError(f"internal: kind {k}")


def kinds_agree(a, b):
    """structural equality; `Option<_>` of an undetermined payload (None) agrees with any Option; a storage
    value and an immutable slice are both lists"""
    if a is None or b is None:
        return True
    if a[0] in ("list", "store") and b[0] in ("list", "store"):
        return True
    if a[0] != b[0]:
        return False
    if a[0] == "opt":
        return kinds_agree(a[1], b[1])
    if a[0] == "iter":
        return kinds_agree(a[1], b[1])
    if a[0] == "tuple":
        return len(a[1]) == len(b[1]) and all(kinds_agree(x, y) for x, y in zip(a[1], b[1]))
    return a == b


def kind_join(a, b):
    if a is None:
        return b
    if b is None:
        return a
    if a[0] == "opt" and b[0] == "opt":
        return OPT(kind_join(a[1], b[1]))
    if a[0] == "tuple" and b[0] == "tuple":
        return TUP([kind_join(x, y) for x, y in zip(a[1], b[1])])
    return a


# ---------------------------------------------------------------------------------------------
# the model's structs (pinned) and the methods every impl must have (pinned as a set)

STRUCTS = {
    "Fixed": dict(fields=[("first", "usize"), ("data", "S")], coq={"first": ("first", NAT, "with_first"),
                                                                     "data": ("fdata", STORE, "with_fdata")},
                  literal="{{| first := {first}; fdata := {data} |}}"),
    "Bounded": dict(fields=[("start", "usize"), ("len", "usize"), ("data", "S")],
                    coq={"start": ("start", NAT, "with_start"), "len": ("len", NAT, "with_len"),
                         "data": ("data", STORE, "with_data")},
                    literal="{{| start := {start}; len := {len}; data := {data} |}}"),
    # a DrainBounded is the buffer it borrows
    "DrainBounded": dict(fields=[("bounded", "&'a mut Bounded<S>")], coq={}, literal="{bounded}"),
}

EXPECTED_METHODS = {
    ("Fixed", None): ["len", "push", "get", "get_mut", "set_first", "slices", "slices_mut", "iter_loop", "iter",
                      "iter_mut", "from_raw_parts", "from_raw_parts_unchecked", "into_raw_parts"],
    ("Fixed", "From"): ["from"], ("Fixed", "FromIterator"): ["from_iter"], ("Fixed", "Index"): ["index"],
    ("Fixed", "IndexMut"): ["index_mut"], ("Fixed", "Extend"): ["extend"],
    ("Bounded", None): ["from_full", "max_len", "len", "is_empty", "is_full", "slices", "slices_mut", "iter",
                        "iter_mut", "get", "get_mut", "push", "pop", "drain", "from_raw_parts",
                        "from_raw_parts_unchecked", "into_raw_parts"],
    ("Bounded", "From"): ["from"], ("Bounded", "FromIterator"): ["from_iter"], ("Bounded", "Index"): ["index"],
    ("Bounded", "IndexMut"): ["index_mut"], ("Bounded", "Extend"): ["extend"],
    ("DrainBounded", "Iterator"): ["next", "size_hint"], ("DrainBounded", "ExactSizeIterator"): ["len"],
}

PINNED_TRAITS = {
    "Slice": "pub trait Slice{type Element;fn slice(&self)->&[Self::Element];}",
    "SliceMut": "pub trait SliceMut:Slice{fn slice_mut(&mut self)->&mut[Self::Element];}",
    "FixedSizeArray": "pub trait FixedSizeArray{const LEN:usize;}",
}
PINNED_ALIASES = {
    "type Vec<T>=alloc::vec::Vec<T>;", "type Vec<T>=std::vec::Vec<T>;",
    "type Box<T>=alloc::boxed::Box<T>;", "type Box<T>=std::boxed::Box<T>;",
}
IDENTITY_VIEWS = {"slice": {"self", "&self[..]"}, "slice_mut": {"self", "&mut self[..]"}}
ASSOC_TYPES_OK = {"type Element=T;", "type Output=S::Element;", "type Item=S::Element;"}
COQ_KEYWORDS_AVOIDED = "every Rust local x becomes v_x (so `end`, `start`, `len`, `data` cannot clash)"


# ---------------------------------------------------------------------------------------------
# parser

class Parser:
    def __init__(self, toks):
        self.toks, self.i = toks, 0

    def peek(self, d=0):
        return self.toks[min(self.i + d, len(self.toks) - 1)]

    def at(self, *texts):
        return self.peek().t in texts and self.peek().k != "str"

    def next(self):
        t = self.toks[self.i]
        if t.k != "eof":
            self.i += 1
        return t

    def eat(self, text):
        if self.at(text):
            return self.next()
        return None

    def expect(self, text):
        t = self.peek()
        if not self.at(text):
            err(t.line, f"expected {text!r}, found {t.t!r}")
        return self.next()

    def ident(self):
        t = self.peek()
        if t.k != "id":
            err(t.line, f"expected an identifier, found {t.t!r}")
        return self.next().t

    # ---- token-run helpers -------------------------------------------------
    def balanced(self, open_, close):
        """consume a balanced run starting at `open_`; returns the tokens including the delimiters"""
        start = self.i
        self.expect(open_)
        depth = 1
        while depth:
            t = self.next()
            if t.k == "eof":
                err(self.toks[start].line, f"unbalanced {open_!r}")
            if t.k == "str":
                continue
            if t.t == open_:
                depth += 1
            elif t.t == close:
                depth -= 1
        return self.toks[start:self.i]

    def angle_run(self):
        """`<` ... matching `>` (no `->` can occur inside the runs this is used on: checked)"""
        start = self.i
        self.expect("<")
        depth = 1
        while depth:
            t = self.next()
            if t.k == "eof" or t.t in ("{", "}", ";", "->"):
                err(self.toks[start].line, "unbalanced '<' in generics")
            if t.t == "<":
                depth += 1
            elif t.t == ">":
                depth -= 1
        return self.toks[start:self.i]

    def attrs(self):
        out = []
        while self.at("#"):
            start = self.i
            self.next()
            inner = bool(self.eat("!"))
            self.balanced("[", "]")
            out.append((text_of(self.toks[start:self.i]), inner, self.toks[start].line))
        return out

    # ---- types --------------------------------------------------------------
    def type_(self):
        t = self.peek()
        if self.eat("&"):
            if self.peek().k == "life":
                self.next()
            mut = bool(self.eat("mut"))
            return ("ref", mut, self.type_())
        if self.eat("["):
            inner = self.type_()
            if self.eat(";"):
                n = self.ident()
                self.expect("]")
                return ("array", inner, n)
            self.expect("]")
            return ("slice", inner)
        if self.eat("("):
            parts = []
            while not self.at(")"):
                parts.append(self.type_())
                if not self.eat(","):
                    break
            self.expect(")")
            return ("tuple", parts)
        if self.at("_"):
            self.next()
            return ("infer",)
        if t.k == "id":
            segs, args = [], []
            while True:
                segs.append(self.ident())
                if self.at("<"):
                    self.next()
                    while not self.at(">"):
                        if self.peek().k == "life":
                            self.next()
                        elif self.peek().k == "id" and self.peek(1).t == "=":
                            n = self.ident()
                            self.next()
                            args.append(("assoc", n, self.type_()))
                        else:
                            args.append(self.type_())
                        if not self.eat(","):
                            break
                    self.expect(">")
                if not self.eat("::"):
                    break
            return ("path", tuple(segs), args)
        err(t.line, f"unsupported type syntax at {t.t!r}")

    # ---- expressions ----------------------------------------------------------
    def expr(self, nostruct=False):
        line = self.peek().line
        lhs = self.or_(nostruct)
        for op in ("=", "+=", "-="):
            if self.at(op):
                self.next()
                return ("assign", line, op, lhs, self.expr(nostruct))
        if self.peek().t in ("*=", "/=", "%="):
            err(line, f"unsupported assignment operator {self.peek().t!r}")
        return lhs

    def or_(self, ns):
        e = self.and_(ns)
        while self.at("||"):
            line = self.next().line
            e = ("bin", line, "||", e, self.and_(ns))
        return e

    def and_(self, ns):
        e = self.cmp(ns)
        while self.at("&&"):
            line = self.next().line
            e = ("bin", line, "&&", e, self.cmp(ns))
        return e

    def cmp(self, ns):
        e = self.add(ns)
        if self.peek().t in ("==", "!=", "<", ">", "<=", ">=") and self.peek().k == "op":
            t = self.next()
            e = ("bin", t.line, t.t, e, self.add(ns))
            if self.peek().t in ("==", "!=", "<", ">", "<=", ">=") and self.peek().k == "op":
                err(t.line, "chained comparison")
        return e

    def add(self, ns):
        e = self.mul(ns)
        while self.peek().k == "op" and self.peek().t in ("+", "-"):
            t = self.next()
            e = ("bin", t.line, t.t, e, self.mul(ns))
        return e

    def mul(self, ns):
        e = self.cast(ns)
        while self.peek().k == "op" and self.peek().t in ("*", "/", "%"):
            t = self.next()
            e = ("bin", t.line, t.t, e, self.cast(ns))
        return e

    def cast(self, ns):
        e = self.unary(ns)
        while self.at("as"):
            line = self.next().line
            e = ("cast", line, e, self.type_())
        return e

    def unary(self, ns):
        t = self.peek()
        if t.k == "op" and t.t == "&":
            self.next()
            if self.eat("mut"):
                return ("addrmut", t.line, self.unary(ns))
            return ("addr", t.line, self.unary(ns))
        if t.k == "op" and t.t == "!":
            self.next()
            return ("not", t.line, self.unary(ns))
        if t.k == "op" and t.t in ("*", "-", "&&"):
            err(t.line, f"unsupported unary operator {t.t!r}")
        return self.postfix(ns)

    def args(self):
        self.expect("(")
        out = []
        while not self.at(")"):
            out.append(self.expr())
            if not self.eat(","):
                break
        self.expect(")")
        return out

    def postfix(self, ns):
        e = self.primary(ns)
        while True:
            t = self.peek()
            if self.at("."):
                self.next()
                if self.peek().k == "int":
                    err(t.line, "tuple field access is not supported")
                name = self.ident()
                if self.at("::"):
                    err(t.line, "turbofish is not supported")
                if self.at("("):
                    e = ("mcall", t.line, e, name, self.args())
                else:
                    e = ("field", t.line, e, name)
            elif self.at("["):
                self.next()
                if self.eat(".."):
                    if self.at("]"):
                        self.next()
                        e = ("rangefull", t.line, e)
                    else:
                        hi = self.expr()
                        self.expect("]")
                        e = ("rangeto", t.line, e, hi)
                else:
                    idx = self.expr()
                    if self.at("..") or self.at("..="):
                        err(t.line, "only `[..n]` ranges are supported")
                    self.expect("]")
                    e = ("index", t.line, e, idx)
            elif self.at("?"):
                err(t.line, "`?` is not supported")
            else:
                return e

    def primary(self, ns):
        t = self.peek()
        if t.k == "int":
            self.next()
            return ("int", t.line, int(t.t.replace("_", "").replace("usize", "")))
        if t.k == "str":
            self.next()
            return ("str", t.line, t.t)
        if self.at("("):
            self.next()
            if self.at(")"):
                self.next()
                return ("tuple", t.line, [])
            first = self.expr()
            if self.at(","):
                parts = [first]
                while self.eat(","):
                    if self.at(")"):
                        break
                    parts.append(self.expr())
                self.expect(")")
                return ("tuple", t.line, parts)
            self.expect(")")
            return first
        if self.at("if"):
            return self.if_()
        if self.at("unsafe"):
            self.next()
            return ("unsafe", t.line, self.block())
        if self.at("{"):
            err(t.line, "bare block expressions are not supported")
        if t.k == "id":
            if t.t in ("match", "while", "loop", "move", "break", "continue", "let", "fn", "struct", "impl", "return",
                       "for", "else", "mut", "ref", "dyn", "async", "await", "static", "const"):
                err(t.line, f"`{t.t}` is not supported here")
            segs = [self.ident()]
            while self.at("::"):
                self.next()
                if self.at("<"):
                    err(t.line, "turbofish is not supported")
                segs.append(self.ident())
            if self.at("!"):
                self.next()
                if not self.at("("):
                    err(t.line, "macro invocation with other delimiters than ( )")
                return ("macro", t.line, "::".join(segs), self.args())
            if self.at("("):
                return ("call", t.line, tuple(segs), self.args())
            if self.at("{") and not ns and len(segs) == 1 and segs[0][:1].isupper():
                self.next()
                fields = []
                while not self.at("}"):
                    fl = self.peek().line
                    fn = self.ident()
                    if self.eat(":"):
                        fields.append((fn, self.expr()))
                    else:
                        fields.append((fn, ("path", fl, (fn,))))
                    if self.at(".."):
                        err(fl, "struct update syntax is not supported")
                    if not self.eat(","):
                        break
                self.expect("}")
                return ("struct", t.line, segs[0], fields)
            return ("path", t.line, tuple(segs))
        err(t.line, f"unsupported expression syntax at {t.t!r}")

    def if_(self):
        line = self.expect("if").line
        if self.at("let"):
            err(line, "`if let` is not supported")
        c = self.expr(nostruct=True)
        then = self.block()
        els = None
        if self.eat("else"):
            if self.at("if"):
                inner = self.if_()
                els = ("block", inner[1], [], inner)
            else:
                els = self.block()
        return ("if", line, c, then, els)

    # ---- statements -----------------------------------------------------------
    def pattern(self):
        t = self.peek()
        if self.eat("("):
            names = []
            while not self.at(")"):
                if self.at("_"):
                    self.next()
                    names.append(None)
                else:
                    if self.at("mut") or self.at("ref"):
                        err(t.line, "binding modes in patterns are not supported")
                    names.append(self.ident())
                if not self.eat(","):
                    break
            self.expect(")")
            return ("ptuple", t.line, names)
        if self.at("_"):
            self.next()
            return ("pwild", t.line)
        name = self.ident()
        if self.at("{"):
            self.next()
            fields = []
            while not self.at("}"):
                fields.append(self.ident())
                if self.at(":") or self.at(".."):
                    err(t.line, "only shorthand struct patterns `S { a, b }` are supported")
                if not self.eat(","):
                    break
            self.expect("}")
            return ("pstruct", t.line, name, fields)
        if self.at("(") or self.at("::"):
            err(t.line, "enum / tuple-struct patterns are not supported")
        return ("pvar", t.line, name)

    def block(self):
        line = self.expect("{").line
        stmts, tail = [], None
        while not self.at("}"):
            t = self.peek()
            if tail is not None:
                err(t.line, "expression without `;` in the middle of a block")
            if t.k == "eof":
                err(line, "unterminated block")
            if self.at(";"):
                self.next()
                continue
            if self.at("#"):
                err(t.line, "attributes on statements are not supported")
            if self.at("let"):
                self.next()
                mut = bool(self.eat("mut"))
                pat = self.pattern()
                if mut and pat[0] != "pvar":
                    err(t.line, "`let mut` with a destructuring pattern is not supported")
                if self.eat(":"):
                    self.type_()  # the annotation is re-derived by the translator; a mismatch surfaces in Coq
                if not self.eat("="):
                    err(t.line, "`let` without initialiser is not supported")
                rhs = self.expr()
                if self.at("else"):
                    err(t.line, "let-else is not supported")
                self.expect(";")
                stmts.append(("let", t.line, mut, pat, rhs))
            elif self.at("return"):
                self.next()
                e = None if self.at(";") or self.at("}") else self.expr()
                self.eat(";")
                stmts.append(("return", t.line, e))
            elif self.at("for"):
                self.next()
                pat = self.pattern()
                if pat[0] != "pvar":
                    err(t.line, "only `for x in ..` is supported")
                self.expect("in")
                it = self.expr(nostruct=True)
                body = self.block()
                stmts.append(("for", t.line, pat[2], it, body))
            elif self.at("if") or self.at("unsafe"):
                e = self.if_() if self.at("if") else self.primary(False)
                if self.at("}"):
                    tail = e
                elif self.at(".") or self.at("?") or (self.peek().k == "op" and self.peek().t in ("+", "-", "*", "/", "%", "==", "as")):
                    err(t.line, "a block-like expression used as an operand must be parenthesised")
                else:
                    self.eat(";")
                    stmts.append(("expr", t.line, e))
            else:
                e = self.expr()
                if self.eat(";"):
                    stmts.append(("expr", t.line, e))
                elif self.at("}"):
                    tail = e
                else:
                    err(self.peek().line, f"expected `;` or `}}`, found {self.peek().t!r}")
        self.expect("}")
        return ("block", line, stmts, tail)

    # ---- items ------------------------------------------------------------------
    def fn(self, attrs):
        for a, inner, line in attrs:
            if a not in ("#[inline]", "#[inline(always)]"):
                err(line, f"attribute {a} on a method is outside the translator's grammar")
        start = self.i
        pub = bool(self.eat("pub"))
        if self.at("("):
            err(self.peek().line, "restricted visibility is not supported")
        unsafe = bool(self.eat("unsafe"))
        if self.at("const") or self.at("async") or self.at("extern"):
            err(self.peek().line, f"`{self.peek().t} fn` is not supported")
        line = self.expect("fn").line
        name = self.ident()
        generics = []  # [(name, bound_text)]
        if self.at("<"):
            run = self.angle_run()[1:-1]
            generics = split_generics(run, line)
        self.expect("(")
        self_mode, params = None, []
        first = True
        while not self.at(")"):
            if first and self.at("&"):
                save = self.i
                self.next()
                if self.peek().k == "life":
                    self.next()
                mut = bool(self.eat("mut"))
                if self.at("self"):
                    self.next()
                    self_mode = "mut" if mut else "ref"
                else:
                    self.i = save
            if first and self_mode is None and self.at("self"):
                self.next()
                self_mode = "value"
            elif first and self_mode is None and self.at("mut"):
                err(line, "`mut` parameters are not supported")
            if not (first and self_mode is not None):
                pn = self.ident()
                self.expect(":")
                params.append((pn, self.type_()))
            first = False
            if not self.eat(","):
                break
        self.expect(")")
        ret = None
        if self.eat("->"):
            ret = self.type_()
        where = []
        if self.eat("where"):
            wstart = self.i
            while not self.at("{"):
                if self.peek().k == "eof" or self.at(";"):
                    err(line, "fn without body")
                self.next()
            where = split_generics(self.toks[wstart:self.i], line)
        sig = text_of(self.toks[start:self.i])
        sig = re.sub(r"^(pub )?(unsafe )?fn ", "", sig)
        bstart = self.i
        body = self.block()
        return dict(name=name, line=line, pub=pub, unsafe=unsafe, generics=generics, where=where,
                    self_mode=self_mode, params=params, ret=ret, body=body, sig=sig,
                    body_toks=self.toks[bstart:self.i])


def split_generics(run, line):
    """`A, B: Bound<X = Y> + Z, 'a` -> [(name, bound text)] (split on commas at angle depth 0)"""
    out, cur, depth = [], [], 0
    for t in list(run) + [Tok("op", ",", line)]:
        if t.t == "<":
            depth += 1
        elif t.t == ">":
            depth -= 1
        if t.t == "," and depth == 0:
            if cur:
                name = text_of(cur[:1]) if cur[0].k != "life" else cur[0].t
                j = 1
                # `S::Element: Copy` style where-predicates
                while j < len(cur) and cur[j].t == "::":
                    name += "::" + cur[j + 1].t
                    j += 2
                if j < len(cur) and cur[j].t != ":":
                    err(line, f"unsupported generic parameter / where predicate {text_of(cur)!r}")
                out.append((name, text_of(cur[j + 1:])))
            cur = []
        else:
            cur.append(t)
    return out


def parse_file(src):
    p = Parser(lex(src))
    model_fns = []     # (owner, trait, fn dict)
    seen_structs, seen_traits, views = {}, set(), 0
    while p.peek().k != "eof":
        attrs = p.attrs()
        t = p.peek()
        for a, inner, line in attrs:
            if inner and a != '#![cfg_attr(not(feature="std"),no_std)]':
                err(line, f"crate attribute {a} is outside the translator's grammar")
        attrs = [x for x in attrs if not x[1]]
        if p.peek().k == "eof":
            if attrs:
                err(attrs[0][2], "attribute without item")
            break

        def only(allowed):
            for a, _, line in attrs:
                if a not in allowed and not any(a.startswith(x) for x in allowed if x.endswith("(")):
                    err(line, f"attribute {a} is not accepted on this item")

        if p.at("use"):
            only(())
            while not p.at(";"):
                if p.next().k == "eof":
                    err(t.line, "unterminated use")
            p.next()
        elif p.at("extern"):
            only(('#[cfg(not(feature="std"))]',))
            run = []
            while not p.at(";"):
                run.append(p.next())
            p.next()
            if text_of(run) != "extern crate alloc":
                err(t.line, "unknown extern item")
        elif p.at("type"):
            only(('#[cfg(not(feature="std"))]', '#[cfg(feature="std")]', "#[allow(dead_code)]"))
            run = []
            while not p.at(";"):
                run.append(p.next())
            run.append(p.next())
            if text_of(run).replace(" ", "") not in {a.replace(" ", "") for a in PINNED_ALIASES}:
                err(t.line, f"unknown type alias {text_of(run)!r}")
        elif p.at("pub") and p.peek(1).t == "trait" or p.at("trait"):
            only(())
            start = p.i
            while not p.at("{"):
                p.next()
            p.balanced("{", "}")
            txt = text_of(p.toks[start:p.i]).replace(" ", "")
            m = re.match(r"(?:pub)?trait(\w+?)(?=[:{])", txt)
            name = m.group(1) if m else "?"
            if name not in PINNED_TRAITS or txt != PINNED_TRAITS[name].replace(" ", ""):
                err(t.line, f"trait {name}: definition differs from the one the model was written for")
            seen_traits.add(name)
        elif p.at("pub") and p.peek(1).t == "struct" or p.at("struct"):
            only(("#[derive(",))
            p.eat("pub")
            p.expect("struct")
            name = p.ident()
            if name not in STRUCTS:
                err(t.line, f"unknown struct {name}")
            if p.at("<"):
                p.angle_run()
            p.expect("{")
            fields = []
            while not p.at("}"):
                if p.at("#"):
                    err(p.peek().line, "attributes on fields are not supported")
                if p.eat("pub"):
                    err(t.line, f"struct {name}: a public field would let callers break the representation invariant")
                fn = p.ident()
                p.expect(":")
                fs = p.i
                p.type_()
                fields.append((fn, text_of(p.toks[fs:p.i])))
                if not p.eat(","):
                    break
            p.expect("}")
            want = [(a, b.replace(" ", "")) for a, b in STRUCTS[name]["fields"]]
            if [(a, b.replace(" ", "")) for a, b in fields] != want:
                err(t.line, f"struct {name}: fields {fields} differ from the modelled {STRUCTS[name]['fields']}")
            seen_structs[name] = True
        elif p.at("impl") or (p.at("unsafe") and p.peek(1).t == "impl"):
            only(())
            if p.at("unsafe"):
                err(t.line, "unsafe impl is outside the grammar")
            p.next()
            if p.at("<"):
                p.angle_run()
            hs = p.i
            depth = 0
            trait_toks, self_toks = None, None
            while True:
                x = p.peek()
                if x.k == "eof" or (x.t == ";" and depth == 0):
                    err(t.line, "malformed impl header")
                if x.t in ("<", "["):
                    depth += 1
                elif x.t in (">", "]"):
                    depth -= 1
                if depth == 0 and x.t == "for" and trait_toks is None:
                    trait_toks = p.toks[hs:p.i]
                    p.next()
                    hs = p.i
                    continue
                if depth == 0 and x.t in ("where", "{"):
                    self_toks = p.toks[hs:p.i]
                    break
                p.next()
            while not p.at("{"):   # where clause: bounds only (Slice / SliceMut / Copy / FromIterator)
                x = p.next()
                if x.k == "eof" or x.t in (";", "}"):
                    err(t.line, "malformed where clause")
            trait = trait_toks[0].t if trait_toks else None
            if trait_toks and trait_toks[0].t == "!":
                err(t.line, "negative impl")
            selfhead = next((x.t for x in self_toks if x.k == "id" and x.t not in ("mut", "dyn")), None)
            owner = selfhead if selfhead in STRUCTS and self_toks[0].t == selfhead else None
            p.expect("{")
            if owner is not None:
                if (owner, trait) not in EXPECTED_METHODS:
                    err(t.line, f"impl {trait or '(inherent)'} for {owner}: no counterpart in the hand model")
                while not p.at("}"):
                    ia = p.attrs()
                    it = p.peek()
                    if p.at("type"):
                        run = []
                        while not p.at(";"):
                            run.append(p.next())
                        run.append(p.next())
                        if text_of(run).replace(" ", "") not in {a.replace(" ", "") for a in ASSOC_TYPES_OK}:
                            err(it.line, f"unexpected associated type {text_of(run)!r}")
                        if ia:
                            err(it.line, "attribute on an associated type")
                    elif p.at("fn") or p.at("pub") or p.at("unsafe"):
                        model_fns.append((owner, trait, p.fn(ia)))
                    else:
                        err(it.line, f"unsupported impl item at {it.t!r}")
                p.expect("}")
            elif trait in ("Slice", "SliceMut", "FixedSizeArray"):
                while not p.at("}"):
                    ia = p.attrs()
                    for a, _, line in ia:
                        if a not in ("#[inline]", "#[inline(always)]"):
                            err(line, f"attribute {a} in a storage impl")
                    it = p.peek()
                    if p.at("type"):
                        run = []
                        while not p.at(";"):
                            run.append(p.next())
                        run.append(p.next())
                        if text_of(run).replace(" ", "") != "typeElement=T;":
                            err(it.line, f"unexpected associated type {text_of(run)!r}")
                    elif p.at("const"):
                        run = []
                        while not p.at(";"):
                            run.append(p.next())
                        run.append(p.next())
                        if trait != "FixedSizeArray" or text_of(run).replace(" ", "") != "constLEN:usize=N;":
                            err(it.line, f"unexpected associated const {text_of(run)!r}")
                    elif p.at("fn"):
                        p.next()
                        name = p.ident()
                        if (trait, name) not in (("Slice", "slice"), ("SliceMut", "slice_mut")):
                            err(it.line, f"unexpected method {name} in impl {trait}")
                        while not p.at("{"):
                            if p.next().k == "eof":
                                err(it.line, "fn without body")
                        body = p.balanced("{", "}")[1:-1]
                        if text_of(body).replace(" ", "") not in {v.replace(" ", "") for v in IDENTITY_VIEWS[name]}:
                            err(it.line, f"`{name}` of a storage type is not the identity view "
                                         f"({text_of(body)!r}): self.data.slice() could no longer be modelled as the list itself")
                        views += 1
                    else:
                        err(it.line, f"unsupported impl item at {it.t!r}")
                p.expect("}")
            else:
                err(t.line, f"impl {trait or ''} for {text_of(self_toks)!r}: outside the modelled items")
        else:
            err(t.line, f"unsupported item at {t.t!r}")
    for n in STRUCTS:
        if n not in seen_structs:
            raise TranslateError(f"struct {n} not found")
    for n in PINNED_TRAITS:
        if n not in seen_traits:
            raise TranslateError(f"trait {n} not found")
    if views == 0:
        raise TranslateError("no Slice impl found")
    got = {}
    for owner, trait, f in model_fns:
        got.setdefault((owner, trait), []).append(f["name"])
    for key, want in EXPECTED_METHODS.items():
        have = got.get(key, [])
        extra = [m for m in have if m not in want]
        missing = [m for m in want if m not in have]
        dup = [m for m in have if have.count(m) > 1]
        where = f"impl {key[1] or '(inherent)'} for {key[0]}"
        if extra:
            raise TranslateError(f"{where}: method(s) {extra} have no counterpart in the hand model "
                                 f"(an overridden iterator method changes what the public API does)")
        if missing:
            raise TranslateError(f"{where}: method(s) {missing} the hand model describes are gone")
        if dup:
            raise TranslateError(f"{where}: duplicate method(s) {sorted(set(dup))}")
    return model_fns


# ---------------------------------------------------------------------------------------------
# translation

def coq_name(owner, name, checked=False):
    return f"{owner}_{name}" + ("_ck" if checked else "")


class Term:
    """ret e | let pat e body | bind pat comp body | if c t1 t2 | call text   (comp: Term)"""


def Ret(e):
    return ("ret", e)


def Call(text):
    return ("call", text)


def as_pure(t):
    if t[0] == "ret":
        return t[1]
    if t[0] == "let":
        b = as_pure(t[3])
        return None if b is None else f"(let {letpat(t[1])} := {t[2]} in {b})"
    if t[0] == "if":
        a, b = as_pure(t[2]), as_pure(t[3])
        return None if a is None or b is None else f"(if {t[1]} then {a} else {b})"
    return None


def letpat(p):
    return "'" + p if p.startswith("(") else p


def mk_bind(pat, comp, body):
    if body == ("ret", pat):
        return comp
    pure = as_pure(comp)
    if pure is not None:
        return ("let", pat, pure, body)
    return ("bind", pat, comp, body)


def occurs(name, t):
    return re.search(r"(?<![\w'])" + re.escape(name) + r"(?![\w'])", emit(t, "")) is not None


def simplify(t):
    """`let* t := c in let x := t in k`  ->  `let* x := c in k`   (t a translator temporary not used in k)"""
    k = t[0]
    if k in ("ret", "call"):
        return t
    if k == "if":
        return ("if", t[1], simplify(t[2]), simplify(t[3]))
    if k == "let":
        return ("let", t[1], t[2], simplify(t[3]))
    if k == "bind":
        comp, body = simplify(t[2]), simplify(t[3])
        if re.match(r"^t\d+$", t[1]) and body[0] == "let" and body[2] == t[1] and not occurs(t[1], body[3]):
            return mk_bind(body[1], comp, body[3])
        return mk_bind(t[1], comp, body)
    raise TranslateError(f"internal: term {k}")


def emit(t, ind):
    k = t[0]
    if k == "ret":
        return f"{ind}Ok {t[1]}"
    if k == "call":
        return f"{ind}{t[1]}"
    if k == "let":
        return f"{ind}let {letpat(t[1])} := {t[2]} in\n" + emit(t[3], ind)
    if k == "bind":
        if t[2][0] == "call":
            return f"{ind}let* {t[1]} := {t[2][1]} in\n" + emit(t[3], ind)
        return f"{ind}let* {t[1]} :=\n{ind}  (\n" + emit(t[2], ind + "    ") + f"\n{ind}  ) in\n" + emit(t[3], ind)
    if k == "if":
        return f"{ind}if {t[1]} then\n" + emit(t[2], ind + "  ") + f"\n{ind}else\n" + emit(t[3], ind + "  ")
    raise TranslateError(f"internal: term {k}")


class FnTranslator:
    def __init__(self, owner, trait, f, table, checked=False):
        """checked: the 64-bit reading -- `+`, `*`, `+=` on usize become `uadd M` / `umul M` (overflow panic at the
        modulus M, a section variable of the output) instead of unbounded nat arithmetic"""
        self.owner, self.trait, self.f, self.table, self.checked = owner, trait, f, table, checked
        self.ntmp = 0
        self.iter_generics = set()
        for n, b in f["generics"] + f["where"]:
            if "IntoIterator" in b:
                self.iter_generics.add(n)
        self.elem_names = {"S::Element", "Self::Item", "Self::Output", "T"} - self.iter_generics
        self.self_rec = owner
        self.self_mode = f["self_mode"]
        self.mut_locals = set()
        self.calls = []

    # ---- types -> kinds ----
    def kind(self, ty, line):
        h = ty[0]
        if h == "ref":
            mut, inner = ty[1], ty[2]
            if inner[0] == "slice":
                if self.kind(inner[1], line) != ELEM:
                    err(line, "slice of a non-element type")
                return REGION if mut else LIST
            if inner[0] == "infer":
                return None
            ik = self.kind(inner, line)
            if ik == ELEM:
                return PLACE if mut else ELEM
            if ik[0] == "rec" and not mut:
                return ik
            err(line, f"unsupported reference type &{'mut ' if mut else ''}{ty_text(inner)}")
        if h == "tuple":
            if not ty[1]:
                return UNIT
            return TUP([self.kind(x, line) for x in ty[1]])
        if h == "path":
            segs, args = ty[1], ty[2]
            name = "::".join(segs)
            if name in self.iter_generics and not args:
                return ITER(ELEM)
            if name in self.elem_names and not args:
                return ELEM
            if name == "usize" and not args:
                return NAT
            if name == "bool" and not args:
                return BOOL
            if name == "S" and not args:
                return STORE
            if name == "Self" and not args:
                return REC(self.owner)
            if name == "Option" and len(args) == 1:
                return OPT(self.kind(args[0], line))
            if name in STRUCTS and len(args) <= 1:
                return REC(name)
            ks = [self.kind(a, line) for a in args if a[0] != "assoc"]
            if name == "Chain" and len(ks) == 2 and ks[0] == ks[1] and ks[0][0] == "iter":
                return ks[0]
            if name == "slice::Iter" and ks == [ELEM]:
                return ITER(ELEM)
            if name == "slice::IterMut" and ks == [ELEM]:
                return ITER(PLACE)
            if name == "Cycle" and ks == [ITER(ELEM)]:
                return STREAM
            if name == "Skip" and ks == [STREAM]:
                return STREAM
            if name == "Take" and ks == [STREAM]:
                return ITER(ELEM)
        err(line, f"unsupported type {ty_text(ty)}")

    def tmp(self):
        self.ntmp += 1
        return f"t{self.ntmp}"

    # ---- function ----
    def translate(self):
        f = self.f
        env = {}
        params = []
        if self.self_mode is not None:
            params.append(("s", coq_type(REC(self.owner))))
        for n, ty in f["params"]:
            k = self.kind(ty, f["line"])
            if k is None or k[0] in ("region", "place", "stream"):
                err(f["line"], f"parameter {n}: unsupported parameter type {ty_text(ty)}")
            env[n] = ("v_" + n, k)
            params.append(("v_" + n, coq_type(k)))
        self.ret_kind = self.kind(f["ret"], f["line"]) if f["ret"] is not None else UNIT
        if self.ret_kind is None:
            err(f["line"], "inferred return type")

        def k_fn(env, v, kind):
            if not kinds_agree(kind, self.ret_kind):
                err(f["line"], f"{self.owner}::{f['name']}: the body's value has the representation {kind}, "
                               f"the declared return type {ty_text(f['ret']) if f['ret'] else '()'} needs {self.ret_kind}")
            if self.self_mode == "mut":
                return Ret("s") if self.ret_kind == UNIT else Ret(f"(s, {v})")
            return Ret(v)

        self.k_fn = k_fn
        body = simplify(self.block(f["body"], env, k_fn))
        rt = coq_type(self.ret_kind)
        if self.self_mode == "mut":
            rty = f"({coq_type(REC(self.owner))})" if self.ret_kind == UNIT else f"({coq_type(REC(self.owner))} * {rt})"
        else:
            rty = rt if (rt.startswith("(") and rt.endswith(")")) or " " not in rt else f"({rt})"
        head = f"Definition {coq_name(self.owner, f['name'], self.checked)} " + " ".join(f"({n} : {t})" for n, t in params)
        return head + f" : res {rty} :=\n" + emit(body, "  ") + "."

    # ---- blocks and statements ----
    def block(self, blk, env, k):
        _, line, stmts, tail = blk
        return self.stmts(stmts, 0, tail, dict(env), k, line)

    def stmts(self, stmts, i, tail, env, k, line):
        if i == len(stmts):
            if tail is None:
                return k(env, "tt", UNIT)
            return self.expr(tail, env, k, tailpos=True)
        st = stmts[i]
        rest = lambda env2: self.stmts(stmts, i + 1, tail, env2, k, line)
        kind = st[0]
        if kind == "let":
            _, ln, mut, pat, rhs = st

            def after(env2, v, vk):
                env3 = dict(env2)
                if pat[0] == "pvar":
                    name = pat[2]
                    self.check_bindable(vk, ln)
                    env3[name] = ("v_" + name, vk)
                    if mut:
                        self.mut_locals.add(name)
                    else:
                        self.mut_locals.discard(name)
                    return mk_bind("v_" + name, Ret(v), rest(env3))
                if pat[0] == "pwild":
                    return rest(env3)
                if pat[0] == "ptuple":
                    if vk is None or vk[0] != "tuple" or len(vk[1]) != len(pat[2]):
                        err(ln, "tuple pattern does not match the value")
                    names = []
                    for n, kk in zip(pat[2], vk[1]):
                        if n is None:
                            names.append("_")
                        else:
                            self.check_bindable(kk, ln)
                            env3[n] = ("v_" + n, kk)
                            self.mut_locals.discard(n)
                            names.append("v_" + n)
                    return mk_bind("(" + ", ".join(names) + ")", Ret(v), rest(env3))
                if pat[0] == "pstruct":
                    sname, fields = pat[2], pat[3]
                    if vk != REC(sname) or sname == "DrainBounded":
                        err(ln, f"struct pattern {sname} does not match the value")
                    if sorted(fields) != sorted(STRUCTS[sname]["coq"]):
                        err(ln, f"struct pattern must name exactly the fields of {sname}")
                    t = rest_struct(env3, fields, sname, v)
                    return t
                err(ln, "unsupported pattern")

            def rest_struct(env3, fields, sname, v):
                binds = []
                for fn in fields:
                    proj, fk, _ = STRUCTS[sname]["coq"][fn]
                    env3[fn] = ("v_" + fn, fk)
                    self.mut_locals.discard(fn)
                    binds.append(("v_" + fn, f"({proj} {v})"))
                t = rest(env3)
                for n, e in reversed(binds):
                    t = ("let", n, e, t)
                return t

            return self.expr(rhs, env, after)
        if kind == "return":
            _, ln, e = st
            if i + 1 != len(stmts) or tail is not None:
                err(ln, "code after `return` in the same block")
            if e is None:
                return self.k_fn(env, "tt", UNIT)
            return self.expr(e, env, self.k_fn, tailpos=True)
        if kind == "for":
            _, ln, var, it, body = st
            if self.self_mode != "mut":
                err(ln, "`for` is only supported where the body updates `self`")
            if contains_return(body):
                err(ln, "`return` inside a `for` body is not supported")
            w = assigned(body, self)
            if w - {"s"}:
                err(ln, f"`for` body assigns the local(s) {sorted(w - {'s'})}: only updates of self are supported")

            def after_it(env2, v, vk):
                if vk is None or vk[0] != "iter":
                    err(ln, f"`for` over a value that is not a finite iterator ({vk})")
                env3 = dict(env2)
                env3[var] = ("v_" + var, vk[1])
                self.mut_locals.discard(var)
                bt = self.block(body, env3, lambda e4, v4, k4: Ret("s"))
                fun = "(fun s v_" + var + " =>\n" + emit(bt, "      ") + ")"
                return mk_bind("s", Call(f"for_each {v} {fun} s"), rest(env2))

            return self.expr(it, env, after_it)
        if kind == "expr":
            _, ln, e = st
            if e[0] == "assign":
                return self.assign(e, env, rest)
            if e[0] == "if":
                return self.if_(e, env, lambda env2, v, vk: rest(env2), want_value=False)
            if e[0] == "macro":
                return self.macro(e, env, lambda env2, v, vk: rest(env2))
            if e[0] == "unsafe":
                return self.if_block_like(e, env, lambda env2, v, vk: rest(env2))
            if e[0] in ("mcall", "call"):
                return self.expr(e, env, lambda env2, v, vk: rest(env2))
            err(ln, "expression statement without effect (only calls, assignments, if, assert!, unsafe blocks)")
        err(st[1], f"internal: statement {kind}")

    def check_bindable(self, k, line):
        if k is None:
            err(line, "cannot determine the type of this binding (e.g. a bare `None`)")

    def if_block_like(self, e, env, k):
        # `unsafe { stmts }` in statement or value position: transparent, but locals declared inside stay inside
        blk = e[2]
        if contains_return(blk):
            if not diverges(blk):
                err(e[1], "unsupported control flow: `return` on some paths of an unsafe block")
            return self.block(blk, env, k)
        if not declared_shallow(blk):
            return self.block(blk, env, lambda env2, v, vk: k(env, v, vk))
        return self.join([("true", blk)], None, env, k, e[1], single=True)

    # ---- assignments ----
    def lvalue(self, e, env):
        if e[0] == "path" and len(e[2]) == 1:
            n = e[2][0]
            if n not in env:
                err(e[1], f"assignment to unknown variable {n}")
            if n not in self.mut_locals:
                err(e[1], f"assignment to `{n}`, which is not a `let mut` local")
            return ("local", n)
        if e[0] == "field":
            base, fld = e[2], e[3]
            rec = None
            if base[0] == "path" and base[2] == ("self",):
                rec = self.owner
            elif base[0] == "field" and base[2][0] == "path" and base[2][2] == ("self",) and self.owner == "DrainBounded" \
                    and base[3] == "bounded":
                rec = "Bounded"
            if rec is None or rec == "DrainBounded" or fld not in STRUCTS[rec]["coq"]:
                err(e[1], "unsupported assignment target")
            if self.self_mode != "mut":
                err(e[1], "store to a field of self in a method that does not take `&mut self`")
            return ("self", rec, fld)
        err(e[1], "unsupported assignment target")

    def assign(self, e, env, rest):
        _, ln, op, lhs, rhs = e
        lv = self.lvalue(lhs, env)

        def after(env2, v, vk):
            if lv[0] == "local":
                cname, ck = env2[lv[1]]
                cur = cname
            else:
                proj, ck, setter = STRUCTS[lv[1]]["coq"][lv[2]]
                cur = f"({proj} s)"
            if not kinds_agree(ck, vk):
                err(ln, f"assignment of a {vk} to a {ck}")
            if op != "=" and ck != NAT:
                err(ln, f"`{op}` on a non-integer")

            def store(val):
                if lv[0] == "local":
                    return mk_bind(cname, Ret(val), rest(env2))
                if lv[2] == "data":
                    err(ln, "assignment to the storage field")
                return ("let", "s", f"({setter} s {val})", rest(env2))

            if op == "=":
                return store(v)
            if op == "+=" and not self.checked:
                return store(f"({cur} + {v})")
            t = self.tmp()
            return ("bind", t, Call(f"uadd M {cur} {v}" if op == "+=" else f"usub {cur} {v}"), store(t))

        return self.expr(rhs, env, after)

    # ---- if ----
    def if_(self, e, env, k, want_value=True, tailpos=False):
        _, ln, c, then, els = e
        ret_then, ret_else = contains_return(then), (els is not None and contains_return(els))

        def after_c(env2, cv, ck):
            if ck != BOOL:
                err(ln, "condition is not a bool")
            if ret_then and diverges(then) and els is None:
                # `if c { ..; return x; } rest`
                t1 = self.block(then, env2, lambda *a: err(ln, "internal: diverging block fell through"))
                return ("if", cv, t1, k(env2, "tt", UNIT))
            if ret_then or ret_else:
                if tailpos and els is not None:
                    return ("if", cv, self.block(then, env2, k), self.block(els, env2, k))
                err(ln, "unsupported control flow: `return` inside an if whose other path falls through "
                        "(only `if c { ..; return e; }` without else is supported)")
            if tailpos and els is not None:
                return ("if", cv, self.block(then, env2, k), self.block(els, env2, k))
            return self.join([(cv, then)], els, env2, k, ln, want_value=want_value and els is not None)

        return self.expr(c, env, after_c)

    def join(self, arms, els, env, k, ln, want_value=False, single=False):
        """phi-join: the variables assigned in the branches (and `s` when self is updated) are returned by
        each branch and rebound after the `if`"""
        blocks = [b for _, b in arms] + ([els] if els is not None else [])
        w = set()
        for b in blocks:
            w |= assigned(b, self)
        for b in blocks:
            w -= declared_shallow(b) - assigned_outer(b, self, env)
        names = sorted(n for n in w if n != "s" and n in env)
        if "s" in w:
            names = ["s"] + names
        vals = {}

        def branch(b):
            def kk(env2, v, vk):
                parts = ["s" if n == "s" else env2[n][0] for n in names]
                if want_value or single:
                    vals.setdefault("k", vk)
                    vals["k"] = kind_join(vals["k"], vk)
                    if want_value or (single and vk != UNIT):
                        parts.append(v)
                        vals["has"] = True
                return Ret(tuple_text(parts))
            return self.block(b, env, kk) if b is not None else Ret(tuple_text(["s" if n == "s" else env[n][0] for n in names]))

        if single:
            t = branch(blocks[0])
            comp = t
        else:
            t1 = branch(arms[0][1])
            t2 = branch(els)
            comp = ("if", arms[0][0], t1, t2)
        pats = ["s" if n == "s" else env[n][0] for n in names]
        vname = None
        if vals.get("has"):
            vname = self.tmp()
            pats.append(vname)
        pat = tuple_text(pats) if pats else "_"
        if not pats:
            # nothing flows out: the construct matters only for its possible panic
            if as_pure(comp) is not None:
                return k(env, "tt", UNIT)
            return ("bind", "_", comp, k(env, "tt", UNIT))
        return mk_bind(pat, comp, k(env, vname if vname else "tt", vals.get("k") if vname else UNIT))

    # ---- macros ----
    def macro(self, e, env, k):
        _, ln, name, args = e
        if name == "assert" and len(args) == 1:
            def after(env2, v, vk):
                if vk != BOOL:
                    err(ln, "assert! of a non-bool")
                return ("bind", "_", Call(f"rassert {v}"), k(env2, "tt", UNIT))
            return self.expr(args[0], env, after)
        err(ln, f"macro {name}! is outside the translator's grammar")

    # ---- expressions (continuation-passing: sub-expressions are bound in evaluation order) ----
    def exprs(self, es, env, k, acc=None):
        """operands / arguments, left to right.  A value read before a LATER operand updates self or a local
        (`self.len + self.pop_something()`) is bound first, so that it is not re-read after the update."""
        acc = acc or []
        if not es:
            return k(env, acc)

        def got(env2, v, vk):
            if any(assigned(e, self) for e in es[1:]) and not re.match(r"^(\d+|t\d+|None|true|false|tt)$", v):
                t = self.tmp()
                return ("let", t, v, self.exprs(es[1:], env2, k, acc + [(t, vk)]))
            return self.exprs(es[1:], env2, k, acc + [(v, vk)])
        return self.expr(es[0], env, got)

    def fallible(self, text, kind, env, k):
        t = self.tmp()
        return mk_bind(t, Call(text), k(env, t, kind))

    def expr(self, e, env, k, tailpos=False):
        h, ln = e[0], e[1]
        if h == "int":
            return k(env, str(e[2]), NAT)
        if h == "str":
            err(ln, "string literal outside expect(..)")
        if h == "path":
            segs = e[2]
            if segs == ("self",):
                if self.self_mode is None:
                    err(ln, "`self` in an associated function")
                return k(env, "s", REC(self.owner))
            if segs == ("None",):
                return k(env, "None", OPT(None))
            if segs in (("true",), ("false",)) and segs[0] not in env:
                return k(env, segs[0], BOOL)
            if len(segs) == 1 and segs[0] in env:
                return k(env, env[segs[0]][0], env[segs[0]][1])
            err(ln, f"unknown name {'::'.join(segs)}")
        if h == "tuple":
            if not e[2]:
                return k(env, "tt", UNIT)
            return self.exprs(e[2], env, lambda env2, vs: k(env2, tuple_text([v for v, _ in vs]), TUP([x for _, x in vs])))
        if h == "struct":
            name, fields = e[2], e[3]
            if name not in STRUCTS:
                err(ln, f"unknown struct {name}")
            want = [fn for fn, _ in STRUCTS[name]["fields"]]
            if sorted(fn for fn, _ in fields) != sorted(want):
                err(ln, f"struct literal must give exactly the fields {want}")

            def after(env2, vs):
                d = {}
                for (fn, _), (v, vk) in zip(fields, vs):
                    wk = REC("Bounded") if name == "DrainBounded" else STRUCTS[name]["coq"][fn][1]
                    if not kinds_agree(vk, wk):
                        err(ln, f"field {fn}: a {vk} where a {wk} is needed")
                    d[fn] = v
                return k(env2, STRUCTS[name]["literal"].format(**d), REC(name))
            return self.exprs([x for _, x in fields], env, after)
        if h == "field":
            base, fld = e[2], e[3]

            def after(env2, v, vk):
                if vk is None or vk[0] != "rec":
                    err(ln, f"field access .{fld} on a non-struct")
                if vk[1] == "DrainBounded":
                    if fld != "bounded":
                        err(ln, f"DrainBounded has no field {fld}")
                    return k(env2, v, REC("Bounded"))
                if fld not in STRUCTS[vk[1]]["coq"]:
                    err(ln, f"{vk[1]} has no field {fld}")
                proj, fk, _ = STRUCTS[vk[1]]["coq"][fld]
                return k(env2, f"({proj} {v})", fk)
            return self.expr(base, env, after)
        if h == "bin":
            op, a, b = e[2], e[3], e[4]
            if op in ("&&", "||"):
                def after2(env2, vs):
                    (x, xk), (y, yk) = vs
                    if xk != BOOL or yk != BOOL:
                        err(ln, f"`{op}` on non-bools")
                    return k(env2, f"({'andb' if op == '&&' else 'orb'} {x} {y})", BOOL)
                mark = self.ntmp
                t = self.exprs([a, b], env, after2)
                if self.ntmp != mark:
                    err(ln, f"an operand of `{op}` can panic: short-circuit evaluation of such operands is not supported")
                return t

            def after(env2, vs):
                (x, xk), (y, yk) = vs
                if xk != NAT or yk != NAT:
                    if op in ("==", "!=") and xk == BOOL and yk == BOOL:
                        r = f"(Bool.eqb {x} {y})"
                        return k(env2, r if op == "==" else f"(negb {r})", BOOL)
                    err(ln, f"`{op}` on operands that are not usize ({xk}, {yk})")
                if op == "+":
                    if self.checked:
                        return self.fallible(f"uadd M {x} {y}", NAT, env2, k)
                    return k(env2, f"({x} + {y})", NAT)
                if op == "*":
                    if self.checked:
                        return self.fallible(f"umul M {x} {y}", NAT, env2, k)
                    return k(env2, f"({x} * {y})", NAT)
                if op == "-":
                    return self.fallible(f"usub {x} {y}", NAT, env2, k)
                if op == "%":
                    return self.fallible(f"urem {x} {y}", NAT, env2, k)
                if op == "/":
                    return self.fallible(f"udiv {x} {y}", NAT, env2, k)
                tbl = {"==": f"({x} =? {y})", "!=": f"(negb ({x} =? {y}))", "<": f"({x} <? {y})",
                       "<=": f"({x} <=? {y})", ">": f"({y} <? {x})", ">=": f"({y} <=? {x})"}
                return k(env2, tbl[op], BOOL)
            return self.exprs([a, b], env, after)
        if h == "not":
            def after(env2, v, vk):
                if vk != BOOL:
                    err(ln, "`!` on a non-bool")
                return k(env2, f"(negb {v})", BOOL)
            return self.expr(e[2], env, after)
        if h == "cast":
            ty = e[3]
            if ty[0] == "ref" and ty[2] == ("infer",):
                want_mut = ty[1]

                def after(env2, v, vk):
                    if (vk == PLACE) != want_mut or vk not in (PLACE, ELEM):
                        err(ln, "`as &_` / `as &mut _` applied to something that is not such a reference")
                    return k(env2, v, vk)
                return self.expr(e[2], env, after)
            err(ln, f"unsupported cast `as {ty_text(ty)}`")
        if h == "addr":
            inner = e[2]
            if inner[0] not in ("index", "rangeto"):
                err(ln, "`&` is only supported on `x[i]` and `x[..n]`")
            return self.expr(inner, env, k, )
        if h == "addrmut":
            inner = e[2]
            if inner[0] not in ("index", "rangeto"):
                err(ln, "`&mut` is only supported on `x[i]` and `x[..n]`")
            return self.index(inner, env, k, mutable=True)
        if h in ("index", "rangeto"):
            return self.index(e, env, k, mutable=False)
        if h == "rangefull":
            err(ln, "`x[..]` outside a Slice impl")
        if h == "if":
            return self.if_(e, env, k, want_value=True, tailpos=tailpos)
        if h == "unsafe":
            blk = e[2]
            if tailpos:
                return self.block(blk, env, k)
            return self.if_block_like(e, env, k)
        if h == "macro":
            return self.macro(e, env, k)
        if h == "assign":
            err(ln, "assignment used as a value")
        if h == "call":
            return self.call(e, env, k)
        if h == "mcall":
            return self.mcall(e, env, k)
        err(ln, f"internal: expression {h}")

    def index(self, e, env, k, mutable):
        h, ln, base = e[0], e[1], e[2]

        def after(env2, vs):
            (b, bk), (i, ik) = vs
            if ik != NAT:
                err(ln, "index is not a usize")
            if bk in (LIST,) and not mutable:
                if h == "index":
                    return self.fallible(f"get_checked {b} {i}", ELEM, env2, k)
                return self.fallible(f"slice_to {b} {i}", LIST, env2, k)
            if bk == REGION and mutable:
                if h == "index":
                    return self.fallible(f"region_place_checked {b} {i}", PLACE, env2, k)
                return self.fallible(f"region_to {b} {i}", REGION, env2, k)
            err(ln, f"indexing a {bk} {'mutably' if mutable else 'immutably'} is not supported "
                    f"(`&x[..]` needs a `&[T]`, `&mut x[..]` a `&mut [T]`)")
        return self.exprs([base, e[3]], env, after)

    def call(self, e, env, k):
        _, ln, segs, args = e
        name = "::".join(segs)
        if name == "Some" and len(args) == 1:
            return self.expr(args[0], env, lambda env2, v, vk: k(env2, f"(Some {v})", OPT(vk)))
        if name in ("mem::replace", "core::mem::replace") and len(args) == 2:
            def after(env2, vs):
                (p, pk), (x, xk) = vs
                if pk != PLACE or xk != ELEM:
                    err(ln, "mem::replace needs (&mut element, element)")
                self.need_mut(ln)
                d = STRUCTS[self.data_rec()]["coq"]["data"]
                t1, t2 = self.tmp(), self.tmp()
                return ("bind", f"({t1}, {t2})", Call(f"replace_at ({d[0]} s) {p} {x}"),
                        ("let", "s", f"({d[2]} s {t1})", k(env2, t2, ELEM)))
            return self.exprs(args, env, after)
        if name in ("ptr::write", "core::ptr::write") and len(args) == 2:
            def after(env2, vs):
                (p, pk), (x, xk) = vs
                if pk != PLACE or xk != ELEM:
                    err(ln, "ptr::write needs (&mut element, element)")
                self.need_mut(ln)
                d = STRUCTS[self.data_rec()]["coq"]["data"]
                t1 = self.tmp()
                return ("bind", t1, Call(f"write_at ({d[0]} s) {p} {x}"),
                        ("let", "s", f"({d[2]} s {t1})", k(env2, "tt", UNIT)))
            return self.exprs(args, env, after)
        if name in ("ptr::read", "core::ptr::read") and len(args) == 1:
            def after(env2, v, vk):
                if vk != PLACE:
                    err(ln, "ptr::read needs a &mut element")
                d = STRUCTS[self.data_rec()]["coq"]["data"]
                return self.fallible(f"read_at ({d[0]} s) {v}", ELEM, env2, k)
            return self.expr(args[0], env, after)
        if name in ("core::cmp::min", "core::cmp::max", "cmp::min", "cmp::max") and len(args) == 2:
            def after(env2, vs):
                (x, xk), (y, yk) = vs
                if xk != NAT or yk != NAT:
                    err(ln, "min/max on non-usize")
                return k(env2, f"(Nat.{name[-3:]} {x} {y})", NAT)
            return self.exprs(args, env, after)
        if name == "S::from_iter" and len(args) == 1:
            def after(env2, v, vk):
                if vk != ITER(ELEM):
                    err(ln, "S::from_iter of something that is not an iterator of elements")
                return k(env2, v, STORE)
            return self.expr(args[0], env, after)
        if len(segs) == 2 and segs[0] in ("Self", self.owner) and self.owner != "DrainBounded":
            target = self.table.get((self.owner, segs[1]))
            if target is None:
                err(ln, f"unknown associated function {name}")
            if target["self_mode"] is not None:
                err(ln, f"{name}: method called as a function")
            return self.user_call(target, self.owner, None, args, env, k, ln)
        err(ln, f"call of {name}(..) is outside the translator's grammar")

    def data_rec(self):
        return "Bounded" if self.owner == "DrainBounded" else self.owner

    def need_mut(self, ln):
        if self.self_mode != "mut":
            err(ln, "store through a reference in a method that does not take `&mut self`")

    def user_call(self, target, owner, recv, args, env, k, ln):
        """recv: None (associated fn) or the Coq text of the receiver (always `s`)"""
        self.calls.append(coq_name(owner, target["name"], self.checked))
        if len(args) != len(target["params"]):
            err(ln, f"{owner}::{target['name']}: wrong number of arguments")
        tt = FnTranslator(owner, None, target, self.table)
        pk = [tt.kind(ty, ln) for _, ty in target["params"]]
        rk = tt.kind(target["ret"], ln) if target["ret"] is not None else UNIT

        def after(env2, vs):
            for (v, vk), want in zip(vs, pk):
                if not kinds_agree(vk, want):
                    err(ln, f"{owner}::{target['name']}: argument of representation {vk} where {want} is needed")
            text = coq_name(owner, target["name"], self.checked) + "".join(" " + x for x in ([recv] if recv else []) + [v for v, _ in vs])
            if target["self_mode"] == "mut":
                if recv != "s" or self.self_mode != "mut":
                    err(ln, f"{owner}::{target['name']} needs `&mut self` but the caller only has `&self`")
                if rk == UNIT:
                    return ("bind", "s", Call(text), k(env2, "tt", UNIT))
                t = self.tmp()
                return mk_bind(f"(s, {t})", Call(text), k(env2, t, rk))
            return self.fallible(text, rk, env2, k)
        return self.exprs(args, env, after)

    def mcall(self, e, env, k):
        _, ln, recv, name, args = e

        def after(env2, rv, rk):
            if rk is None:
                err(ln, f"method .{name}() on a value of undetermined type")
            h = rk[0]
            if h == "rec":
                owner = rk[1]
                if owner == "DrainBounded":
                    err(ln, "method call on a DrainBounded")
                target = self.table.get((owner, name))
                if target is None:
                    err(ln, f"unknown method {owner}::{name}")
                if target["self_mode"] is None:
                    err(ln, f"{owner}::{name} is not a method")
                if rv != "s":
                    err(ln, "method call on a buffer that is not `self`")
                return self.user_call(target, owner, rv, args, env2, k, ln)

            def with_args(kinds, fn):
                def got(env3, vs):
                    if len(vs) != len(kinds) or any(not kinds_agree(vk, want) for (_, vk), want in zip(vs, kinds)):
                        err(ln, f".{name}(..) on a {rk}: wrong arguments")
                    return fn(env3, [v for v, _ in vs])
                return self.exprs(args, env2, got)

            if h == "store" and name == "slice":
                return with_args([], lambda e3, a: k(e3, rv, LIST))
            if h == "store" and name == "slice_mut":
                self.need_mut(ln)
                d = STRUCTS[self.data_rec()]["coq"]["data"][0]
                if rv != f"({d} s)":
                    err(ln, "slice_mut() on storage that is not self.data")
                return with_args([], lambda e3, a: k(e3, f"(whole {rv})", REGION))
            if h == "list":
                if name == "len":
                    return with_args([], lambda e3, a: k(e3, f"(length {rv})", NAT))
                if name == "split_at":
                    return with_args([NAT], lambda e3, a: self.fallible(f"split_at {rv} {a[0]}", TUP([LIST, LIST]), e3, k))
                if name == "get_unchecked":
                    return with_args([NAT], lambda e3, a: self.fallible(f"get_unchecked {rv} {a[0]}", ELEM, e3, k))
                if name == "iter":
                    return with_args([], lambda e3, a: k(e3, rv, ITER(ELEM)))
            if h == "region":
                if name == "len":
                    return with_args([], lambda e3, a: k(e3, f"(region_len {rv})", NAT))
                if name == "split_at_mut":
                    return with_args([NAT], lambda e3, a: self.fallible(f"region_split_at {rv} {a[0]}", TUP([REGION, REGION]), e3, k))
                if name == "get_unchecked_mut":
                    return with_args([NAT], lambda e3, a: self.fallible(f"region_place_unchecked {rv} {a[0]}", PLACE, e3, k))
                if name == "iter_mut":
                    return with_args([], lambda e3, a: k(e3, f"(region_places {rv})", ITER(PLACE)))
            if h == "iter":
                if name == "chain":
                    return with_args([rk], lambda e3, a: k(e3, f"({rv} ++ {a[0]})", rk))
                if name == "cycle" and rk == ITER(ELEM):
                    return with_args([], lambda e3, a: k(e3, f"(st_cycle {rv})", STREAM))
            if h == "stream":
                if name == "skip":
                    return with_args([NAT], lambda e3, a: k(e3, f"(st_skip {a[0]} {rv})", STREAM))
                if name == "take":
                    return with_args([NAT], lambda e3, a: k(e3, f"(st_take {a[0]} {rv})", ITER(ELEM)))
            if h == "opt" and name == "expect":
                if len(args) != 1 or args[0][0] != "str":
                    err(ln, "expect(..) needs a string literal")
                if rk[1] is None:
                    err(ln, "expect on an undetermined Option")
                return self.fallible(f"expect {rv}", rk[1], env2, k)
            err(ln, f"method .{name}(..) on a {rk} is outside the translator's grammar")
        return self.expr(recv, env, after)


def tuple_text(parts):
    if not parts:
        return "tt"
    if len(parts) == 1:
        return parts[0]
    return "(" + ", ".join(parts) + ")"


def ty_text(ty):
    h = ty[0]
    if h == "ref":
        return "&" + ("mut " if ty[1] else "") + ty_text(ty[2])
    if h == "slice":
        return "[" + ty_text(ty[1]) + "]"
    if h == "array":
        return "[" + ty_text(ty[1]) + "; " + ty[2] + "]"
    if h == "tuple":
        return "(" + ", ".join(ty_text(x) for x in ty[1]) + ")"
    if h == "infer":
        return "_"
    if h == "assoc":
        return ty[1] + " = " + ty_text(ty[2])
    args = ty[2]
    return "::".join(ty[1]) + ("<" + ", ".join(ty_text(a) for a in args) + ">" if args else "")


# ---- syntactic analyses used for control flow ----

def walk(node, f):
    """pre-order over every tuple node of the AST"""
    if isinstance(node, tuple):
        f(node)
        for x in node:
            walk(x, f)
    elif isinstance(node, list):
        for x in node:
            walk(x, f)


def contains_return(blk):
    found = []
    walk(blk, lambda n: found.append(1) if n and n[0] == "return" and len(n) == 3 else None)
    return bool(found)


def diverges(blk):
    _, _, stmts, tail = blk
    if tail is not None:
        if tail[0] == "if" and tail[4] is not None:
            return diverges(tail[3]) and diverges(tail[4])
        if tail[0] == "unsafe":
            return diverges(tail[2])
        return False
    if not stmts:
        return False
    last = stmts[-1]
    if last[0] == "return":
        return True
    if last[0] == "expr" and last[2][0] == "if" and last[2][4] is not None:
        return diverges(last[2][3]) and diverges(last[2][4])
    if last[0] == "expr" and last[2][0] == "unsafe":
        return diverges(last[2][2])
    return False


def assigned(blk, tr):
    """names of locals assigned in the block, plus 's' when the block can update self"""
    w = set()

    def f(n):
        if not n:
            return
        if n[0] == "assign" and len(n) == 5:
            lhs = n[3]
            if lhs[0] == "path" and len(lhs[2]) == 1:
                w.add(lhs[2][0])
            else:
                w.add("s")
        elif n[0] == "call" and len(n) == 4 and isinstance(n[2], tuple) and "::".join(n[2]) in (
                "mem::replace", "core::mem::replace", "ptr::write", "core::ptr::write"):
            w.add("s")
        elif n[0] == "mcall" and len(n) == 5 and isinstance(n[3], str):
            for (owner, name), target in tr.table.items():
                if name == n[3] and target["self_mode"] == "mut":
                    w.add("s")
        elif n[0] == "for" and len(n) == 5:
            w.add("s")
    walk(blk, f)
    if tr.self_mode != "mut":
        w.discard("s")
    return w


def declared_shallow(blk):
    """names declared by `let` anywhere in the block"""
    d = set()

    def f(n):
        if n and n[0] == "let" and len(n) == 5 and isinstance(n[3], tuple):
            p = n[3]
            if p[0] == "pvar":
                d.add(p[2])
            elif p[0] == "ptuple":
                d.update(x for x in p[2] if x)
            elif p[0] == "pstruct":
                d.update(p[3])
    walk(blk, f)
    return d


def assigned_outer(blk, tr, env):
    """a name that is both declared inside and exists outside: treated as the outer one only when it is
    assigned before any inner declaration -- kept simple: shadowing an outer mutable local inside a branch
    is rejected"""
    inner = declared_shallow(blk)
    clash = {n for n in inner if n in env and n in tr.mut_locals}
    if clash:
        raise TranslateError(f"lib.rs:{blk[1]}: a branch re-declares the mutable local(s) {sorted(clash)}: not supported")
    return set()


# ---------------------------------------------------------------------------------------------
# driver

HEADER = """(* GENERATED by translate/ring2coq.py from dasp_ring_buffer/src/lib.rs -- do not edit.
   One definition per method of Fixed, Bounded and DrainBounded, in the `res` monad, sub-expressions
   bound in Rust's order of evaluation; vocabulary and representation of Rust values: Ring/RingPrim.v.
   A method taking `&mut self` returns the updated buffer first.  Rust local `x` is `v_x`, self is `s`. *)
Require Import List Arith Bool.
From Dasp Require Import Base.Res Base.ListX Ring.Bounded Ring.Fixed Ring.RingPrim.
Import ListNotations.

Section RingGen.
Context {A : Type}.
"""


HEADER_CK = """(* GENERATED by translate/ring2coq.py from dasp_ring_buffer/src/lib.rs -- do not edit.
   The 64-bit reading of the same methods as gen/RingGen.v: every `+`, `*`, `+=` on usize is [uadd M] / [umul M]
   (Ring/RingPrim.v: overflow panic when the result reaches the modulus M, as in a build with overflow checks;
   M is a section variable, read 2^64).  Ring/RingGenCkEquiv.v proves that in valid states over storage of at most
   M/2 elements no such panic exists: these definitions then equal those of gen/RingGen.v, for every index. *)
Require Import List Arith Bool.
From Dasp Require Import Base.Res Base.ListX Ring.Bounded Ring.Fixed Ring.RingPrim.
Import ListNotations.

Section RingGenCk.
Context {A : Type}.
Variable M : nat.
"""


def translate_text(src, checked=False):
    fns = parse_file(src)
    table = {}
    for owner, trait, f in fns:
        if (owner, f["name"]) in table:
            raise TranslateError(f"two methods named {owner}::{f['name']}")
        table[(owner, f["name"])] = f
    defs = []
    for idx, (owner, trait, f) in enumerate(fns):
        tr = FnTranslator(owner, trait, f, table, checked)
        text = tr.translate()
        defs.append(dict(name=coq_name(owner, f["name"], checked), text=text, calls=set(tr.calls), idx=idx,
                         sig=f"{owner}::{f['sig']}" + (f"   [impl {trait}]" if trait else ""), line=f["line"]))
    # callee before caller, otherwise source order
    names = {d["name"]: d for d in defs}
    order, state = [], {}

    def visit(d, stack):
        if state.get(d["name"]) == 2:
            return
        if state.get(d["name"]) == 1:
            raise TranslateError("recursive methods: " + " -> ".join(stack + [d["name"]]))
        state[d["name"]] = 1
        for c in sorted(d["calls"], key=lambda c: names[c]["idx"]):
            visit(names[c], stack + [d["name"]])
        state[d["name"]] = 2
        order.append(d)

    for d in defs:
        visit(d, [])
    out = [HEADER_CK if checked else HEADER]
    for d in order:
        sig = d["sig"].replace("(*", "( *").replace("*)", "* )")
        out.append(f"(* {sig} *)")
        out.append(d["text"])
        out.append("")
    out.append("End RingGenCk." if checked else "End RingGen.")
    text = "\n".join(out) + "\n"
    return text, [d["name"] for d in order]


MUT_OPS = {"+": "-", "-": "+", "%": "/", "/": "%", "==": "!=", "!=": "==", "<": "<=", "<=": "<", ">": ">=", ">=": ">",
           "+=": "-=", "-=": "+="}
MUT_FIELDS = {"start": "len", "len": "start"}


def sensitivity(src, limit=None, pick=None):
    """Self-test of "never silently skipped": every single-token edit of a method body out of a fixed family
    (an arithmetic / comparison / compound-assignment operator replaced by its neighbour, an integer literal
    incremented, `self.start` <-> `self.len`) must either be rejected or change the generated text.
    -> dict(sites, rejected, changed, ignored=[...]).  `pick(n, k)` chooses k of n sites (None: all)."""
    base, _ = translate_text(src)
    sites = []
    for owner, trait, f in parse_file(src):
        toks = f["body_toks"]
        for j, t in enumerate(toks):
            if t.k == "op" and t.t in MUT_OPS:
                sites.append((t, MUT_OPS[t.t], f"{owner}::{f['name']}"))
            elif t.k == "int":
                sites.append((t, str(int(t.t.replace("_", "").replace("usize", "")) + 1), f"{owner}::{f['name']}"))
            elif t.k == "id" and t.t in MUT_FIELDS and j >= 2 and toks[j - 1].t == "." and toks[j - 2].t in ("self", "bounded") \
                    and not (j + 1 < len(toks) and toks[j + 1].t == "("):
                sites.append((t, MUT_FIELDS[t.t], f"{owner}::{f['name']}"))
    chosen = sites if (limit is None or limit >= len(sites) or pick is None) else [sites[i] for i in pick(len(sites), limit)]
    res = dict(sites=len(sites), tried=len(chosen), rejected=0, changed=0, ignored=[])
    for t, new, where in chosen:
        mutated = src[:t.pos] + new + src[t.pos + len(t.t):]
        try:
            out, _ = translate_text(mutated)
        except TranslateError:
            res["rejected"] += 1
            continue
        if out == base:
            res["ignored"].append(f"lib.rs:{t.line} {where}: `{t.t}` -> `{new}` leaves the generated model unchanged")
        else:
            res["changed"] += 1
    return res


def write_if_changed(path, content):
    try:
        with open(path) as f:
            if f.read() == content:
                return False
    except FileNotFoundError:
        pass
    os.makedirs(os.path.dirname(path), exist_ok=True)
    with open(path, "w") as f:
        f.write(content)
    return True


def generate(src_path=None, out_path=OUT, out_ck_path=OUT_CK):
    """translate and write coq/gen/RingGen.v and coq/gen/RingGenCk.v (only if changed). Returns (names, changed)."""
    src_path = src_path or DEFAULT_SRC
    try:
        with open(src_path) as f:
            src = f.read()
    except OSError as e:
        raise TranslateError(f"cannot read {src_path}: {e}")
    text, names = translate_text(src)
    text_ck, names_ck = translate_text(src, checked=True)
    changed = [os.path.basename(p) for p, t in ((out_path, text), (out_ck_path, text_ck)) if write_if_changed(p, t)]
    return names + names_ck, changed


if __name__ == "__main__":
    if len(sys.argv) > 1 and sys.argv[1] == "--sensitivity":
        p = sys.argv[2] if len(sys.argv) > 2 else DEFAULT_SRC
        print(sensitivity(open(p).read()))
        sys.exit(0)
    ck = "--checked" in sys.argv
    rest = [a for a in sys.argv[1:] if a != "--checked"]
    p = rest[0] if rest else DEFAULT_SRC
    try:
        sys.stdout.write(translate_text(open(p).read(), checked=ck)[0])
    except TranslateError as e:
        sys.stderr.write(f"TranslateError: {e}\n")
        sys.exit(2)
