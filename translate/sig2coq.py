#!/usr/bin/env python3
"""sig2coq.py -- strict translator from dasp_signal/src/lib.rs (current working tree) to
coq/gen/BufferedGen.v (group `buffered`) and coq/gen/ForkGen.v (group `fork`): shallow Gallina in the `res` monad,
one definition per Rust method of the two adaptors that sit directly on `ring_buffer::Bounded`, sub-expressions bound
in Rust's order of evaluation.  Calls on the ring buffer go to the GENERATED methods of coq/gen/RingGen.v (their
signatures are read from dasp_ring_buffer/src/lib.rs through translate/ring2coq.py); the source signal is abstract
(`sig_next : St -> A * St`, `sig_is_exhausted : St -> bool`).  The vocabulary of the output is
Signal/SigGenPrim.v (+ Ring/RingPrim.v).  Lexer, expression parser and type parser are those of ring2coq.py,
extended below.

group `buffered`:  Signal::buffered, struct Buffered / BufferedFrames, Buffered::{next_frames, into_parts},
                   <Buffered as Signal>::{next, is_exhausted}, <BufferedFrames as Iterator>::next
group `fork`:      Signal::fork, Signal::is_exhausted (the trait's default body, which the branch types inherit),
                   struct Fork / ForkShared, Fork::{A, B, by_rc, by_ref}, macro define_branch! (expanded for its two
                   invocations: struct BranchRcX / BranchRefX, <.. as Signal>::next, ..::pending_frames)

Everything outside the grammar below is a TranslateError (never silently skipped):

  file    ::= item*      every item is delimited (attributes, visibility, keyword, balanced body); an item that does not
                         belong to the group may not MENTION a type of the group (so no other impl, function or macro
                         can touch the private fields or add / override a method); `mod x { .. }` is rejected; the
                         other .rs files of the crate (child modules, which see private fields) may not mention one either
  pinned  ::= `use dasp_ring_buffer as ring_buffer;`  `use core::cell::RefCell;`  the two `type Rc<T>` aliases
              `fn next(&mut self) -> Self::Frame;` of trait Signal; the fields of every struct of the group;
              the SET of impls of the group's types and the SET of methods of each (a new, missing or overridden
              method -- a `Drop`, a `size_hint` -- has no counterpart in the hand model)
  macro   ::= macro_rules! define_branch { ($a:ident, ..) => { item* } }  with exactly the two pinned invocations;
              expansion substitutes the identifier tokens
  fn      ::= as ring2coq, plus `self` by value in a trait method
  stmt    ::= let [mut] x = e ; | let (x, ..) = e ; | let Struct { [ref [mut]] f, .. } = place-or-value ;
            | place = e ; | if .. | if let Some(x) = e block [else block] | match e { Some(x) => arm, None => arm }
            | for x|_ in e..e block        (no return inside; the body may update every mutable variable in scope)
            | loop block                   (only as the last thing a function does; no break)
            | return e ; | assert!(e) ; | e ;
  expr    ::= as ring2coq (usize arithmetic, comparisons, short-circuit && ||, tuples, struct literals, Some/None)
            | *e | Path::<T,..>::CONST | Rc::new(e) | RefCell::new(e) | e.clone() on an Rc
            | e.borrow() | e.borrow_mut() on a RefCell (only in a `&mut self` method for borrow_mut)
            | signal.next() | signal.is_exhausted() on the source
            | rb.m(args) for every method m of ring_buffer::Bounded whose result is made of usize / bool / element /
              Option / tuple / &[T]
            | o.is_none() | o.is_some() | slice.len() | match / if let / return in value position
"""
import os, re, sys

HERE = os.path.dirname(os.path.abspath(__file__))
sys.path.insert(0, HERE)
import ring2coq as R  # noqa: E402
from ring2coq import TranslateError, Tok, text_of, NAT, BOOL, ELEM, LIST, UNIT, OPT, TUP, REC  # noqa: E402

VERIF = os.path.dirname(HERE)
REPO = os.environ.get("DASP_REPO", "/repo")
DEFAULT_SRC = os.path.join(REPO, "dasp_signal", "src", "lib.rs")
DEFAULT_RING = os.path.join(REPO, "dasp_ring_buffer", "src", "lib.rs")
OUT = {"buffered": os.path.join(VERIF, "coq", "gen", "BufferedGen.v"), "fork": os.path.join(VERIF, "coq", "gen", "ForkGen.v")}


def err(line, msg):
    raise TranslateError(f"lib.rs:{line}: {msg}")


# ---------------------------------------------------------------------------------------------
# lexer: the whole of dasp_signal/src/lib.rs has to be delimited into items, so floats, chars, `$`, `@`, `^` .. lex too

TOKEN_RE = re.compile(r"""
   (?P<ws>\s+) | (?P<lc>//[^\n]*) | (?P<bc>/\*.*?\*/)
 | (?P<str>b?"(?:[^"\\]|\\.)*")
 | (?P<chr>b?'(?:[^'\\]|\\.)')
 | (?P<life>'[A-Za-z_]\w*(?!'))
 | (?P<float>\d[\d_]*\.\d[\d_]*(?:[eE][-+]?\d+)?(?:f32|f64)?|\d[\d_]*(?:[eE][-+]?\d+)(?:f32|f64)?|\d[\d_]*(?:f32|f64)|\d[\d_]*\.(?![\w.]))
 | (?P<int>(?:0x[0-9a-fA-F_]+|0b[01_]+|0o[0-7_]+|\d[\d_]*)(?:usize|u8|u16|u32|u64|u128|isize|i8|i16|i32|i64|i128)?(?!\w))
 | (?P<id>[A-Za-z_]\w*)
 | (?P<op>::|->|=>|==|!=|<=|>=|\+=|-=|\*=|/=|%=|\^=|&=|\|=|<<=|>>=|&&|\|\||\.\.\.|\.\.=|\.\.|[-+*/%=<>!&|.,;:\#\[\]{}()?$@^~])
""", re.X | re.S)


def lex(src):
    toks, i, line = [], 0, 1
    while i < len(src):
        m = TOKEN_RE.match(src, i)
        if not m:
            err(line, f"unrecognised character {src[i]!r}")
        k = m.lastgroup
        if k not in ("ws", "lc", "bc"):
            toks.append(Tok(k, m.group(0), line, i))
        line += m.group(0).count("\n")
        i = m.end()
    toks.append(Tok("eof", "<eof>", line))
    return toks


def squash(toks):
    return text_of(toks).replace(" ", "")


# ---------------------------------------------------------------------------------------------
# parser: ring2coq's, plus match / if let / loop / ranges / deref / turbofish paths / binding modes

class SParser(R.Parser):
    KEYWORDS = ("while", "move", "break", "continue", "let", "fn", "struct", "impl", "for", "else", "mut", "ref", "dyn",
                "async", "await", "static", "const", "where", "as", "in", "pub", "use", "mod", "trait", "type", "enum")

    def unary(self, ns):
        t = self.peek()
        if t.k == "op" and t.t == "*":
            self.next()
            return ("deref", t.line, self.unary(ns))
        return super().unary(ns)

    def primary(self, ns):
        t = self.peek()
        if t.k in ("float", "chr"):
            err(t.line, f"literal {t.t} is outside the translator's grammar")
        if t.k == "int":
            if not re.match(r"^\d[\d_]*(usize)?$", t.t):
                err(t.line, f"integer literal {t.t}: only decimal usize literals are supported")
            return super().primary(ns)
        if self.at("match"):
            return self.match_()
        if self.at("loop"):
            self.next()
            if self.peek().k == "life":
                err(t.line, "loop labels are not supported")
            return ("loop", t.line, self.block())
        if self.at("return"):
            self.next()
            e = None if (self.at(";") or self.at("}") or self.at(",")) else self.expr()
            return ("return", t.line, e)
        if self.at("if"):
            return self.if_()
        if t.k == "id" and t.t not in ("unsafe",):
            if t.t in self.KEYWORDS:
                err(t.line, f"`{t.t}` is not supported here")
            segs = [self.ident()]
            while self.at("::"):
                self.next()
                if self.at("<"):
                    self.angle_run()      # `Fork::<S, D>::A`: the type arguments select nothing the model distinguishes
                    continue
                segs.append(self.ident())
            if self.at("!"):
                self.next()
                if not self.at("("):
                    err(t.line, "macro invocation with other delimiters than ( )")
                return ("macro", t.line, "::".join(segs), self.args())
            if self.at("("):
                return ("call", t.line, tuple(segs), self.args())
            if self.at("{") and not ns and len(segs) == 1 and segs[0][:1].isupper():
                self.next()
                fields = []
                while not self.at("}"):
                    fl = self.peek().line
                    fn = self.ident()
                    if self.eat(":"):
                        fields.append((fn, self.expr()))
                    else:
                        fields.append((fn, ("path", fl, (fn,))))
                    if self.at(".."):
                        err(fl, "struct update syntax is not supported")
                    if not self.eat(","):
                        break
                self.expect("}")
                return ("struct", t.line, segs[0], fields)
            return ("path", t.line, tuple(segs))
        return super().primary(ns)

    def opt_pattern(self):
        """Some(x) | Some(_) | None | _"""
        t = self.peek()
        if self.at("_"):
            self.next()
            return ("pwild", t.line)
        name = self.ident()
        if name == "Some":
            self.expect("(")
            if self.at("_"):
                self.next()
                var = None
            else:
                if self.at("mut") or self.at("ref"):
                    err(t.line, "binding modes in Option patterns are not supported")
                var = self.ident()
            self.expect(")")
            return ("psome", t.line, var)
        if name == "None":
            return ("pnone", t.line)
        err(t.line, f"unsupported pattern `{name}` (only Some(x) / None / _)")

    def match_(self):
        line = self.expect("match").line
        scrut = self.expr(nostruct=True)
        self.expect("{")
        arms = []
        while not self.at("}"):
            pat = self.opt_pattern()
            if self.at("if") or self.at("|"):
                err(pat[1], "match guards / alternatives are not supported")
            self.expect("=>")
            if self.at("{"):
                body = self.block()
                self.eat(",")
            else:
                body = self.expr()
                if not self.at("}"):
                    self.expect(",")
            arms.append((pat, body))
        self.expect("}")
        return ("match", line, scrut, arms)

    def if_(self):
        line = self.expect("if").line
        if self.at("let"):
            self.next()
            pat = self.opt_pattern()
            self.expect("=")
            e = self.expr(nostruct=True)
            then = self.block()
            els = None
            if self.eat("else"):
                if self.at("if"):
                    inner = self.if_()
                    els = ("block", inner[1], [], inner)
                else:
                    els = self.block()
            return ("iflet", line, pat, e, then, els)
        c = self.expr(nostruct=True)
        then = self.block()
        els = None
        if self.eat("else"):
            if self.at("if"):
                inner = self.if_()
                els = ("block", inner[1], [], inner)
            else:
                els = self.block()
        return ("if", line, c, then, els)

    def pattern(self):
        t = self.peek()
        if self.at("(") or self.at("_"):
            return super().pattern()
        if self.at("mut") or self.at("ref") or self.at("&"):
            err(t.line, "binding modes / reference patterns outside a struct pattern are not supported")
        name = self.ident()
        if self.at("{"):
            self.next()
            fields = []
            while not self.at("}"):
                mode = None
                if self.eat("ref"):
                    mode = "refmut" if self.eat("mut") else "ref"
                elif self.at("mut"):
                    err(t.line, "`mut` bindings in struct patterns are not supported")
                if self.at(".."):
                    err(t.line, "`..` in a struct pattern is not supported (every field must be named)")
                fields.append((self.ident(), mode))
                if self.at(":"):
                    err(t.line, "only shorthand struct patterns `S { a, ref b, ref mut c }` are supported")
                if not self.eat(","):
                    break
            self.expect("}")
            return ("pstruct", t.line, name, fields)
        if self.at("(") or self.at("::"):
            err(t.line, "enum / tuple-struct patterns are not supported here")
        return ("pvar", t.line, name)

    BLOCKLIKE = ("if", "match", "loop", "iflet")

    def block(self):
        line = self.expect("{").line
        stmts, tail = [], None
        while not self.at("}"):
            t = self.peek()
            if tail is not None:
                err(t.line, "expression without `;` in the middle of a block")
            if t.k == "eof":
                err(line, "unterminated block")
            if self.at(";"):
                self.next()
                continue
            if self.at("#"):
                err(t.line, "attributes on statements are not supported")
            if self.at("{") or self.at("unsafe"):
                err(t.line, "nested bare / unsafe blocks are not supported")
            if self.at("let"):
                self.next()
                mut = bool(self.eat("mut"))
                pat = self.pattern()
                if mut and pat[0] != "pvar":
                    err(t.line, "`let mut` with a destructuring pattern is not supported")
                if self.eat(":"):
                    self.type_()
                if not self.eat("="):
                    err(t.line, "`let` without initialiser is not supported")
                rhs = self.expr()
                if self.at("else"):
                    err(t.line, "let-else is not supported")
                self.expect(";")
                stmts.append(("let", t.line, mut, pat, rhs))
            elif self.at("for"):
                self.next()
                if self.at("_"):
                    self.next()
                    var = None
                else:
                    pat = self.pattern()
                    if pat[0] != "pvar":
                        err(t.line, "only `for x in ..` / `for _ in ..` is supported")
                    var = pat[2]
                self.expect("in")
                lo = self.or_(True)
                if self.at("..="):
                    err(t.line, "inclusive ranges are not supported")
                if self.eat(".."):
                    it = ("range", t.line, lo, self.or_(True))
                else:
                    it = lo
                body = self.block()
                stmts.append(("for", t.line, var, it, body))
            elif self.at("if") or self.at("match") or self.at("loop"):
                e = self.primary(False)
                if self.at("}"):
                    tail = e
                elif self.at(".") or self.at("?") or (self.peek().k == "op" and self.peek().t in ("+", "-", "*", "/", "%", "==", "as")):
                    err(t.line, "a block-like expression used as an operand must be parenthesised")
                else:
                    self.eat(";")
                    stmts.append(("expr", t.line, e))
            else:
                e = self.expr()
                if self.eat(";"):
                    stmts.append(("expr", t.line, e) if e[0] != "return" else ("return", e[1], e[2]))
                elif self.at("}"):
                    if e[0] == "return":
                        stmts.append(("return", e[1], e[2]))
                    else:
                        tail = e
                else:
                    err(self.peek().line, f"expected `;` or `}}`, found {self.peek().t!r}")
        self.expect("}")
        return ("block", line, stmts, tail)


# ---------------------------------------------------------------------------------------------
# items: the whole file is delimited; macro define_branch! is expanded; everything is classified

BRANCHES = {"BranchRcA": ("rc", "A", "B"), "BranchRefA": ("ref", "A", "B"), "BranchRcB": ("rc", "B", "A"), "BranchRefB": ("ref", "B", "A")}
GROUP_TYPES = {
    "buffered": ["Buffered", "BufferedFrames"],
    "fork": ["Fork", "ForkShared", "define_branch"] + list(BRANCHES),
}
PINNED_INVOCATIONS = ["define_branch!(BranchRcA,BranchRefA,A,B);", "define_branch!(BranchRcB,BranchRefB,B,A);"]
PINNED_USES = ["use dasp_ring_buffer as ring_buffer;", "use core::cell::RefCell;"]
PINNED_RC = {"typeRc<T>=alloc::rc::Rc<T>;", "typeRc<T>=std::rc::Rc<T>;"}
PINNED_NEXT_DECL = "fn next(&mut self)->Self::Frame;"

# struct name -> pinned fields (text with spaces removed)
STRUCT_FIELDS = {
    "Buffered": [("signal", "S"), ("ring_buffer", "ring_buffer::Bounded<D>")],
    "BufferedFrames": [("ring_buffer", "&'a mut ring_buffer::Bounded<D>")],
    "Fork": [("shared", "RefCell<ForkShared<S,D>>")],
    "ForkShared": [("signal", "S"), ("ring_buffer", "ring_buffer::Bounded<D>"), ("pending", "bool")],
    "BranchRcA": [("shared_fork", "Rc<RefCell<ForkShared<S,D>>>")], "BranchRcB": [("shared_fork", "Rc<RefCell<ForkShared<S,D>>>")],
    "BranchRefA": [("shared_fork", "&'a RefCell<ForkShared<S,D>>")], "BranchRefB": [("shared_fork", "&'a RefCell<ForkShared<S,D>>")],
}
# (self type, trait) -> methods; consts / associated types pinned separately
EXPECTED_IMPLS = {
    "buffered": {("Buffered", None): ["next_frames", "into_parts"], ("Buffered", "Signal"): ["next", "is_exhausted"],
                 ("BufferedFrames", "Iterator"): ["next"]},
    "fork": dict([(("Fork", None), ["by_rc", "by_ref"])] +
                 [((b, "Signal"), ["next"]) for b in BRANCHES] + [((b, None), ["pending_frames"]) for b in BRANCHES]),
}
TRAIT_METHODS = {"buffered": ["buffered"], "fork": ["fork", "is_exhausted"]}
ASSOC_TYPES_OK = {"type Frame=S::Frame;", "type Item=D::Element;"}
CONSTS_OK = {"Fork": {"A": "true", "B": "false"}}   # names pinned, values translated


def skip_to_body(p, line):
    """advance to the first `{` or `;` outside ( ) [ ]"""
    depth = 0
    while True:
        x = p.peek()
        if x.k == "eof":
            err(line, "unterminated item")
        if x.t in ("(", "[") and x.k == "op":
            depth += 1
        elif x.t in (")", "]") and x.k == "op":
            depth -= 1
        elif depth == 0 and x.k == "op" and x.t in ("{", ";"):
            return x.t
        p.next()


def scan_items(toks):
    """-> [dict(kind, name, attrs, toks, line, head)] for one token list (ending in eof)"""
    p = SParser(toks)
    items = []
    while p.peek().k != "eof":
        attrs = [a for a in p.attrs()]
        t = p.peek()
        if t.k == "eof":
            if any(not inner for _, inner, _ in attrs):
                err(attrs[0][2], "attribute without item")
            break
        start = p.i
        if p.at("pub"):
            p.next()
            if p.at("("):
                p.balanced("(", ")")
        if p.at("unsafe") and p.peek(1).t in ("impl", "fn", "trait"):
            p.next()
        kw = p.peek()
        name = None
        if kw.t in ("use", "extern", "type", "const", "static") and kw.k == "id":
            kind = kw.t
            while not p.at(";"):
                if p.next().k == "eof":
                    err(t.line, f"unterminated {kind}")
            p.next()
        elif kw.t == "mod" and kw.k == "id":
            kind = "mod"
            p.next()
            name = p.ident()
            if not p.at(";"):
                err(t.line, f"inline module `mod {name} {{ .. }}` is outside the translator's grammar")
            p.next()
        elif kw.t == "fn" and kw.k == "id":
            kind = "fn"
            p.next()
            name = p.ident()
            if skip_to_body(p, t.line) == ";":
                p.next()
            else:
                p.balanced("{", "}")
        elif kw.t in ("struct", "enum", "union", "trait") and kw.k == "id":
            kind = kw.t
            p.next()
            name = p.ident()
            if skip_to_body(p, t.line) == ";":
                p.next()
            else:
                p.balanced("{", "}")
        elif kw.t == "impl" and kw.k == "id":
            kind = "impl"
            if skip_to_body(p, t.line) == ";":
                err(t.line, "impl without body")
            p.balanced("{", "}")
        elif kw.t == "macro_rules" and kw.k == "id" and p.peek(1).t == "!":
            kind = "macro_rules"
            p.next()
            p.next()
            name = p.ident()
            if p.at("{"):
                p.balanced("{", "}")
                p.eat(";")
            elif p.at("("):
                p.balanced("(", ")")
                p.expect(";")
            else:
                err(t.line, "malformed macro_rules!")
        elif kw.k == "id" and p.peek(1).t == "!":
            kind = "invocation"
            name = p.ident()
            p.next()
            if p.at("("):
                p.balanced("(", ")")
                p.expect(";")
            elif p.at("{"):
                p.balanced("{", "}")
                p.eat(";")
            elif p.at("["):
                p.balanced("[", "]")
                p.expect(";")
            else:
                err(t.line, "malformed macro invocation")
        else:
            err(t.line, f"unsupported item at {kw.t!r}")
        items.append(dict(kind=kind, name=name, attrs=attrs, toks=p.toks[start:p.i], line=t.line, macro=None))
    return items


def expand_macro(defn, inv):
    """macro_rules! define_branch { ($a:ident, ..) => { body } }   applied to   define_branch!(x, ..);"""
    toks = defn["toks"]
    q = SParser(toks + [Tok("eof", "<eof>", toks[-1].line)])
    q.expect("macro_rules")
    q.expect("!")
    q.ident()
    q.expect("{")
    pat = q.balanced("(", ")")[1:-1]
    q.expect("=>")
    body = q.balanced("{", "}")[1:-1]
    q.eat(";")
    if not q.at("}"):
        err(defn["line"], "macro define_branch! has more than one arm: outside the translator's grammar")
    params = []
    j = 0
    while j < len(pat):
        if not (j + 3 < len(pat) + 1 and pat[j].t == "$" and pat[j + 1].k == "id" and pat[j + 2].t == ":" and pat[j + 3].t == "ident"):
            err(defn["line"], "macro define_branch!: only `$name:ident` parameters are supported")
        params.append(pat[j + 1].t)
        j += 4
        if j < len(pat):
            if pat[j].t != ",":
                err(defn["line"], "macro define_branch!: parameters must be separated by `,`")
            j += 1
    itoks = inv["toks"]
    args = [x for x in itoks[3:-2] if x.t != ","]
    if [x.k for x in args] != ["id"] * len(params) or squash(itoks[3:-2]).count(",") != len(params) - 1:
        err(inv["line"], "define_branch! invocation does not match the macro's parameters")
    sub = dict(zip(params, args))
    out, j = [], 0
    while j < len(body):
        x = body[j]
        if x.t == "$" and x.k == "op":
            if j + 1 < len(body) and body[j + 1].k == "id" and body[j + 1].t in sub:
                a = sub[body[j + 1].t]
                # the substituted token keeps the line of its use and the source position of the `$name` it replaces
                out.append(Tok("id", a.t, body[j + 1].line, body[j + 1].pos))
                MVAR[id(out[-1])] = body[j + 1].t
                j += 2
                continue
            err(x.line, "macro define_branch!: `$` not followed by a parameter name (repetitions are not supported)")
        out.append(x)
        j += 1
    return out + [Tok("eof", "<eof>", body[-1].line if body else defn["line"])]


MVAR = {}    # id(token) -> name of the macro parameter it was substituted for (Tok has __slots__)


def impl_header(item):
    """-> (trait name or None, head identifier of the self type, header tokens)"""
    toks = item["toks"]
    q = SParser(toks + [Tok("eof", "<eof>", toks[-1].line)])
    q.eat("pub")
    q.eat("unsafe")
    q.expect("impl")
    if q.at("<"):
        gen = q.angle_run()[1:-1]
    else:
        gen = []
    hs = q.i
    depth, trait_toks, self_toks = 0, None, None
    while True:
        x = q.peek()
        if x.k == "eof":
            err(item["line"], "malformed impl header")
        if x.t in ("<", "[", "(") and x.k == "op":
            depth += 1
        elif x.t in (">", "]", ")") and x.k == "op":
            depth -= 1
        if depth == 0 and x.t == "for" and x.k == "id" and trait_toks is None:
            trait_toks = q.toks[hs:q.i]
            q.next()
            hs = q.i
            continue
        if depth == 0 and ((x.t == "where" and x.k == "id") or x.t == "{"):
            self_toks = q.toks[hs:q.i]
            break
        q.next()
    ws = q.i
    while not q.at("{"):
        q.next()
    where = q.toks[ws + 1:q.i] if q.i > ws else []
    head = next((x.t for x in self_toks if x.k == "id" and x.t not in ("mut", "dyn")), None)
    direct = bool(self_toks) and self_toks[0].k == "id" and self_toks[0].t == head
    trait = None
    if trait_toks:
        if trait_toks[0].t == "!":
            err(item["line"], "negative impl")
        trait = trait_toks[0].t
    return dict(trait=trait, head=head, direct=direct, generics=gen, where=where, body_at=q.i, toks=q.toks, trait_toks=trait_toks or [])


def classify(src, group):
    """delimit, expand define_branch!, check everything that is pinned for `group`.
    -> dict(structs, impls=[(owner, trait, hdr, item)], trait_item, consts)"""
    toks = lex(src)
    items = scan_items(toks)
    mine = set(GROUP_TYPES[group])
    # --- macro expansion (fork group only: the other group must merely not be mentioned by it)
    macros = [it for it in items if it["kind"] == "macro_rules"]
    expanded = []
    for it in items:
        if it["kind"] == "invocation" and it["name"] == "define_branch":
            if group != "fork":
                continue
            defn = [m for m in macros if m["name"] == "define_branch"]
            if len(defn) != 1:
                err(it["line"], "define_branch! invoked but not defined exactly once")
            sub = scan_items(expand_macro(defn[0], it))
            for s in sub:
                s["macro"] = squash(it["toks"])
                if s["kind"] in ("invocation", "macro_rules", "mod"):
                    err(s["line"], "a macro expanding to further macros / modules is outside the grammar")
            expanded += sub
        else:
            expanded.append(it)
    if group == "fork":
        inv = [squash(it["toks"]) for it in items if it["kind"] == "invocation" and it["name"] == "define_branch"]
        if inv != PINNED_INVOCATIONS:
            raise TranslateError(f"the invocations of define_branch! are {inv}, the hand model was written for {PINNED_INVOCATIONS}")
        if not any(m["name"] == "define_branch" for m in macros):
            raise TranslateError("macro define_branch! not found")
    items = expanded
    # --- pinned imports
    uses = {text_of(it["toks"]) for it in items if it["kind"] == "use"}
    for u in PINNED_USES:
        if not any(squash_text(x) == squash_text(u) for x in uses):
            raise TranslateError(f"`{u}` not found: `ring_buffer::Bounded` / `RefCell` would no longer be what the model assumes")
    for it in items:
        if it["kind"] == "type" and squash(it["toks"]).startswith("typeRc<"):
            if squash(it["toks"]) not in PINNED_RC:
                err(it["line"], f"type alias {text_of(it['toks'])!r} differs from the one the model was written for")
    if group == "fork" and not any(it["kind"] == "type" and squash(it["toks"]) in PINNED_RC for it in items):
        raise TranslateError("the alias `type Rc<T> = ..::rc::Rc<T>` was not found")
    out = dict(structs={}, impls=[], trait_item=None, group=group)
    for it in items:
        ids = {x.t for x in it["toks"] if x.k == "id"}
        k = it["kind"]
        if k == "struct" and it["name"] in mine:
            for a, inner, line in it["attrs"]:
                if not a.startswith("#[derive("):
                    err(line, f"attribute {a} on struct {it['name']} is outside the grammar")
            if it["name"] in out["structs"]:
                err(it["line"], f"struct {it['name']} defined twice")
            out["structs"][it["name"]] = check_struct(it)
        elif k == "impl":
            hdr = impl_header(it)
            if hdr["head"] in mine:
                if it["attrs"]:
                    err(it["line"], f"attribute {it['attrs'][0][0]} on an impl of {hdr['head']}")
                if not hdr["direct"]:
                    err(it["line"], f"impl for a type built around {hdr['head']} ({text_of(it['toks'][:12])} ..): no counterpart in the hand model")
                out["impls"].append((hdr["head"], hdr["trait"], hdr, it))
            elif ids & mine:
                err(it["line"], f"an impl for another type mentions {sorted(ids & mine)}: it could reach the private state of the adaptor")
        elif k == "trait" and it["name"] == "Signal":
            if out["trait_item"] is not None:
                err(it["line"], "trait Signal defined twice")
            out["trait_item"] = it
        elif k == "macro_rules" and it["name"] == "define_branch":
            pass        # examined through its expansion (fork); for the other group: must not mention it
            if group != "fork" and ids & mine:
                err(it["line"], f"macro define_branch! mentions {sorted(ids & mine)}")
        elif k == "invocation" and it["name"] == "define_branch":
            if ids & mine:
                err(it["line"], f"a define_branch! invocation mentions {sorted(ids & mine)}")
        else:
            if ids & mine:
                err(it["line"], f"{k} {it['name'] or ''} mentions {sorted(ids & mine)}: outside the modelled items "
                                "(it could reach the private state of the adaptor or change what its API does)")
    for n in GROUP_TYPES[group]:
        if n != "define_branch" and n not in out["structs"]:
            raise TranslateError(f"struct {n} not found")
    if out["trait_item"] is None:
        raise TranslateError("trait Signal not found")
    return out


def squash_text(s):
    return s.replace(" ", "")


def check_struct(it):
    toks = it["toks"]
    q = SParser(toks + [Tok("eof", "<eof>", toks[-1].line)])
    q.eat("pub")
    if q.at("("):
        err(it["line"], "restricted visibility")
    q.expect("struct")
    name = q.ident()
    if q.at("<"):
        q.angle_run()
    if q.at("where"):
        while not q.at("{") and q.peek().k != "eof":
            q.next()
    if not q.at("{"):
        err(it["line"], f"struct {name}: only structs with named fields are modelled")
    q.expect("{")
    fields = []
    while not q.at("}"):
        if q.at("#"):
            err(q.peek().line, "attributes on fields are not supported")
        if q.eat("pub"):
            err(it["line"], f"struct {name}: a public field would let callers break the representation invariant")
        fn = q.ident()
        q.expect(":")
        fs = q.i
        q.type_()
        fields.append((fn, text_of(q.toks[fs:q.i])))
        if not q.eat(","):
            break
    q.expect("}")
    want = [(a, squash_text(b)) for a, b in STRUCT_FIELDS[name]]
    if [(a, squash_text(b)) for a, b in fields] != want:
        err(it["line"], f"struct {name}: fields {fields} differ from the modelled {STRUCT_FIELDS[name]}")
    return fields


# ---------------------------------------------------------------------------------------------
# functions of the group: impl bodies and the trait's methods

def parse_impl(owner, trait, hdr, item, group):
    """-> (fns, consts) of one impl of a modelled type; associated types / consts pinned"""
    q = SParser(hdr["toks"])
    q.i = hdr["body_at"]
    q.expect("{")
    fns, consts = [], {}
    while not q.at("}"):
        ia = q.attrs()
        x = q.peek()
        if q.at("type"):
            run = []
            while not q.at(";"):
                run.append(q.next())
            run.append(q.next())
            if squash(run) not in {squash_text(a) for a in ASSOC_TYPES_OK}:
                err(x.line, f"unexpected associated type {text_of(run)!r}")
            if ia:
                err(x.line, "attribute on an associated type")
        elif q.at("const"):
            if ia:
                err(x.line, "attribute on an associated const")
            q.next()
            name = q.ident()
            q.expect(":")
            ty = q.type_()
            q.expect("=")
            val = q.expr()
            q.expect(";")
            if owner not in CONSTS_OK or name not in CONSTS_OK[owner] or trait is not None:
                err(x.line, f"associated const {owner}::{name} has no counterpart in the hand model")
            if ty != ("path", ("bool",), []) or val[0] != "path" or val[2] not in (("true",), ("false",)):
                err(x.line, f"associated const {owner}::{name}: only `bool` constants `true` / `false` are supported")
            if name in consts:
                err(x.line, f"associated const {name} defined twice")
            consts[name] = val[2][0]
        elif q.at("fn") or q.at("pub") or q.at("unsafe"):
            f = q.fn(ia)
            f["owner"], f["trait"] = owner, trait
            f["impl_generics"] = R.split_generics(hdr["generics"], item["line"]) + R.split_generics(hdr["where"], item["line"])
            f["macro"] = item.get("macro")
            fns.append(f)
        else:
            err(x.line, f"unsupported impl item at {x.t!r}")
    q.expect("}")
    return fns, consts


def parse_trait(item, group):
    """trait Signal: the declaration of `next` is pinned, the group's methods are parsed, every other method may not
    mention a type of the group"""
    toks = item["toks"]
    q = SParser(toks + [Tok("eof", "<eof>", toks[-1].line)])
    q.eat("pub")
    q.expect("trait")
    q.ident()
    while not q.at("{"):
        q.next()
    q.expect("{")
    mine = set(GROUP_TYPES[group])
    fns, seen_next = [], False
    while not q.at("}"):
        ia = q.attrs()
        x = q.peek()
        start = q.i
        if q.at("type") or q.at("const"):
            while not q.at(";"):
                q.next()
            q.next()
            if {y.t for y in q.toks[start:q.i] if y.k == "id"} & mine:
                err(x.line, "an associated item of trait Signal mentions a type of the modelled adaptor")
            continue
        if not q.at("fn"):
            err(x.line, f"unsupported item in trait Signal at {x.t!r}")
        name = q.peek(1).t
        if skip_to_body(q, x.line) == ";":
            q.next()
            has_body = False
        else:
            q.balanced("{", "}")
            has_body = True
        run = q.toks[start:q.i]
        if name == "next":
            if squash(run) != squash_text(PINNED_NEXT_DECL) or ia:
                err(x.line, f"trait Signal: `{text_of(run)}` differs from the pinned `{PINNED_NEXT_DECL}`")
            seen_next = True
        elif name in TRAIT_METHODS[group]:
            if not has_body:
                err(x.line, f"Signal::{name} has no default body")
            sub = SParser(run + [Tok("eof", "<eof>", run[-1].line)])
            f = sub.fn(ia)
            f["owner"], f["trait"], f["impl_generics"], f["macro"] = "Signal", "trait", [], None
            fns.append(f)
        elif {y.t for y in run if y.k == "id"} & mine:
            err(x.line, f"Signal::{name} mentions {sorted({y.t for y in run if y.k == 'id'} & mine)}: outside the modelled items")
    if not seen_next:
        raise TranslateError("trait Signal: `fn next(&mut self) -> Self::Frame;` not found")
    got = [f["name"] for f in fns]
    for m in TRAIT_METHODS[group]:
        if got.count(m) != 1:
            raise TranslateError(f"trait Signal: method {m} found {got.count(m)} times")
    return fns


def collect(src, group):
    """-> (fns in source order, consts {owner: {name: 'true'|'false'}})"""
    c = classify(src, group)
    fns = parse_trait(c["trait_item"], group)
    consts = {}
    seen = {}
    for owner, trait, hdr, item in c["impls"]:
        key = (owner, trait)
        if key not in EXPECTED_IMPLS[group]:
            err(item["line"], f"impl {trait or '(inherent)'} for {owner}: no counterpart in the hand model")
        if key in seen:
            err(item["line"], f"impl {trait or '(inherent)'} for {owner}: a second impl block (no counterpart in the hand model)")
        fs, cs = parse_impl(owner, trait, hdr, item, group)
        seen[key] = [f["name"] for f in fs]
        fns += fs
        if cs:
            consts.setdefault(owner, {}).update(cs)
    for key, want in EXPECTED_IMPLS[group].items():
        where = f"impl {key[1] or '(inherent)'} for {key[0]}"
        if key not in seen:
            raise TranslateError(f"{where}: not found")
        have = seen[key]
        extra = [m for m in have if m not in want]
        missing = [m for m in want if m not in have]
        dup = [m for m in have if have.count(m) > 1]
        if extra:
            raise TranslateError(f"{where}: method(s) {extra} have no counterpart in the hand model "
                                 f"(an overridden trait method changes what the public API does)")
        if missing:
            raise TranslateError(f"{where}: method(s) {missing} the hand model describes are gone")
        if dup:
            raise TranslateError(f"{where}: duplicate method(s) {sorted(set(dup))}")
    for owner, want in CONSTS_OK.items():
        if group == "fork" and sorted(consts.get(owner, {})) != sorted(want):
            raise TranslateError(f"impl {owner}: associated consts {sorted(consts.get(owner, {}))}, the hand model has {sorted(want)}")
    return fns, consts


# ---------------------------------------------------------------------------------------------
# kinds (the Coq representation of a Rust type); ring2coq's, plus:

SIG = ("sig",)              # the abstract source state St
RB = REC("Bounded")         # ring_buffer::Bounded<_>
RANGE = ("range",)


def RC(k):
    return ("rc", k)


def CELL(k):
    return ("cell", k)


def unwrap(k):
    while k is not None and k[0] in ("rc", "cell"):
        k = k[1]
    return k


FS = REC("ForkShared")
RECORDS = {
    "Buffered": dict(coq="buffered_g St A", fields={"signal": ("bg_signal", SIG, "with_bg_signal"),
                                                    "ring_buffer": ("bg_ring_buffer", RB, "with_bg_ring_buffer")},
                     order=["signal", "ring_buffer"],
                     literal="{{| bg_signal := {signal}; bg_ring_buffer := {ring_buffer} |}}"),
    "ForkShared": dict(coq="fork_g St A", fields={"signal": ("fg_signal", SIG, "with_fg_signal"),
                                                   "ring_buffer": ("fg_ring_buffer", RB, "with_fg_ring_buffer"),
                                                   "pending": ("fg_pending", BOOL, "with_fg_pending")},
                       order=["signal", "ring_buffer", "pending"],
                       literal="{{| fg_signal := {signal}; fg_ring_buffer := {ring_buffer}; fg_pending := {pending} |}}"),
}
# a struct with ONE field is represented by that field
WRAPPERS = {
    "BufferedFrames": ("ring_buffer", RB),
    "Fork": ("shared", CELL(FS)),
    "BranchRcA": ("shared_fork", RC(CELL(FS))), "BranchRcB": ("shared_fork", RC(CELL(FS))),
    "BranchRefA": ("shared_fork", CELL(FS)), "BranchRefB": ("shared_fork", CELL(FS)),
}
STRUCT_GROUP = {"Buffered": "buffered", "BufferedFrames": "buffered"}


def paren(t):
    return t if " " not in t or (t.startswith("(") and t.endswith(")")) else f"({t})"


def coq_type(k):
    h = k[0]
    if h in ("rc", "cell"):
        return coq_type(k[1])
    if h == "sig":
        return "St"
    if h == "range":
        return "list nat"
    if h == "rec":
        if k[1] == "Bounded":
            return "bounded A"
        if k[1] in RECORDS:
            return RECORDS[k[1]]["coq"]
        if k[1] in WRAPPERS:
            return coq_type(WRAPPERS[k[1]][1])
        raise TranslateError(f"internal: record {k[1]}")
    if h == "opt":
        if k[1] is None:
            raise TranslateError("internal: undetermined Option type")
        return f"option {paren(coq_type(k[1]))}"
    if h == "tuple":
        return "(" + " * ".join(paren(coq_type(x)) for x in k[1]) + ")"
    if h in ("nat", "bool", "elem", "list", "unit"):
        return R.coq_type(k)
    raise TranslateError(f"internal: kind {k}")


def kinds_agree(a, b):
    if a is None or b is None:
        return True
    if a[0] in ("rc", "cell") or b[0] in ("rc", "cell"):
        return a[0] == b[0] and kinds_agree(a[1], b[1])
    if a[0] != b[0]:
        return False
    if a[0] == "opt":
        return kinds_agree(a[1], b[1])
    if a[0] == "tuple":
        return len(a[1]) == len(b[1]) and all(kinds_agree(x, y) for x, y in zip(a[1], b[1]))
    return a == b


def ring_kind_ok(k):
    """result kinds of ring methods that this translator lets through"""
    if k is None:
        return False
    if k[0] in ("nat", "bool", "elem", "list", "unit"):
        return True
    if k[0] == "opt":
        return ring_kind_ok(k[1])
    if k[0] == "tuple":
        return all(ring_kind_ok(x) for x in k[1])
    return False


# ---------------------------------------------------------------------------------------------
# terms:  ret e | call text | let pat e body | bind pat comp body | if c t1 t2 | matchopt v x t1 t2

def Ret(e):
    return ("ret", e)


def Call(text):
    return ("call", text)


def letpat(p):
    return "'" + p if p.startswith("(") else p


def as_pure(t):
    if t[0] == "ret":
        return t[1]
    if t[0] == "let":
        b = as_pure(t[3])
        return None if b is None else f"(let {letpat(t[1])} := {t[2]} in {b})"
    if t[0] == "if":
        a, b = as_pure(t[2]), as_pure(t[3])
        return None if a is None or b is None else f"(if {t[1]} then {a} else {b})"
    return None


def mk_bind(pat, comp, body):
    if body == ("ret", pat):
        return comp
    pure = as_pure(comp)
    if pure is not None:
        return ("let", pat, pure, body)
    return ("bind", pat, comp, body)


def emit(t, ind):
    k = t[0]
    if k == "ret":
        return f"{ind}Ok {t[1]}"
    if k == "call":
        return ind + t[1].replace("\n", "\n" + ind)
    if k == "let":
        return f"{ind}let {letpat(t[1])} := {t[2]} in\n" + emit(t[3], ind)
    if k == "bind":
        if t[2][0] == "call":
            return f"{ind}let* {t[1]} := " + t[2][1].replace("\n", "\n" + ind) + " in\n" + emit(t[3], ind)
        return f"{ind}let* {t[1]} :=\n{ind}  (\n" + emit(t[2], ind + "    ") + f"\n{ind}  ) in\n" + emit(t[3], ind)
    if k == "if":
        return f"{ind}if {t[1]} then\n" + emit(t[2], ind + "  ") + f"\n{ind}else\n" + emit(t[3], ind + "  ")
    if k == "matchopt":
        return (f"{ind}match {t[1]} with\n{ind}| Some {t[2]} =>\n" + emit(t[3], ind + "    ") +
                f"\n{ind}| None =>\n" + emit(t[4], ind + "    ") + f"\n{ind}end")
    raise TranslateError(f"internal: term {k}")


def occurs(name, t):
    return re.search(r"(?<![\w'])" + re.escape(name) + r"(?![\w'])", emit(t, "")) is not None


def simplify(t):
    """`let* t := c in let x := t in k`  ->  `let* x := c in k`   (t a translator temporary not used in k)"""
    k = t[0]
    if k in ("ret", "call"):
        return t
    if k == "if":
        return ("if", t[1], simplify(t[2]), simplify(t[3]))
    if k == "matchopt":
        return ("matchopt", t[1], t[2], simplify(t[3]), simplify(t[4]))
    if k == "let":
        body = simplify(t[3])
        if re.match(r"^t\d+$", t[1]) and body[0] == "let" and body[2] == t[1] and not occurs(t[1], body[3]):
            return ("let", body[1], t[2], body[3])
        return ("let", t[1], t[2], body)
    if k == "bind":
        comp, body = simplify(t[2]), simplify(t[3])
        if re.match(r"^t\d+$", t[1]) and body[0] == "let" and body[2] == t[1] and not occurs(t[1], body[3]):
            return mk_bind(body[1], comp, body[3])
        return mk_bind(t[1], comp, body)
    raise TranslateError(f"internal: term {k}")


def tuple_text(parts):
    return R.tuple_text(parts)


class Place:
    """a location reachable from a mutable (or readable) root variable through record fields"""
    def __init__(self, root, path, kind, mutable):
        self.root, self.path, self.kind, self.mutable = root, list(path), kind, mutable

    def read(self):
        t = self.root
        for proj, _ in self.path:
            t = f"({proj} {t})"
        return t

    def write(self, v):
        def go(base, path):
            if not path:
                return v
            (proj, setter), rest = path[0], path[1:]
            return f"({setter} {base} {go(f'({proj} {base})', rest)})"
        return go(self.root, self.path)

    def sub(self, kind, mutable=None, step=None):
        return Place(self.root, self.path + ([step] if step else []), kind, self.mutable if mutable is None else mutable)


# ---------------------------------------------------------------------------------------------
# translation of one function

ANYSELF = ("anyself",)    # `self` of a default method of trait Signal that implementors inherit: an arbitrary type


def coq_name(owner, name):
    return f"{owner}_{name}"


def walk(node, f):
    R.walk(node, f)


def has_effect(e):
    found = []
    walk(e, lambda n: found.append(1) if n and n[0] in ("mcall", "call", "assign", "macro", "match", "iflet", "loop", "return") else None)
    return bool(found)


class FnTr:
    def __init__(self, f, consts, ring_table):
        self.f, self.consts, self.ring = f, consts, ring_table
        self.owner, self.trait = f["owner"], f["trait"]
        self.self_mode = f["self_mode"]
        self.ntmp = 0
        gens = f["generics"] + f["where"] + f["impl_generics"]
        self.sig_names = {n for n, b in gens if re.search(r"(?<![\w:])Signal(?!\w)", b)}
        self.aux = []
        self.uses_fuel = False
        self.root_kinds = {}
        self.forbid = [set()]
        self.name = coq_name(self.owner, f["name"])

    # ---- types -> kinds ----
    def tkind(self, ty, line):
        h = ty[0]
        if h == "ref":
            return self.tkind(ty[2], line)
        if h == "tuple":
            return UNIT if not ty[1] else TUP([self.tkind(x, line) for x in ty[1]])
        if h == "path":
            segs, args = ty[1], [a for a in ty[2] if a[0] != "assoc"]
            name = "::".join(segs)
            if name == "usize" and not args:
                return NAT
            if name == "bool" and not args:
                return BOOL
            if len(segs) == 2 and segs[1] in ("Frame", "Element", "Item") and not args:
                return ELEM
            if name == "ring_buffer::Bounded" and len(args) == 1:
                return RB
            if name == "Option" and len(args) == 1:
                return OPT(self.tkind(args[0], line))
            if name == "Rc" and len(args) == 1:
                return RC(self.tkind(args[0], line))
            if name == "RefCell" and len(args) == 1:
                return CELL(self.tkind(args[0], line))
            if name in RECORDS or name in WRAPPERS:
                return REC(name)
            if name == "Self" and not args:
                return self.self_kind()
            if name in self.sig_names and not args:
                return SIG
        err(line, f"unsupported type {R.ty_text(ty)}")

    def self_kind(self):
        if self.owner == "Signal":
            return ANYSELF if self.f["name"] == "is_exhausted" else SIG
        return REC(self.owner)

    def ctype(self, k):
        return "Self_" if k == ANYSELF else coq_type(k)

    def tmp(self):
        self.ntmp += 1
        return f"t{self.ntmp}"

    # ---- function ----
    def translate(self):
        f = self.f
        env, params = {}, []
        if self.self_mode is not None:
            sk = self.self_kind()
            params.append(("s", self.ctype(sk)))
            self.root_kinds["s"] = sk
            if self.self_mode == "value":
                env["self"] = ("val", "s", sk)
            else:
                env["self"] = ("place", Place("s", [], sk, self.self_mode == "mut"))
        for n, ty in f["params"]:
            k = self.tkind(ty, f["line"])
            env[n] = ("val", "v_" + n, k)
            params.append(("v_" + n, self.ctype(k)))
        self.ret_kind = self.tkind(f["ret"], f["line"]) if f["ret"] is not None else UNIT
        rt = self.ctype(self.ret_kind)
        if self.self_mode == "mut":
            st = self.ctype(self.self_kind())
            self.rty = f"({st})" if self.ret_kind == UNIT else f"({st} * {paren(rt)})"
        else:
            self.rty = rt if (rt.startswith("(") and rt.endswith(")")) or " " not in rt else f"({rt})"

        def k_fn(env2, v, kind):
            if not kinds_agree(unwrap_refs(kind), unwrap_refs(self.ret_kind)):
                err(f["line"], f"{self.owner}::{f['name']}: the body's value has the representation {kind}, "
                               f"the declared return type {R.ty_text(f['ret']) if f['ret'] else '()'} needs {self.ret_kind}")
            if self.self_mode == "mut":
                return Ret("s") if self.ret_kind == UNIT else Ret(f"(s, {v})")
            return Ret(v)

        self.k_fn = k_fn
        body = simplify(self.block(f["body"], env, k_fn, top=True))
        binders = ("{Self_ : Type} " if self.self_kind() == ANYSELF and self.self_mode else "")
        binders += ("(fuel : nat) " if self.uses_fuel else "")
        head = f"Definition {self.name} " + binders + " ".join(f"({n} : {t})" for n, t in params)
        return "\n\n".join(self.aux + [head.rstrip() + f" : res {self.rty} :=\n" + emit(body, "  ") + "."])

    # ---- environment ----
    def declare(self, env, name, entry, ln):
        if name in self.forbid[-1]:
            err(ln, f"a nested block re-declares `{name}`, which exists outside it: not supported")
        env[name] = entry

    def mut_roots(self, env):
        out = []
        for ent in env.values():
            if ent[0] == "place" and ent[1].mutable and ent[1].root not in out:
                out.append(ent[1].root)
        return sorted(out, key=lambda r: (r != "s", r))

    def roots_mentioned(self, node, env):
        out = []

        def f(n):
            if n and n[0] == "path" and len(n) == 3 and isinstance(n[2], tuple) and len(n[2]) == 1:
                ent = env.get(n[2][0])
                if ent and ent[0] == "place" and ent[1].mutable and ent[1].root not in out:
                    out.append(ent[1].root)
        walk(node, f)
        return sorted(out, key=lambda r: (r != "s", r))

    def names_mentioned(self, node):
        out = set()
        walk(node, lambda n: out.add(n[2][0]) if n and n[0] == "path" and len(n) == 3 and isinstance(n[2], tuple) and len(n[2]) == 1 else None)
        return out

    # ---- blocks and statements ----
    def block(self, blk, env, k, top=False):
        _, line, stmts, tail = blk
        if not top:
            self.forbid.append(self.forbid[-1] | set(env))
        try:
            return self.stmts(stmts, 0, tail, dict(env), k, top)
        finally:
            if not top:
                self.forbid.pop()

    def stmts(self, stmts, i, tail, env, k, top):
        if i == len(stmts):
            if tail is None:
                return k(env, "tt", UNIT)
            return self.expr(tail, env, k, tailpos=top)
        st = stmts[i]
        last = (i + 1 == len(stmts) and tail is None)
        # a nested continuation is translated inside the same lexical block: keep the forbid frame of this block
        frame = self.forbid[-1]

        def rest(env2):
            self.forbid.append(frame)
            try:
                return self.stmts(stmts, i + 1, tail, env2, k, top)
            finally:
                self.forbid.pop()

        kind, ln = st[0], st[1]
        if kind == "let":
            return self.let_(st, env, rest)
        if kind == "return":
            if not last:
                err(ln, "code after `return` in the same block")
            if st[2] is None:
                return self.k_fn(env, "tt", UNIT)
            return self.expr(st[2], env, self.k_fn)
        if kind == "for":
            return self.for_(st, env, rest)
        if kind == "expr":
            e = st[2]
            if e[0] == "assign":
                return self.assign(e, env, rest)
            if e[0] == "loop":
                if not (top and last):
                    err(ln, "`loop` is only supported as the last thing a function does")
                return self.loop_(e, env)
            if e[0] in ("if", "iflet", "match", "macro", "mcall", "call"):
                return self.expr(e, env, lambda env2, v, vk: rest(env2 if e[0] in ("macro", "mcall", "call") else env))
            err(ln, "expression statement without effect (only calls, assignments, if, if let, match, loop, assert!)")
        err(ln, f"internal: statement {kind}")

    def let_(self, st, env, rest):
        _, ln, mut, pat, rhs = st
        if pat[0] == "pvar" and ((rhs[0] == "mcall" and rhs[3] in ("borrow", "borrow_mut", "get_mut")) or rhs[0] in ("addr", "addrmut")):
            p = self.place_of(rhs, env)
            if p is None:
                err(ln, "a borrow of something that is not reachable from `self` or a `let mut` local")
            env3 = dict(env)
            self.declare(env3, pat[2], ("place", p), ln)
            return rest(env3)
        if pat[0] == "pstruct":
            sname, fields = pat[2], pat[3]
            p = self.place_of(rhs, env)

            def destructure(env2, read, kind, place):
                if unwrap_refs(kind) != REC(sname):
                    err(ln, f"struct pattern {sname} does not match the value ({kind})")
                env3 = dict(env2)
                binds = []
                if sname in WRAPPERS:
                    fname, fk = WRAPPERS[sname]
                    if [n for n, _ in fields] != [fname]:
                        err(ln, f"struct pattern must name exactly the field of {sname}")
                    mode = fields[0][1]
                    if mode is None:
                        self.declare(env3, fname, ("val", "v_" + fname, fk), ln)
                        binds.append(("v_" + fname, read))
                    else:
                        if place is None:
                            err(ln, "`ref` binding of a value that is not a place")
                        if mode == "refmut" and not place.mutable:
                            err(ln, "`ref mut` binding through an immutable path")
                        self.declare(env3, fname, ("place", place.sub(fk, mutable=(mode == "refmut"))), ln)
                elif sname in RECORDS:
                    rec = RECORDS[sname]
                    if sorted(n for n, _ in fields) != sorted(rec["fields"]):
                        err(ln, f"struct pattern must name exactly the fields of {sname}")
                    for fname, mode in fields:
                        proj, fk, setter = rec["fields"][fname]
                        if mode is None:
                            self.declare(env3, fname, ("val", "v_" + fname, fk), ln)
                            binds.append(("v_" + fname, f"({proj} {read})"))
                        else:
                            if place is None:
                                err(ln, "`ref` binding of a value that is not a place")
                            if mode == "refmut" and not place.mutable:
                                err(ln, "`ref mut` binding through an immutable path")
                            self.declare(env3, fname, ("place", place.sub(fk, mutable=(mode == "refmut"), step=(proj, setter))), ln)
                else:
                    err(ln, f"unknown struct {sname} in a pattern")
                t = rest(env3)
                for n, e in reversed(binds):
                    t = ("let", n, e, t)
                return t

            if p is not None:
                return destructure(env, p.read(), p.kind, p)
            return self.expr(rhs, env, lambda env2, v, vk: destructure(env2, v, vk, None))

        def after(env2, v, vk):
            env3 = dict(env2)
            if pat[0] == "pvar":
                name = pat[2]
                if vk is None or vk == OPT(None):
                    err(ln, "cannot determine the type of this binding (e.g. a bare `None`)")
                if mut:
                    self.root_kinds["v_" + name] = vk
                    self.declare(env3, name, ("place", Place("v_" + name, [], vk, True)), ln)
                else:
                    self.declare(env3, name, ("val", "v_" + name, vk), ln)
                return mk_bind("v_" + name, Ret(v), rest(env3))
            if pat[0] == "pwild":
                return rest(env3)
            if pat[0] == "ptuple":
                if vk is None or vk[0] != "tuple" or len(vk[1]) != len(pat[2]):
                    err(ln, "tuple pattern does not match the value")
                names = []
                for n, kk in zip(pat[2], vk[1]):
                    if n is None:
                        names.append("_")
                    else:
                        self.declare(env3, n, ("val", "v_" + n, kk), ln)
                        names.append("v_" + n)
                return mk_bind("(" + ", ".join(names) + ")", Ret(v), rest(env3))
            err(ln, "unsupported pattern")
        return self.expr(rhs, env, after)

    def for_(self, st, env, rest):
        _, ln, var, it, body = st
        if R.contains_return(body):
            err(ln, "`return` inside a `for` body is not supported")
        found = []
        walk(body, lambda n: found.append(1) if n and n[0] == "loop" else None)
        if found:
            err(ln, "`loop` inside a `for` body is not supported")
        if it[0] != "range":
            err(ln, "`for` is only supported over a range `a..b`")

        def after_it(env2, v, vk):
            roots = self.roots_mentioned(body, env2)
            if not roots:
                err(ln, "`for` body updates no mutable variable in scope")
            env3 = dict(env2)
            if var is not None:
                self.declare(env3, var, ("val", "v_" + var, NAT), ln)
            pat = tuple_text(roots)
            bt = simplify(self.block(body, env3, lambda e4, v4, k4: Ret(pat)))
            fun = f"(fun {letpat(pat)} {'v_' + var if var else '_'} =>\n" + emit(bt, "    ") + ")"
            return mk_bind(pat, Call(f"for_each {v} {fun} {pat}"), rest(env2))
        return self.expr(it, env, after_it)

    def loop_(self, e, env):
        body = e[2]
        roots = self.mut_roots(env)
        names = self.names_mentioned(body)
        captured = [ent[1] for n, ent in env.items() if ent[0] == "val" and n in names]
        ckinds = {ent[1]: ent[2] for n, ent in env.items() if ent[0] == "val"}
        name = self.name + "_loop"
        if any(a.startswith(f"Fixpoint {name} ") for a in self.aux):
            err(e[1], "the same `loop` is reached along two paths: not supported")
        args = roots + captured
        call = " ".join([name, "fuel"] + args)
        bt = simplify(self.block(body, env, lambda env2, v, vk: Call(call)))
        params = " ".join(f"({r} : {self.ctype(self.root_kinds[r])})" for r in roots)
        params += "".join(f" ({c} : {self.ctype(ckinds[c])})" for c in captured)
        self.aux.append(f"Fixpoint {name} (fuel : nat) {params}".rstrip() + f" : res {self.rty} :=\n  match fuel with\n  | O => out_of_fuel\n  | S fuel =>\n"
                        + emit(bt, "    ") + "\n  end.")
        self.uses_fuel = True
        return Call(call)

    # ---- places ----
    def place_of(self, e, env):
        h, ln = e[0], e[1]
        if h == "path" and len(e[2]) == 1:
            ent = env.get(e[2][0])
            return ent[1] if ent and ent[0] == "place" else None
        if h == "deref":
            return self.place_of(e[2], env)
        if h == "addrmut":
            p = self.place_of(e[2], env)
            if p is not None and not p.mutable:
                err(ln, "`&mut` of something that is not mutable here")
            return p
        if h == "addr":
            p = self.place_of(e[2], env)
            return None if p is None else p.sub(p.kind, mutable=False)
        if h == "field":
            p = self.place_of(e[2], env)
            if p is None:
                return None
            k = p.kind
            while k[0] == "rc":
                k = k[1]
            if k[0] != "rec":
                err(ln, f"field access .{e[3]} on a {k}" + (" (a RefCell has to be borrowed first)" if k[0] == "cell" else ""))
            n = k[1]
            if n in WRAPPERS:
                fname, fk = WRAPPERS[n]
                if e[3] != fname:
                    err(ln, f"{n} has no field {e[3]}")
                return p.sub(fk)
            if n in RECORDS:
                if e[3] not in RECORDS[n]["fields"]:
                    err(ln, f"{n} has no field {e[3]}")
                proj, fk, setter = RECORDS[n]["fields"][e[3]]
                return p.sub(fk, step=(proj, setter))
            err(ln, f"access to the private field .{e[3]} of a {n}")
        if h == "mcall" and e[3] in ("borrow", "borrow_mut", "get_mut") and not e[4]:
            p = self.place_of(e[2], env)
            if p is None:
                return None
            k = p.kind
            while k[0] == "rc":
                k = k[1]
            if k[0] != "cell":
                err(ln, f".{e[3]}() on something that is not a RefCell ({k})")
            if e[3] == "borrow":
                return p.sub(k[1], mutable=False)
            if e[3] == "get_mut":
                if not p.mutable:
                    err(ln, "get_mut() through an immutable path")
                return p.sub(k[1])
            if self.self_mode != "mut":
                err(ln, "borrow_mut() in a method that does not take `&mut self`: mutation through a shared reference is not modelled")
            return p.sub(k[1], mutable=True)
        return None

    # ---- assignments ----
    def assign(self, e, env, rest):
        _, ln, op, lhs, rhs = e
        p = self.place_of(lhs, env)
        if p is None:
            err(ln, "unsupported assignment target")
        if not p.mutable:
            err(ln, "assignment through an immutable path")

        def after(env2, v, vk):
            if not kinds_agree(p.kind, vk):
                err(ln, f"assignment of a {vk} to a {p.kind}")
            if op == "=":
                return ("let", p.root, p.write(v), rest(env2))
            if p.kind != NAT:
                err(ln, f"`{op}` on a non-integer")
            if op == "+=":
                return ("let", p.root, p.write(f"({p.read()} + {v})"), rest(env2))
            t = self.tmp()
            return ("bind", t, Call(f"usub {p.read()} {v}"), ("let", p.root, p.write(t), rest(env2)))
        return self.expr(rhs, env, after)

    # ---- control flow in expression position (the continuation is translated once per path) ----
    def if_(self, e, env, k):
        _, ln, c, then, els = e

        def after_c(env2, cv, ck):
            if ck != BOOL:
                err(ln, "condition is not a bool")
            t1 = self.block(then, env2, lambda e3, v, vk: k(env2, v, vk))
            t2 = k(env2, "tt", UNIT) if els is None else self.block(els, env2, lambda e3, v, vk: k(env2, v, vk))
            return ("if", cv, t1, t2)
        return self.expr(c, env, after_c)

    def arm(self, body, env_arm, env_out, k):
        kk = lambda e3, v, vk: k(env_out, v, vk)
        if body is None:
            return k(env_out, "tt", UNIT)
        if body[0] == "block":
            return self.block(body, env_arm, kk)
        self.forbid.append(self.forbid[-1] | set(env_out))
        try:
            return self.expr(body, env_arm, kk)
        finally:
            self.forbid.pop()

    def opt_match(self, ln, scrut, var, some_body, none_body, env, k):
        def after(env2, v, vk):
            if vk is None or vk[0] != "opt" or vk[1] is None:
                err(ln, "`match` / `if let` on something that is not an Option of known type")
            env3 = dict(env2)
            if var is not None:
                env3[var] = ("val", "v_" + var, vk[1])
            t1 = self.arm(some_body, env3, env2, k)
            t2 = self.arm(none_body, env2, env2, k)
            return ("matchopt", v, "v_" + var if var else "_", t1, t2)
        return self.expr(scrut, env, after)

    def match_(self, e, env, k):
        _, ln, scrut, arms = e
        if len(arms) != 2:
            err(ln, "`match` is only supported on an Option with exactly two arms")
        (p1, b1), (p2, b2) = arms
        if p1[0] == "psome" and p2[0] in ("pnone", "pwild"):
            return self.opt_match(ln, scrut, p1[2], b1, b2, env, k)
        if p1[0] == "pnone" and p2[0] in ("psome", "pwild"):
            return self.opt_match(ln, scrut, p2[2] if p2[0] == "psome" else None, b2, b1, env, k)
        err(ln, "`match` arms must be `Some(x)` and `None` (or `_` for the second)")

    def iflet(self, e, env, k):
        _, ln, pat, scrut, then, els = e
        if pat[0] == "psome":
            return self.opt_match(ln, scrut, pat[2], then, els, env, k)
        if pat[0] == "pnone":
            return self.opt_match(ln, scrut, None, els, then, env, k)
        err(ln, "`if let` is only supported with `Some(x)` / `None`")

    def macro(self, e, env, k):
        _, ln, name, args = e
        if name == "assert" and len(args) == 1:
            def after(env2, v, vk):
                if vk != BOOL:
                    err(ln, "assert! of a non-bool")
                return ("bind", "_", Call(f"rassert {v}"), k(env2, "tt", UNIT))
            return self.expr(args[0], env, after)
        err(ln, f"macro {name}! is outside the translator's grammar")

    # ---- expressions ----
    def exprs(self, es, env, k, acc=None):
        acc = acc or []
        if not es:
            return k(env, acc)

        def got(env2, v, vk):
            if any(has_effect(x) for x in es[1:]) and not re.match(r"^(\d+|t\d+|v_\w+|None|true|false|tt)$", v):
                t = self.tmp()
                return ("let", t, v, self.exprs(es[1:], env2, k, acc + [(t, vk)]))
            return self.exprs(es[1:], env2, k, acc + [(v, vk)])
        return self.expr(es[0], env, got)

    def fallible(self, text, kind, env, k):
        t = self.tmp()
        return mk_bind(t, Call(text), k(env, t, kind))

    def expr(self, e, env, k, tailpos=False):
        h, ln = e[0], e[1]
        if h == "int":
            return k(env, str(e[2]), NAT)
        if h == "str":
            err(ln, "string literal")
        if h == "unsafe":
            err(ln, "unsafe blocks are outside the translator's grammar")
        if h == "return":
            if e[2] is None:
                return self.k_fn(env, "tt", UNIT)
            return self.expr(e[2], env, self.k_fn)
        if h == "loop":
            if not tailpos:
                err(ln, "`loop` is only supported as the last thing a function does")
            return self.loop_(e, env)
        if h in ("path", "field", "deref") or (h == "mcall" and e[3] in ("borrow", "borrow_mut", "get_mut") and not e[4]):
            p = self.place_of(e, env)
            if p is not None:
                return k(env, p.read(), p.kind)
        if h == "path":
            segs = e[2]
            if segs == ("None",):
                return k(env, "None", OPT(None))
            if segs in (("true",), ("false",)) and segs[0] not in env:
                return k(env, segs[0], BOOL)
            if len(segs) == 1 and segs[0] in env:
                ent = env[segs[0]]
                return k(env, ent[1], ent[2])
            if len(segs) == 2:
                owner = self.owner if segs[0] == "Self" else segs[0]
                if owner in self.consts and segs[1] in self.consts[owner]:
                    return k(env, f"{owner}_{segs[1]}", BOOL)
            err(ln, f"unknown name {'::'.join(segs)}")
        if h == "deref":
            return self.expr(e[2], env, k)
        if h == "tuple":
            if not e[2]:
                return k(env, "tt", UNIT)
            return self.exprs(e[2], env, lambda env2, vs: k(env2, tuple_text([v for v, _ in vs]), TUP([x for _, x in vs])))
        if h == "struct":
            return self.struct_lit(e, env, k)
        if h == "field":
            def after(env2, v, vk):
                kk = vk
                while kk is not None and kk[0] == "rc":
                    kk = kk[1]
                if kk is None or kk[0] != "rec":
                    err(ln, f"field access .{e[3]} on a {vk}")
                n = kk[1]
                if n in WRAPPERS:
                    if e[3] != WRAPPERS[n][0]:
                        err(ln, f"{n} has no field {e[3]}")
                    return k(env2, v, WRAPPERS[n][1])
                if n in RECORDS and e[3] in RECORDS[n]["fields"]:
                    proj, fk, _ = RECORDS[n]["fields"][e[3]]
                    return k(env2, f"({proj} {v})", fk)
                err(ln, f"{n} has no accessible field {e[3]}")
            return self.expr(e[2], env, after)
        if h == "bin":
            return self.bin(e, env, k)
        if h == "not":
            def after(env2, v, vk):
                if vk != BOOL:
                    err(ln, "`!` on a non-bool")
                return k(env2, f"(negb {v})", BOOL)
            return self.expr(e[2], env, after)
        if h == "cast":
            err(ln, "casts are outside the translator's grammar")
        if h in ("addr", "addrmut"):
            err(ln, "`&` / `&mut` of something that is not a place reachable from self")
        if h in ("index", "rangeto", "rangefull"):
            err(ln, "indexing is outside the translator's grammar")
        if h == "range":
            def after(env2, vs):
                (a, ak), (b, bk) = vs
                if ak != NAT or bk != NAT:
                    err(ln, "range bounds are not usize")
                return k(env2, f"(range {a} {b})", RANGE)
            return self.exprs([e[2], e[3]], env, after)
        if h == "if":
            return self.if_(e, env, k)
        if h == "iflet":
            return self.iflet(e, env, k)
        if h == "match":
            return self.match_(e, env, k)
        if h == "macro":
            return self.macro(e, env, k)
        if h == "assign":
            err(ln, "assignment used as a value")
        if h == "call":
            return self.call(e, env, k)
        if h == "mcall":
            return self.mcall(e, env, k)
        err(ln, f"internal: expression {h}")

    def bin(self, e, env, k):
        _, ln, op, a, b = e
        if op in ("&&", "||"):
            def after_a(env2, x, xk):
                if xk != BOOL:
                    err(ln, f"`{op}` on non-bools")
                probe = self.expr(b, env2, lambda e3, v, vk: ("probe", v, vk))
                if probe[0] == "probe":
                    if probe[2] != BOOL:
                        err(ln, f"`{op}` on non-bools")
                    return k(env2, f"({'andb' if op == '&&' else 'orb'} {x} {probe[1]})", BOOL)

                def after_b(env3, y, yk):
                    if yk != BOOL:
                        err(ln, f"`{op}` on non-bools")
                    return k(env3, y, BOOL)
                # short circuit: the right operand is evaluated only when it decides the result
                tb = self.expr(b, env2, after_b)
                return ("if", x, tb, k(env2, "false", BOOL)) if op == "&&" else ("if", x, k(env2, "true", BOOL), tb)
            return self.expr(a, env, after_a)

        def after(env2, vs):
            (x, xk), (y, yk) = vs
            if xk != NAT or yk != NAT:
                if op in ("==", "!=") and xk == BOOL and yk == BOOL:
                    r = f"(Bool.eqb {x} {y})"
                    return k(env2, r if op == "==" else f"(negb {r})", BOOL)
                err(ln, f"`{op}` on operands that are neither both usize nor both bool ({xk}, {yk})")
            if op == "+":
                return k(env2, f"({x} + {y})", NAT)
            if op == "*":
                return k(env2, f"({x} * {y})", NAT)
            if op == "-":
                return self.fallible(f"usub {x} {y}", NAT, env2, k)
            if op == "%":
                return self.fallible(f"urem {x} {y}", NAT, env2, k)
            if op == "/":
                return self.fallible(f"udiv {x} {y}", NAT, env2, k)
            tbl = {"==": f"({x} =? {y})", "!=": f"(negb ({x} =? {y}))", "<": f"({x} <? {y})",
                   "<=": f"({x} <=? {y})", ">": f"({y} <? {x})", ">=": f"({y} <=? {x})"}
            return k(env2, tbl[op], BOOL)
        return self.exprs([a, b], env, after)

    def struct_lit(self, e, env, k):
        _, ln, name, fields = e
        if name in WRAPPERS:
            fname, fk = WRAPPERS[name]
            if [fn for fn, _ in fields] != [fname]:
                err(ln, f"struct literal must give exactly the field {fname}")

            def after(env2, v, vk):
                if not kinds_agree(vk, fk):
                    err(ln, f"field {fname}: a {vk} where a {fk} is needed")
                return k(env2, v, REC(name))
            return self.expr(fields[0][1], env, after)
        if name not in RECORDS:
            err(ln, f"unknown struct {name}")
        rec = RECORDS[name]
        if sorted(fn for fn, _ in fields) != sorted(rec["fields"]):
            err(ln, f"struct literal must give exactly the fields {rec['order']}")

        def after(env2, vs):
            d = {}
            for (fn, _), (v, vk) in zip(fields, vs):
                if not kinds_agree(vk, rec["fields"][fn][1]):
                    err(ln, f"field {fn}: a {vk} where a {rec['fields'][fn][1]} is needed")
                d[fn] = v
            return k(env2, rec["literal"].format(**d), REC(name))
        return self.exprs([x for _, x in fields], env, after)

    def call(self, e, env, k):
        _, ln, segs, args = e
        name = "::".join(segs)
        if name == "Some" and len(args) == 1:
            return self.expr(args[0], env, lambda env2, v, vk: k(env2, f"(Some {v})", OPT(vk)))
        if name == "Rc::new" and len(args) == 1:
            return self.expr(args[0], env, lambda env2, v, vk: k(env2, v, RC(vk)))
        if name == "RefCell::new" and len(args) == 1:
            return self.expr(args[0], env, lambda env2, v, vk: k(env2, v, CELL(vk)))
        err(ln, f"call of {name}(..) is outside the translator's grammar")

    def mcall(self, e, env, k):
        _, ln, recv, name, args = e
        p = self.place_of(recv, env)
        if p is not None:
            return self.method(p, None, p.kind, name, args, env, k, ln)
        return self.expr(recv, env, lambda env2, rv, rk: self.method(None, rv, rk, name, args, env2, k, ln))

    def method(self, p, rv, rk, name, args, env, k, ln):
        """p: the receiver as a place (read at call time, written back after a `&mut self` method), or rv: its value"""
        if rk is None:
            err(ln, f"method .{name}() on a value of undetermined type")
        if rk[0] == "rc":
            if name == "clone" and not args:
                # Rc::clone: a second handle to the SAME state
                return k(env, p.read() if p is not None else rv, rk)
            while rk[0] == "rc":
                rk = rk[1]
        recv = (lambda: p.read()) if p is not None else (lambda: rv)

        def with_args(kinds, fn):
            def got(env2, vs):
                if len(vs) != len(kinds) or any(not kinds_agree(vk, want) for (_, vk), want in zip(vs, kinds)):
                    err(ln, f".{name}(..) on a {rk}: wrong arguments")
                return fn(env2, [v for v, _ in vs])
            return self.exprs(args, env, got)

        if rk == SIG:
            if name == "next":
                if p is None or not p.mutable:
                    err(ln, "signal.next() needs the source as a mutable place")

                def go(env2, a):
                    t1, t2 = self.tmp(), self.tmp()
                    return ("let", f"({t1}, {t2})", f"sig_next {p.read()}", ("let", p.root, p.write(t2), k(env2, t1, ELEM)))
                return with_args([], go)
            if name == "is_exhausted":
                return with_args([], lambda env2, a: k(env2, f"(sig_is_exhausted {recv()})", BOOL))
            err(ln, f"method .{name}(..) of the source signal is outside the translator's grammar (only next / is_exhausted)")
        if rk == RB:
            target = self.ring.get(("Bounded", name))
            if target is None:
                err(ln, f"unknown method ring_buffer::Bounded::{name}")
            if target["self_mode"] is None:
                err(ln, f"Bounded::{name} is not a method")
            if not target["pub"] and target.get("trait_name") is None:
                err(ln, f"Bounded::{name} is private")
            tt = R.FnTranslator("Bounded", None, target, self.ring)
            pk = [tt.kind(ty, ln) for _, ty in target["params"]]
            ret = tt.kind(target["ret"], ln) if target["ret"] is not None else UNIT
            if not ring_kind_ok(ret):
                err(ln, f"Bounded::{name} returns a {R.ty_text(target['ret'])}: not supported outside the ring buffer's own model")
            cname = R.coq_name("Bounded", name)

            def go(env2, a):
                argt = "".join(" " + x for x in a)
                if target["self_mode"] == "mut":
                    if p is None or not p.mutable:
                        err(ln, f"Bounded::{name} needs `&mut self` but the receiver is not a mutable place")
                    t1 = self.tmp()
                    if ret == UNIT:
                        return ("bind", t1, Call(f"{cname} {p.read()}{argt}"), ("let", p.root, p.write(t1), k(env2, "tt", UNIT)))
                    t2 = self.tmp()
                    return ("bind", f"({t1}, {t2})", Call(f"{cname} {p.read()}{argt}"), ("let", p.root, p.write(t1), k(env2, t2, ret)))
                return self.fallible(f"{cname} {recv()}{argt}", ret, env2, k)
            return with_args(pk, go)
        if rk[0] == "opt" and name in ("is_none", "is_some"):
            return with_args([], lambda env2, a: k(env2, f"(opt_{name} {recv()})", BOOL))
        if rk == LIST and name == "len":
            return with_args([], lambda env2, a: k(env2, f"(length {recv()})", NAT))
        err(ln, f"method .{name}(..) on a {rk} is outside the translator's grammar")


def unwrap_refs(k):
    return k


# ---------------------------------------------------------------------------------------------
# driver

HEADERS = {
    "buffered": """(* GENERATED by translate/sig2coq.py from dasp_signal/src/lib.rs -- do not edit.
   One definition per method of the Buffered adaptor (Signal::buffered, Buffered, BufferedFrames), in the `res` monad,
   sub-expressions bound in Rust's order of evaluation.  Ring-buffer calls are the GENERATED methods of gen/RingGen.v;
   the source signal is abstract ([sig_next], [sig_is_exhausted]).  Vocabulary and representation of Rust values:
   Signal/SigGenPrim.v, Ring/RingPrim.v.  A method taking `&mut self` returns the updated state first.
   Rust local `x` is `v_x`, self is `s`. *)
Require Import List Arith Bool.
From Dasp Require Import Base.Res Base.ListX Ring.Bounded Ring.RingPrim Signal.SigGenPrim.
From DaspGen Require Import RingGen.
Import ListNotations.

Section BufferedGen.
Context {A St : Type}.
Variable sig_next : St -> A * St.
Variable sig_is_exhausted : St -> bool.
""",
    "fork": """(* GENERATED by translate/sig2coq.py from dasp_signal/src/lib.rs -- do not edit.
   One definition per method of the Fork adaptor (Signal::fork, Fork, and the four branch types the macro
   define_branch! expands to), in the `res` monad, sub-expressions bound in Rust's order of evaluation.  Ring-buffer
   calls are the GENERATED methods of gen/RingGen.v; the source signal is abstract ([sig_next], [sig_is_exhausted]).
   Fork and every branch handle are represented by the ONE shared state [fork_g] they point to (RefCell / Rc / & as
   state threading, Signal/SigGenPrim.v).  A method taking `&mut self` returns the updated state first.
   Rust local `x` is `v_x`, self is `s`. *)
Require Import List Arith Bool.
From Dasp Require Import Base.Res Base.ListX Ring.Bounded Ring.RingPrim Signal.SigGenPrim.
From DaspGen Require Import RingGen.
Import ListNotations.

Section ForkGen.
Context {A St : Type}.
Variable sig_next : St -> A * St.
Variable sig_is_exhausted : St -> bool.
""",
}
FOOTERS = {"buffered": "End BufferedGen.", "fork": "End ForkGen."}


def ring_table(ring_src):
    table = {}
    for owner, trait, f in R.parse_file(ring_src):
        f["trait_name"] = trait
        table[(owner, f["name"])] = f
    return table


def translate_text(src, ring_src, group):
    """-> (text of the generated file, names of its definitions)"""
    try:
        ring = ring_table(ring_src)
    except TranslateError as e:
        raise TranslateError("dasp_ring_buffer/src/" + str(e) + "  (the ring buffer below the adaptor cannot be regenerated)")
    try:
        fns, consts = collect(src, group)
        out, names = [HEADERS[group]], []
        for owner in sorted(consts):
            for cn in sorted(consts[owner]):
                out.append(f"(* impl {owner}: const {cn}: bool *)\nDefinition {owner}_{cn} : bool := {consts[owner][cn]}.\n")
                names.append(f"{owner}_{cn}")
        for f in fns:
            tr = FnTr(f, consts, ring)
            text = tr.translate()
            where = f"{f['owner']}::{f['sig']}" + ("   [default method of trait Signal]" if f["trait"] == "trait" else f"   [impl {f['trait']}]" if f["trait"] else "")
            if f.get("macro"):
                where += f"   [{f['macro']}]"
            out.append("(* " + where.replace("(*", "( *").replace("*)", "* )") + " *)")
            out.append(text)
            out.append("")
            names.append(tr.name)
        if group == "buffered":
            out.append("(* impl Iterator for BufferedFrames defines `next` only: size_hint is core::iter::Iterator's default *)\n"
                       "Definition BufferedFrames_size_hint (s : bounded A) : res (nat * option nat) :=\n  Ok (0, None).\n")
            names.append("BufferedFrames_size_hint")
        else:
            for b in BRANCHES:
                out.append(f"(* impl Signal for {b} defines `next` only: is_exhausted is the trait's default method *)\n"
                           f"Definition {b}_is_exhausted (s : fork_g St A) : res bool :=\n  Signal_is_exhausted s.\n")
                names.append(f"{b}_is_exhausted")
        out.append(FOOTERS[group])
        return "\n".join(out) + "\n", names
    except TranslateError as e:
        msg = str(e)
        raise TranslateError(("dasp_signal/src/" + msg) if msg.startswith("lib.rs:") else msg)


MUT_OPS = {"+": "-", "-": "+", "%": "/", "/": "%", "==": "!=", "!=": "==", "<": "<=", "<=": "<", ">": ">=", ">=": ">",
           "+=": "-=", "-=": "+=", "&&": "||", "||": "&&"}
MUT_IDS = {"A": "B", "B": "A", "SELF": "OTHER", "OTHER": "SELF", "true": "false", "false": "true", "len": "max_len", "max_len": "len",
           "is_empty": "is_full", "is_full": "is_empty", "borrow": "borrow_mut", "borrow_mut": "borrow", "push": "pop", "pop": "push",
           "signal": "ring_buffer", "next": "is_exhausted", "Some": "None", "None": "Some"}


def sensitivity(src, ring_src, group):
    """Self-test of "never silently skipped": every single-token edit of a translated function body out of a fixed
    family (operator -> neighbour, integer literal + 1, A <-> B / $SELF <-> $OTHER, true <-> false, a method name ->
    a sibling, Some <-> None) must be rejected or change the generated text.  Edits are made in the SOURCE text (inside
    the macro definition for the branch methods)."""
    base, _ = translate_text(src, ring_src, group)
    fns, consts = collect(src, group)
    sites, seen = [], set()
    for f in fns:
        for t in f["body_toks"]:
            if t.pos < 0 or t.pos in seen:
                continue
            orig = src[t.pos:t.pos + len(MVAR.get(id(t), t.t))]
            new = None
            if t.k == "op" and t.t in MUT_OPS and orig == t.t:
                new = MUT_OPS[t.t]
            elif t.k == "int" and orig == t.t:
                new = str(int(t.t.replace("_", "").replace("usize", "")) + 1)
            elif t.k == "id" and orig in MUT_IDS and (id(t) in MVAR or orig == t.t):
                new = MUT_IDS[orig]
            if new is None:
                continue
            seen.add(t.pos)
            sites.append((t.pos, orig, new, t.line, f"{f['owner']}::{f['name']}"))
    res = dict(sites=len(sites), tried=len(sites), rejected=0, changed=0, ignored=[])
    for pos, orig, new, line, where in sites:
        mutated = src[:pos] + new + src[pos + len(orig):]
        try:
            out, _ = translate_text(mutated, ring_src, group)
        except TranslateError:
            res["rejected"] += 1
            continue
        if out == base:
            res["ignored"].append(f"lib.rs:{line} {where}: `{orig}` -> `{new}` leaves the generated model unchanged")
        else:
            res["changed"] += 1
    return res


def check_siblings(src_path, group):
    """the other files of the crate are child modules of lib.rs: they can see the private fields of its structs and could
    add impls for them -- none of them may mention a type of the group.  (For a scratch copy of lib.rs alone, the
    siblings are those of /repo's dasp_signal.)"""
    d = os.path.dirname(os.path.abspath(src_path))
    files = []
    for root in ([d] if os.path.isdir(os.path.join(d, "window")) or len([f for f in os.listdir(d) if f.endswith(".rs")]) > 1
                 else [os.path.dirname(DEFAULT_SRC)]):
        for dp, _, fs in os.walk(root):
            files += [os.path.join(dp, f) for f in fs if f.endswith(".rs") and os.path.abspath(os.path.join(dp, f)) != os.path.abspath(src_path)
                      and not (root != d and f == "lib.rs" and dp == root)]
    mine = set(GROUP_TYPES[group])
    for f in sorted(files):
        try:
            toks = lex(open(f).read())
        except (TranslateError, OSError) as e:
            raise TranslateError(f"{f}: cannot be read / lexed: {e}")
        hit = sorted({t.t for t in toks if t.k == "id"} & mine)
        if hit:
            raise TranslateError(f"{f} mentions {hit}: a child module of dasp_signal can reach the private state of the adaptor; outside the modelled items")
    return len(files)


def generate(group, src_path=None, ring_path=None, out_path=None):
    """translate and write coq/gen/{BufferedGen,ForkGen}.v (only if changed). -> (names, changed?)"""
    src_path, ring_path = src_path or DEFAULT_SRC, ring_path or DEFAULT_RING
    try:
        src = open(src_path).read()
        ring_src = open(ring_path).read()
    except OSError as e:
        raise TranslateError(f"cannot read the source: {e}")
    check_siblings(src_path, group)
    text, names = translate_text(src, ring_src, group)
    changed = R.write_if_changed(out_path or OUT[group], text)
    return names, changed


if __name__ == "__main__":
    argv = sys.argv[1:]
    sens = "--sensitivity" in argv
    argv = [a for a in argv if a != "--sensitivity"]
    group = argv[0] if argv else "buffered"
    p = argv[1] if len(argv) > 1 else DEFAULT_SRC
    rp = argv[2] if len(argv) > 2 else DEFAULT_RING
    try:
        if sens:
            print(sensitivity(open(p).read(), open(rp).read(), group))
        else:
            sys.stdout.write(translate_text(open(p).read(), open(rp).read(), group)[0])
    except TranslateError as e:
        sys.stderr.write(f"TranslateError: {e}\n")
        sys.exit(2)
