#!/usr/bin/env python3
"""types2coq.py — reads the `new_sample_type!` invocations and `impl_neg!` lines of
dasp_sample/src/types.rs (current working tree) and emits coq/gen/TypesTable.v.

Grammar accepted (anything else is a TranslateError, never silently skipped):
  new_sample_type!(NAME: REP, eq: INT, min: INT, max: INT, total: INT, from: SRC, SRC, ...);
  SRC  ::= PRIM | {NAME:PRIM}
  PRIM ::= i8|i16|i32|i64|i128|u8|u16|u32|u64|u128
  INT  ::= -?[0-9][0-9_]*
  NAME ::= [IU][0-9]+          (signedness and width of the sample type are read from its name)
  impl_neg!(NAME);
"""
import re, sys, os

PRIM = re.compile(r"^([iu])(8|16|32|64|128)$")
NAME = re.compile(r"^([IU])([0-9]+)$")
INT = re.compile(r"^-?[0-9][0-9_]*$")


class TranslateError(Exception):
    pass


def strip_comments(src):
    src = re.sub(r"/\*.*?\*/", "", src, flags=re.S)
    return re.sub(r"//[^\n]*", "", src)


def macro_def_spans(src):
    """spans of `macro_rules! name { ... }` definitions (balanced braces)"""
    spans = []
    for m in re.finditer(r"macro_rules!\s*\w+\s*\{", src):
        depth, i = 1, m.end()
        while depth and i < len(src):
            depth += {"{": 1, "}": -1}.get(src[i], 0)
            i += 1
        if depth:
            raise TranslateError("unbalanced macro_rules! definition")
        spans.append((m.start(), i))
    return spans


def balanced_paren(src, i):
    """src[i] == '(' ; returns index after the matching ')'"""
    depth = 0
    for j in range(i, len(src)):
        if src[j] == "(":
            depth += 1
        elif src[j] == ")":
            depth -= 1
            if depth == 0:
                return j + 1
    raise TranslateError("unbalanced parenthesis in macro invocation")


def prim(tok, what):
    m = PRIM.match(tok.strip())
    if not m:
        raise TranslateError(f"{what}: {tok.strip()!r} is not a primitive integer type")
    return (m.group(1) == "i", int(m.group(2)))


def integer(tok, what):
    t = tok.strip()
    if not INT.match(t):
        raise TranslateError(f"{what}: {t!r} is not an integer literal")
    return int(t.replace("_", ""))


def split_top(s):
    """split on commas outside braces"""
    parts, depth, cur = [], 0, ""
    for ch in s:
        if ch == "{":
            depth += 1
        elif ch == "}":
            depth -= 1
        if ch == "," and depth == 0:
            parts.append(cur)
            cur = ""
        else:
            cur += ch
    parts.append(cur)
    return parts


def parse(text):
    src = strip_comments(text)
    spans = macro_def_spans(src)
    inside = lambda p: any(a <= p < b for a, b in spans)
    rows, negs = [], []
    for m in re.finditer(r"\bnew_sample_type!\s*", src):
        if inside(m.start()):
            continue
        if m.end() >= len(src) or src[m.end()] != "(":
            if re.match(r"\{", src[m.end():]):  # the macro_rules header itself is inside a span; anything else is unknown
                raise TranslateError("new_sample_type! invoked with braces")
            raise TranslateError("new_sample_type! not followed by '('")
        end = balanced_paren(src, m.end())
        body = src[m.end() + 1:end - 1]
        if not re.match(r"\s*;", src[end:]):
            raise TranslateError("new_sample_type!(...) not followed by ';'")
        mm = re.match(r"^\s*(\w+)\s*:\s*(\w+)\s*,\s*eq\s*:([^,]*),\s*min\s*:([^,]*),\s*max\s*:([^,]*),\s*total\s*:([^,]*),\s*from\s*:(.*)$",
                      body, re.S)
        if not mm:
            raise TranslateError(f"unrecognised new_sample_type! arguments: {body.strip()[:120]!r}")
        name = mm.group(1)
        nm = NAME.match(name)
        if not nm:
            raise TranslateError(f"type name {name!r} does not state signedness and width")
        rep = prim(mm.group(2), f"{name} Rep")
        froms = []
        flist = mm.group(7).strip()
        for part in (split_top(flist) if flist else []):
            p = part.strip()
            if p == "":
                if part is not split_top(flist)[-1]:
                    raise TranslateError(f"{name}: empty entry in from-list")
                continue
            cm = re.match(r"^\{\s*(\w+)\s*:\s*(\w+)\s*\}$", p)
            if cm:
                if not NAME.match(cm.group(1)):
                    raise TranslateError(f"{name}: from-list source {cm.group(1)!r} is not a sample type name")
                froms.append(("custom", cm.group(1), prim(cm.group(2), f"{name} from {cm.group(1)}")))
            else:
                froms.append(("prim", prim(p, f"{name} from-list")))
        rows.append(dict(name=name, signed=nm.group(1) == "I", bits=int(nm.group(2)), rep=rep,
                         eq=integer(mm.group(3), f"{name} eq"), min=integer(mm.group(4), f"{name} min"),
                         max=integer(mm.group(5), f"{name} max"), total=integer(mm.group(6), f"{name} total"),
                         froms=froms, neg=False))
    for m in re.finditer(r"\bimpl_neg!\s*", src):
        if inside(m.start()):
            continue
        mm = re.match(r"\(\s*(\w+)\s*\)\s*;", src[m.end():])
        if not mm:
            raise TranslateError("unrecognised impl_neg! invocation")
        negs.append(mm.group(1))
    names = [r["name"] for r in rows]
    if len(set(names)) != len(names):
        raise TranslateError("duplicate type name")
    if not rows:
        raise TranslateError("no new_sample_type! invocation found")
    for n in negs:
        if n not in names:
            raise TranslateError(f"impl_neg!({n}) for an unknown type")
        if negs.count(n) > 1:
            raise TranslateError(f"impl_neg!({n}) twice")
    for r in rows:
        r["neg"] = r["name"] in negs
        for f in r["froms"]:
            if f[0] == "custom" and f[1] not in names:
                raise TranslateError(f"{r['name']}: from-list names unknown type {f[1]}")
    # any other macro invocation at module level that defines impls would be outside the model
    known = {"new_sample_type", "impl_neg", "impl_from", "impl_froms", "macro_rules"}
    for m in re.finditer(r"\b(\w+)!\s*[\(\{\[]", src):
        if not inside(m.start()) and m.group(1) not in known:
            raise TranslateError(f"unknown macro invocation {m.group(1)}! in types.rs")
    for m in re.finditer(r"\b(impl_from|impl_froms)!", src):
        if not inside(m.start()):
            raise TranslateError(f"{m.group(1)}! invoked outside new_sample_type!")
    for m in re.finditer(r"^\s*(impl|fn|struct|const)\b", src, re.M):
        if not inside(m.start()):
            raise TranslateError("hand-written item outside the macros: " + src[m.start():m.start() + 60].strip())
    return rows


def z(n):
    return f"({n})" if n < 0 else str(n)


def b(x):
    return "true" if x else "false"


def emit(rows):
    out = ["(* GENERATED by translate/types2coq.py from dasp_sample/src/types.rs — do not edit.",
           "   One row per `new_sample_type!` invocation, in source order; has_neg = an `impl_neg!` line exists. *)",
           "Require Import List ZArith String.",
           "From Dasp Require Import Sample.TypesModel.",
           "Import ListNotations.",
           "Open Scope Z_scope.",
           "Open Scope string_scope.",
           ""]
    for r in rows:
        fs = []
        for f in r["froms"]:
            if f[0] == "prim":
                fs.append(f"SPrim {b(f[1][0])} {f[1][1]}")
            else:
                fs.append(f"SCustom \"{f[1]}\" {b(f[2][0])} {f[2][1]}")
        out.append(f"Definition row_{r['name']} : row :=")
        out.append(f"  mkRow \"{r['name']}\" {r['bits']} {b(r['signed'])} {b(r['rep'][0])} {r['rep'][1]} "
                   f"{z(r['eq'])} {z(r['min'])} {z(r['max'])} {z(r['total'])}")
        out.append(f"    [{'; '.join(fs)}] {b(r['neg'])}.")
        out.append("")
    out.append("Definition types_table : list row :=")
    out.append("  [" + "; ".join(f"row_{r['name']}" for r in rows) + "].")
    return "\n".join(out) + "\n"


def translate(path):
    with open(path) as f:
        rows = parse(f.read())
    return emit(rows), rows


if __name__ == "__main__":
    p = sys.argv[1] if len(sys.argv) > 1 else "/repo/dasp_sample/src/types.rs"
    sys.stdout.write(translate(p)[0])
