#!/usr/bin/env python3
"""Self-test of translate/window2coq.py: edits of the real source that must be REJECTED (outside the grammar, or no
counterpart in the hand model), edits that must leave the output UNCHANGED (comments, layout), edits that must be
accepted and CHANGE the output, and the single-token sensitivity sweep.
usage: test_window2coq.py [--coq] [mod.rs]      (exit 0 = all as expected)
With --coq, additionally (slow, ~1 min): every HARMLESS rewrite is written to coq/gen/WindowGen.v and
Signal/WindowGenEquiv.v must still compile; every BREAKING rewrite must make a NAMED lemma of it fail; the generated
file is restored afterwards."""
import sys, os, re, subprocess
HERE = os.path.dirname(os.path.abspath(__file__))
sys.path.insert(0, HERE)
import window2coq as T

args = [a for a in sys.argv[1:] if a != "--coq"]
COQ = "--coq" in sys.argv[1:]
SRC = open(args[0] if args else T.DEFAULT_SRC).read()
BASE, _ = T.translate_text(SRC)


def sub(old, new, count=1):
    def f(s):
        assert old in s, f"test is stale: {old!r} not in the source"
        return s.replace(old, new, count)
    return f


def after(marker, old, new):
    def f(s):
        i = s.index(marker)
        j = s.index(old, i)
        return s[:j] + new + s[j + len(old):]
    return f


NEXT_W = "    fn next(&mut self) -> Option<Self::Item> {\n        let num_frames = self.frames.len();"
HINT = "    fn size_hint(&self) -> (usize, Option<usize>) {"

REJECT = [
    ("an overridden Iterator method (seeded C20-r2mut1)", sub(HINT, "    fn last(mut self) -> Option<Self::Item> { self.next() }\n\n" + HINT), "no counterpart"),
    ("an overridden nth", sub(HINT, "    fn nth(&mut self, n: usize) -> Option<Self::Item> { self.next() }\n\n" + HINT), "no counterpart"),
    ("size_hint removed", lambda s: s[:s.index(HINT)] + s[s.index("}\n\nimpl<S, W> Iterator for Windowed"):], "are gone"),
    ("a float clamp in Window::new (seeded C20-mut3)", sub("crate::rate(len as f64 - 1.0)", "crate::rate((len as f64 - 1.0).max(2.0))"), "max"),
    ("another float literal", sub("len as f64 - 1.0", "len as f64 - 2.0"), "float literal"),
    ("a float comparison", sub("let step = crate::rate(len as f64 - 1.0).const_hz(1.0);", "let step = crate::rate(if (len as f64) < 1.0 { 1.0 } else { len as f64 - 1.0 }).const_hz(1.0);"), "comparisons"),
    ("another cast", sub("len as f64 - 1.0", "len as u32 as f64 - 1.0"), "cast"),
    ("while loop", after(NEXT_W, "if self.bin <= num_frames {", "while self.bin <= num_frames {"), "not supported"),
    ("match", sub("if self.hop == 0 {\n                return (core::usize::MAX, None);\n            }", "match self.hop { 0 => return (core::usize::MAX, None), _ => {} }"), "not supported"),
    ("if let", sub("if self.hop == 0 {", "if let 0 = self.hop {"), "if let"),
    ("a macro", after(NEXT_W, "let frames = &self.frames[..self.bin];", "debug_assert!(self.bin > 0);\n            let frames = &self.frames[..self.bin];"), "outside"),
    ("wrapping arithmetic", sub("self.frames.len() - self.bin;", "self.frames.len().wrapping_sub(self.bin);"), "outside the translator's grammar"),
    ("saturating arithmetic", sub("remaining_hop_frames / self.hop + 1;", "(remaining_hop_frames / self.hop).saturating_add(1);"), "outside the translator's grammar"),
    ("compound assignment", sub("let remaining_iterations = remaining_hop_frames / self.hop + 1;", "let mut remaining_iterations = remaining_hop_frames / self.hop;\n            remaining_iterations += 1;"), "compound assignment"),
    ("a store to bin", after(NEXT_W, "let window = Window::new(self.bin);", "let window = Window::new(self.bin);\n            self.bin = self.hop;"), "no setter"),
    ("a store through &self", sub("        let num_frames = self.frames.len();\n        // Must have", "        self.frames = &[];\n        let num_frames = self.frames.len();\n        // Must have"), "&mut self"),
    ("an extra field", sub("    pub hop: usize,\n    /// The beginning", "    pub hop: usize,\n    pub pos: usize,\n    /// The beginning"), "differs"),
    ("a field type changed", sub("    pub phase: Phase<ConstHz>,", "    pub phase: Phase<crate::Hz<S>>,"), "differs"),
    ("a changed import", sub("use dasp_window::Window as WindowType;", "use dasp_window::Window as WindowType;\nuse crate::phase as rate;"), "imports"),
    ("an import gone", sub("use dasp_sample::Sample;\n", ""), "gone"),
    ("a changed where clause", sub("impl<S, W> Iterator for Windowed<S, W>\nwhere\n    S: Signal,", "impl<S, W> Iterator for Windowed<S, W>\nwhere\n    S: Signal<Frame = f64>,"), "counterpart"),
    ("a changed associated type", sub("type Item = S::Frame;", "type Item = <S::Frame as Frame>::Float;"), "associated types"),
    ("a Drop impl", sub("impl<S, W> Iterator for Windowed<S, W>", "impl<S, W> Drop for Windowed<S, W> where S: Signal, W: WindowType<f64, Output = f64> { fn drop(&mut self) {} }\n\nimpl<S, W> Iterator for Windowed<S, W>"), "counterpart"),
    ("a free function", sub("impl<S, W> Iterator for Windowed<S, W>", "fn helper(x: usize) -> usize { x }\n\nimpl<S, W> Iterator for Windowed<S, W>"), "unsupported item"),
    ("a cfg on a method", sub(HINT, "    #[cfg(feature = \"std\")]\n" + HINT), "attribute"),
    ("the window function on another value", sub("W::window(self.phase.next_phase())", "W::window(self.phase.next_phase_wrapped_to(2.0))"), "outside the translator's grammar"),
    ("the window value negated", sub("let v = W::window(self.phase.next_phase());", "let v = -W::window(self.phase.next_phase());"), "unary"),
    ("to_sample to another type", sub("v_f.to_sample::<F::Sample>()", "v_f.to_sample::<f32>()"), "unsupported type"),
    ("the let annotation changed", sub("let v_f: <F::Sample as Sample>::Float = v.to_sample();", "let v_f: f64 = v.to_sample();"), "to_sample"),
    ("a closure that captures the index", sub("F::from_fn(|_| v_f.to_sample::<F::Sample>())", "F::from_fn(|i| (v_f * i as f64).to_sample::<F::Sample>())"), ""),
    ("Option::map replaced by and_then", sub("self.window.next().map(|w_f| {", "self.window.next().and_then(|w_f| {"), "outside the translator's grammar"),
    ("the signal pulled before the window", sub("        self.window.next().map(|w_f| {\n            let s_f = self.signal.next();\n            s_f.mul_amp(w_f)\n        })",
                                                "        let s_f = self.signal.next();\n        self.window.next().map(|w_f| s_f.add_amp(w_f))"), "outside the translator's grammar"),
    ("an unknown slice method", sub("&self.frames[..self.bin];", "self.frames.get(..self.bin).unwrap();"), ""),
    ("an inclusive range", sub("&self.frames[..self.bin];", "&self.frames[..=self.bin];"), ""),
    ("short-circuit with a panicking operand", sub("if self.bin <= num_frames {\n            // If the hop", "if self.bin <= num_frames && (num_frames - self.bin) / self.hop == 0 {\n            // If the hop"), "short-circuit"),
    ("a wrong return representation", sub("            (remaining_iterations, Some(remaining_iterations))", "            (remaining_iterations, remaining_iterations)"), "representation"),
    ("return in one arm of if/else", sub("if self.hop == 0 {\n                return (core::usize::MAX, None);\n            }", "if self.hop == 0 {\n                return (core::usize::MAX, None);\n            } else {\n                let _x = 0;\n            }"), "control flow"),
    ("usize::MAX as a count", sub("let remaining_iterations = remaining_hop_frames / self.hop + 1;", "let remaining_iterations = core::usize::MAX;"), ""),
    ("an unsafe block", sub("let frames = &self.frames[..self.bin];", "let frames = unsafe { &self.frames[..self.bin] };"), "outside"),
]

UNCHANGED = [
    ("comments and blank lines", lambda s: s.replace("let window = Window::new(self.bin);", "// a comment\n\n            /* another */ let window = Window::new(self.bin);")),
    ("layout", lambda s: s.replace("let remaining_iterations = remaining_hop_frames / self.hop + 1;", "let   remaining_iterations=remaining_hop_frames/self.hop+1 ;")),
    ("doc comments", lambda s: s.replace("/// Constructor for a new `Windower` iterator.", "/// Makes a new `Windower`.")),
    ("a derive more", lambda s: s.replace("#[derive(Clone)]\npub struct Windower", "#[derive(Clone, Debug)]\npub struct Windower")),
]

# accepted, output differs; with --coq: (name, edit, lemma of Signal/WindowGenEquiv.v that must break | None = must still compile)
CHANGED = [
    ("hop test against bin, rest after the bin (seeded C20-mut1)",
     sub("            let frames = &self.frames[..self.bin];\n            let window = Window::new(self.bin);\n            self.frames = if self.hop < num_frames {\n                &self.frames[self.hop..]\n            } else {\n                &[]\n            };",
         "            let (frames, rest) = self.frames.split_at(self.bin);\n            let window = Window::new(self.bin);\n            self.frames = if self.hop < self.bin {\n                &self.frames[self.hop..]\n            } else {\n                rest\n            };"), "Windower_next_eq"),
    ("size_hint `<` for `<=` (seeded C20-mut2)", after(HINT, "if self.bin <= num_frames {", "if num_frames > self.bin {"), "Windower_size_hint_eq"),
    ("size_hint without `+ 1` (defect F2)", sub("remaining_hop_frames / self.hop + 1;", "remaining_hop_frames / self.hop;"), "Windower_size_hint_eq"),
    ("Windower::new trims the input (seeded C20-r2mut3)",
     sub("        Windower {\n            bin: bin,\n            hop: hop,\n            frames: frames,", "        let whole_hops = frames.len() - frames.len() % hop.max(1);\n        Windower {\n            bin: bin,\n            hop: hop,\n            frames: &frames[..whole_hops],"), "Windower_new_eq"),
    ("bin and hop swapped in Windower::new", sub("            bin: bin,\n            hop: hop,", "            bin: hop,\n            hop: bin,"), "Windower_new_eq"),
    ("the chunk taken after the hop", after(NEXT_W, "let frames = &self.frames[..self.bin];", "let frames = &self.frames[self.hop..];"), "Windower_next_eq"),
    ("window of hop frames", sub("Window::new(self.bin)", "Window::new(self.hop)"), "Windower_next_eq"),
    ("window step 1/len", sub("crate::rate(len as f64 - 1.0)", "crate::rate(len as f64)"), "Window_new_eq"),
    ("rate and hz swapped", sub("crate::rate(len as f64 - 1.0).const_hz(1.0)", "crate::rate(1.0).const_hz(len as f64 - 1.0)"), "Window_new_eq"),
    ("the phase stepped twice", sub("let v = W::window(self.phase.next_phase());", "let _p = self.phase.next_phase();\n        let v = W::window(self.phase.next_phase());"), "Window_next_eq"),
    ("the window function applied twice", sub("W::window(self.phase.next_phase())", "W::window(W::window(self.phase.next_phase()))"), "Window_next_eq"),
    ("the signal pulled twice", sub("let s_f = self.signal.next();", "let _skip = self.signal.next();\n            let s_f = self.signal.next();"), "Windowed_next_eq"),
    # harmless: still provable
    ("`>=` for `<=` with the operands swapped", after(NEXT_W, "if self.bin <= num_frames {", "if num_frames >= self.bin {"), None),
    ("num_frames for self.frames.len()", sub("let remaining_hop_frames = self.frames.len() - self.bin;", "let remaining_hop_frames = num_frames - self.bin;"), None),
    ("`1 +` in front", sub("remaining_hop_frames / self.hop + 1;", "1 + remaining_hop_frames / self.hop;"), None),
    ("a temporary more", sub("let window = Window::new(self.bin);", "let b = self.bin;\n            let window = Window::new(b);"), None),
    ("hop test `>` with the operands swapped", sub("self.frames = if self.hop < num_frames {", "self.frames = if num_frames > self.hop {"), None),
    ("if/else in tail position instead of the early return",
     sub("            if self.hop == 0 {\n                return (core::usize::MAX, None);\n            }\n            // Otherwise we can determine exactly how many iterations remain.\n            let remaining_hop_frames = self.frames.len() - self.bin;\n            let remaining_iterations = remaining_hop_frames / self.hop + 1;\n            (remaining_iterations, Some(remaining_iterations))",
         "            if self.hop == 0 {\n                (core::usize::MAX, None)\n            } else {\n                let remaining_hop_frames = self.frames.len() - self.bin;\n                let remaining_iterations = remaining_hop_frames / self.hop + 1;\n                (remaining_iterations, Some(remaining_iterations))\n            }"), None),
]

fail = 0
for name, edit, needle in REJECT:
    try:
        T.translate_text(edit(SRC))
        print(f"FAIL  not rejected: {name}")
        fail += 1
    except T.TranslateError as e:
        if needle and needle not in str(e):
            print(f"FAIL  rejected for another reason: {name}: {e}")
            fail += 1
        elif not str(e).startswith(T.LABEL):
            print(f"FAIL  error not labelled with the file: {name}: {e}")
            fail += 1
        else:
            print(f"ok    rejected: {name}: {str(e)[:120]}")
for name, edit in UNCHANGED:
    s2 = edit(SRC)
    assert s2 != SRC, name
    out, _ = T.translate_text(s2)
    if out != BASE:
        print(f"FAIL  output changed: {name}")
        fail += 1
    else:
        print(f"ok    unchanged: {name}")
outs = {}
for name, edit, lemma in CHANGED:
    try:
        out, _ = T.translate_text(edit(SRC))
        if out == BASE and lemma is not None:
            print(f"FAIL  accepted but ignored: {name}")
            fail += 1
        else:
            outs[name] = out
            print(f"ok    accepted{', output differs' if out != BASE else ', same output'}: {name}")
    except T.TranslateError as e:
        print(f"FAIL  should be accepted: {name}: {e}")
        fail += 1
# evaluation order: the window is pulled before the signal, and the signal only when the window yielded
if re.search(r"Window_next .*\n.*with_wd_window.*\n\s*match t2 with\n\s*\| Some v_w_f =>\n\s*let '\(t3, t4\) := signal_next", BASE):
    print("ok    evaluation order: Window::next bound before the match, Signal::next inside the Some branch")
else:
    print("FAIL  evaluation order probe")
    fail += 1
r = T.sensitivity(SRC)
print(f"sensitivity: {r['sites']} single-token edits, {r['rejected']} rejected, {r['changed']} change the output, {len(r['ignored'])} ignored")
for l in r["ignored"]:
    print("FAIL ", l)
    fail += 1

if COQ:
    VERIF = os.path.dirname(HERE)
    env = dict(os.environ)

    def build():
        p = subprocess.run(["python3", os.path.join(VERIF, "tools", "mk.py"), "theories/Signal/WindowGenEquiv.vo"], cwd=VERIF,
                           capture_output=True, text=True, env=env, timeout=1800)
        m = re.search(r"\(in proof ([\w']+)\)", p.stdout)
        if p.returncode != 0 and not m:
            m2 = re.search(r'File "\./theories/Signal/WindowGenEquiv\.v", line (\d+)', p.stdout)
            if m2:
                src = open(os.path.join(VERIF, "coq", "theories", "Signal", "WindowGenEquiv.v")).read().split("\n")
                for l in range(int(m2.group(1)) - 1, -1, -1):
                    mm = re.match(r"\s*(?:Lemma|Theorem)\s+([\w']+)", src[l])
                    if mm:
                        return False, mm.group(1), p.stdout[-400:]
            return False, None, p.stdout[-400:]
        return p.returncode == 0, (m.group(1) if m else None), p.stdout[-400:]

    try:
        for name, edit, lemma in CHANGED:
            if name not in outs:
                continue
            T.M.write_if_changed(T.OUT, outs[name])
            ok, broke, tail = build()
            if lemma is None:
                if ok:
                    print(f"ok    coq: harmless rewrite still proved equal: {name}")
                else:
                    print(f"FAIL  coq: harmless rewrite breaks {broke}: {name}\n{tail}")
                    fail += 1
            else:
                if not ok and broke == lemma:
                    print(f"ok    coq: breaks {broke}: {name}")
                else:
                    print(f"FAIL  coq: expected {lemma} to break, got ok={ok} broke={broke}: {name}\n{tail}")
                    fail += 1
    finally:
        T.M.write_if_changed(T.OUT, BASE)
        ok, broke, tail = build()
        if not ok:
            print("FAIL  coq: the restored generated model does not build", tail)
            fail += 1
print("FAILED" if fail else "ALL OK")
sys.exit(1 if fail else 0)
