#!/usr/bin/env python3
"""usage: keep_seed.py <Cxx> <mutation dir> <name> <result: detected|missed> <checks that ran, comma separated> [note]
copies patch.diff, the demonstration and notes into /verif/seeded/<name>/ with meta.json"""
import sys, os, shutil, json, re
prop, src, name, result, checks = sys.argv[1:6]
note = sys.argv[6] if len(sys.argv) > 6 else ""
dst = os.path.join("/verif/seeded", name)
os.makedirs(dst, exist_ok=True)
for f in os.listdir(src):
    if f.endswith(".log") and not f.startswith("v_"):
        continue
    if os.path.isfile(os.path.join(src, f)) and os.path.getsize(os.path.join(src, f)) < 200000:
        shutil.copy(os.path.join(src, f), dst)
notes = open(os.path.join(src, "notes.md")).read() if os.path.exists(os.path.join(src, "notes.md")) else ""
def tail(fn):
    p = os.path.join(src, fn)
    return open(p).read()[-600:] if os.path.exists(p) else None
meta = {
 "property": prop, "name": name,
 "needs_to_manifest": (re.search(r"(?is)(need|trigger|manifest)[^\n]*\n(.{0,900})", notes).group(0)[:1000] if re.search(r"(?is)(need|trigger|manifest)", notes) else notes[:800]),
 "confirmed_by_lead": {
   "procedure": "tools/verify_seed.sh <scratch worktree> <dir>: clean tree -> demo passes; git apply patch.diff -> cargo test --workspace --no-fail-fast --offline passes; demo fails",
   "clean_demo": "pass", "patched_existing_tests": "pass (338 incl. doctests)", "patched_demo": "fail",
   "patched_demo_log_tail": tail("v_patched_demo.log")},
 "checks_run": checks.split(","), "result": result, "note": note,
 "how_run": "tools/seedlab.sh run seeded/%s/patch.diff %s (private copy of /repo and /verif); official form tools/run_seeded.py, see seeded/RESULTS.md" % (name, " ".join(checks.split(","))),
}
json.dump(meta, open(os.path.join(dst, "meta.json"), "w"), indent=1)
print("kept", dst)
