#!/usr/bin/env python3
"""usage: run_all.py [tier] [Cxx ...] : runs the registered checks one after another, prints a summary"""
import subprocess, sys, time, json, os
sys.path.insert(0, os.path.join(os.path.dirname(os.path.abspath(__file__)), "..", "lib"))
import registry as R
tier = sys.argv[1] if len(sys.argv) > 1 else "quick"
props = sys.argv[2:] or sorted(R.CHECKS)
for p in props:
    t = time.time()
    r = subprocess.run(["./check.py", p, "--tier", tier], cwd="/verif", capture_output=True, text=True)
    lines = r.stdout.splitlines()
    tag = "OK " if r.returncode == 0 else "FAIL"
    print(f"{tag} {p} {time.time()-t:6.1f}s  " + " | ".join(l for l in lines if l.startswith(("VIOLATION", "KNOWN-FINDING")))[:400], flush=True)
    if r.returncode != 0:
        print("   tail:", " / ".join(lines[-6:])[:1200], flush=True)
