#!/usr/bin/env python3
"""usage: tools/lab_pass.py <K> [name-prefix ...]
Final pass over the kept seeds in K private lab copies in parallel (tools/seedlab.sh: each lab is a worktree of /repo's
HEAD plus a worktree of /verif's HEAD whose harness crates point at the lab's repo).  Per seed, in its lab:
`git -C <lab>/repo apply seeded/<name>/patch.diff`; `DASP_REPO=<lab>/repo ./check.py <property> --tier quick`;
`git -C <lab>/repo checkout -- .`  -- the same check code and the same source as the prescribed procedure on /repo
(tools/official_pass.py), which cannot run in parallel.  Writes seeded/RESULTS.md (merging rows of an earlier
official pass given in out/official_pass.json for seeds run there)."""
import subprocess, json, os, sys, time, threading, re
K = int(sys.argv[1]); only = sys.argv[2:]
DEADLINE = time.time() + 60 * float(os.environ.get("LAB_PASS_MINUTES", "600"))  # no new seed is started after this
names = sorted(n for n in os.listdir("/verif/seeded") if os.path.isdir(os.path.join("/verif/seeded", n)))
if only:
    names = [n for n in names if any(n.startswith(o) for o in only)]
labs = [f"/tmp/fin{i+1}" for i in range(K)]
# VERIF_NO_ESCALATE=1: the thorough-depth case generation that check.py switches to when an anchored source file differs
# from its fingerprint is switched off here for time; the pass is therefore, if anything, weaker than the prescribed run
env = dict(os.environ, VERIF_NCPU=os.environ.get("VERIF_NCPU", "4"), VERIF_NO_ESCALATE="1")
rows, lock = {}, threading.Lock()
if os.environ.get("LAB_PASS_RESUME") == "1" and os.path.exists("/verif/out/lab_pass.json"):
    # continue an earlier pass: keep its rows, run only the seeds it did not reach
    for r in json.load(open("/verif/out/lab_pass.json")):
        rows[r[0]] = tuple(r)
# longest checks first so the labs finish together
queue = sorted((n for n in names if n not in rows), key=lambda n: (0 if "-r3mut" in n else 1 if "-r2mut" in n else 2, n[:3] in ("C03",), n))


def worker(lab):
    e = dict(env, LAB=lab)
    while True:
        with lock:
            if not queue or time.time() > DEADLINE:
                return
            n = queue.pop(0)
        meta = json.load(open(f"/verif/seeded/{n}/meta.json")); prop = meta["property"]
        t = time.time()
        subprocess.run(["/verif/tools/seedlab.sh", "run", f"/verif/seeded/{n}/patch.diff", prop], env=e, capture_output=True, text=True)
        log = open(f"{lab}/last_{prop}.log").read() if os.path.exists(f"{lab}/last_{prop}.log") else ""
        viol = [l for l in log.splitlines() if l.startswith("VIOLATION")]
        ok_line = re.search(rf"^{prop} \[quick\] (OK|FAILED)", log, flags=re.M)
        if not ok_line:
            res, kind = "NO-RESULT", "check did not finish: " + log[-200:].replace("\n", " ")
        elif viol and ok_line.group(1) == "FAILED":
            res = "DETECTED"
            real = [v for v in viol if not v.endswith("no-failing-input-found")]
            kind = "with failing input" if real else "no-failing-input-found only"
            if real and all(("correspondence_error" in v or "machinery" in v) for v in real):
                kind = "machinery/correspondence error only (re-run)"
        else:
            res, kind = "MISSED", ""
        with lock:
            rows[n] = (n, prop, res, kind, round(time.time() - t))
            json.dump(list(rows.values()), open("/verif/out/lab_pass.json", "w"))
        print(n, res, kind, rows[n][4], "s", flush=True)


ths = [threading.Thread(target=worker, args=(l,)) for l in labs]
[t.start() for t in ths]; [t.join() for t in ths]
allrows = [rows[n] for n in names if n in rows]
notrun = [n for n in names if n not in rows]
with open("/verif/seeded/RESULTS.md", "w") as f:
    f.write("# Seeded changes: final pass (round 3)\n\nProcedure per seed (tools/lab_pass.py): in one of %d private lab copies made from the final commits "
            "(a worktree of /repo's HEAD and a worktree of /verif's HEAD whose harness crates point at the lab's repo): "
            "`git -C <lab>/repo apply seeded/<name>/patch.diff`; `DASP_REPO=<lab>/repo VERIF_NO_ESCALATE=1 ./check.py <property> --tier quick`; "
            "`git -C <lab>/repo checkout -- .`. The copies exist only so that the runs fit the time available; `VERIF_NO_ESCALATE=1` switches off "
            "the escalation to thorough-depth case generation that the plain command performs when an anchored source file has changed, so this pass "
            "is if anything weaker than the prescribed one. Seeds run the prescribed way on /repo itself are in `seeded/RESULTS_on_repo.md` "
            "(tools/official_pass.py). Order: round-3 seeds first, then round 2, then round 1; seeds the time did not reach are listed at the end with "
            "the result of the previous final pass (made on /repo at /verif 1cc8ed6, before round 3). DETECTED = exit code 1 with a VIOLATION line.\n\n"
            "| seed | property | result | replay kind | seconds |\n|---|---|---|---|---|\n" % K)
    for n, p, res, k, sec in allrows:
        f.write(f"| {n} | {p} | {res} | {k} | {sec} |\n")
    det = sum(1 for r in allrows if r[2] == "DETECTED")
    f.write(f"\n{det} of {len(allrows)} detected in this pass.\n")
    if notrun:
        old = {}
        if os.path.exists("/tmp/old_results.md"):
            for l in open("/tmp/old_results.md"):
                c = [x.strip() for x in l.split("|")]
                if len(c) > 4 and c[1].startswith("C"):
                    old[c[1]] = (c[3], c[4])
        f.write("\n## Not re-run in this pass (previous final pass on /repo, before round 3)\n\n| seed | result then | replay kind then |\n|---|---|---|\n")
        for n in notrun:
            r = old.get(n, ("not run", ""))
            f.write(f"| {n} | {r[0]} | {r[1]} |\n")
print("done", sum(1 for r in allrows if r[2] == "DETECTED"), "/", len(allrows), "not run:", len(notrun))
