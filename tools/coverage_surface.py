#!/usr/bin/env python3
"""usage: tools/coverage_surface.py <Cxx> [--no-run] [--label NAME] [--exclusions FILE]
Whole-file region coverage of a property's anchored sources (written for C01/C02/C03, whose anchored code is mostly
MACRO-GENERATED: the bodies of the `conversions!` blocks, the `impl_from_sample!` / `impl_frame_for_sample!` tables and
the derived impls are not `fn` items of the source text, so tools/coverage.py and tools/coverage_regions.py -- which
attribute regions to the `fn` items they find by brace matching -- never look at them).

Runs tools/coverage.py first (unless --no-run), then counts EVERY llvm code region of every anchored file (summed
over all monomorphisations and macro expansions), names each never-entered region by
  the enclosing `fn` item, or else the enclosing macro invocation / derive (`conversions!(i8 ..) s to_u8`, `derive@286`),
and classifies it with lib/props/<cxx>_cov_exclusions.json:
  "functions": [{file, fn, reason, owner?}]          a whole fn item (never instantiated or never executed)
  "regions":   [{file, fn, line, reason, owner?}]    one region (line = first line of the region)
  "instances": [{file, pattern, reason, owner?}]     never-run instances (monomorphisations / macro expansions) of an item
                                                     other instances of which did run; pattern = regex on the readable name
  owner = another property whose check is responsible for it (class (b) of the coverage task), absent = unreachable /
  out of scope (class (c)).
Writes out/cov/<Cxx>_surface.json and, under the label, docs/coverage/<Cxx>_regions.json (the summary the check embeds in
its evidence as input_distribution.source_regions_never_entered).  Measurement only; decides nothing."""
import sys, os, re, json, glob, subprocess
HERE = os.path.dirname(os.path.dirname(os.path.abspath(__file__)))
sys.path.insert(0, os.path.join(HERE, "tools"))
import coverage as C  # the sibling tool: anchors(), source_fns(), in_test_mod(), TOOLS, REPO, run()


def export(prop):
    covdir = os.path.join(HERE, "out", "cov", prop)
    prof = os.path.join(covdir, "merged.profdata")
    objs = [p for p in glob.glob(os.path.join(HERE, "harness", "target_cov", "*", prop.lower() + "*"))
            if os.access(p, os.X_OK) and os.path.isfile(p) and not p.endswith(".d")]
    cmd = [os.path.join(C.TOOLS, "llvm-cov"), "export", "-format=text", "-instr-profile", prof]
    for k, o in enumerate(objs):
        cmd += ([o] if k == 0 else ["-object", o])
    e = subprocess.run(cmd, stdout=subprocess.PIPE, stderr=subprocess.PIPE, text=True)
    if e.returncode != 0:
        sys.exit("llvm-cov export failed: " + e.stderr[-500:])
    return json.loads(e.stdout)["data"][0]


BASIC = {"a": "i8", "b": "bool", "c": "char", "d": "f64", "e": "str", "f": "f32", "h": "u8", "i": "isize", "j": "usize", "l": "i32",
         "m": "u32", "n": "i128", "o": "u128", "s": "i16", "t": "u16", "u": "()", "x": "i64", "y": "u64"}


def readable(mangled):
    """best-effort reading of a rustc v0 symbol, for display only: the identifiers in order, basic types of generic
    arguments spelled out (back references, which repeat an earlier path or type, shown as `^`)"""
    m = mangled
    if not m.startswith("_R"):
        return m
    i, out = 2, []
    while i < len(m):
        ch = m[i]
        if ch == "C" and i + 1 < len(m) and m[i + 1] == "s":      # crate root with disambiguator: Cs<base62>_
            j = m.index("_", i)
            i = j + 1
            continue
        if ch == "s" and (m[i - 1] in "NXYIC" or m[i - 1].islower() and m[i - 2] == "N"):  # disambiguator s<base62>_ after a namespace tag
            j = m.find("_", i)
            if j != -1 and j - i <= 6 and all(c.isalnum() for c in m[i + 1:j]):
                i = j + 1
                continue
        if ch.isdigit():
            j = i
            while m[j].isdigit():
                j += 1
            n = int(m[i:j])
            if m[j] == "_":
                j += 1
            out.append(m[j:j + n])
            i = j + n
            continue
        if ch == "B":                                              # back reference B<base62>_
            j = m.index("_", i)
            out.append("^")
            i = j + 1
            continue
        if ch == "K":                                              # const generic: K<type><hex>_
            j = m.index("_", i)
            try:
                out.append("{" + str(int(m[i + 2:j], 16)) + "}")
            except ValueError:
                out.append("{?}")
            i = j + 1
            continue
        if ch == "A":
            out.append("[")
        elif ch in BASIC and (m[i - 1] in "IEAaKB_" or m[i - 1] in BASIC or m[i - 1].isdigit() is False and m[i - 1] in "vtXY") and not m[i - 1].isdigit():
            out.append(BASIC[ch])
        i += 1
    return " ".join(out)


MACRO_RE = re.compile(r"^\s*([a-z_]+!)\s*[\({]\s*([A-Za-z0-9_:]*)")
ARM_RE = re.compile(r"^\s*s\s+(to_[a-z0-9]+)\s*\{")


def enclosing_name(src, line):
    """a name for a region that lies in no `fn` item: nearest preceding macro invocation (+ conversion arm) or derive"""
    arm = None
    for i in range(line - 1, -1, -1):
        l = src[i]
        if arm is None:
            m = ARM_RE.match(l)
            if m:
                arm = m.group(1)
        if re.match(r"\s*#\[derive", l):
            return f"derive@{i + 1}"
        m = MACRO_RE.match(l)
        if m and not l.startswith(" "):
            return f"{m.group(1)}({m.group(2)})" + (f" {arm}" if arm else "") + f"@{i + 1}"
        if re.match(r"^(pub\s+)?(struct|trait|impl|fn|type|mod|use)\b", l) and i + 1 != line:
            return f"item@{i + 1}"
    return "top"


def measure(prop, excl):
    data = export(prop)
    regs = {}
    inst = {}     # file -> first region key of an instance -> {mangled name: execution count}
    for fn in data["functions"]:
        files = fn["filenames"]
        first = None
        for ls, cs, le, ce, cnt, fid, efid, kind in fn["regions"]:
            if kind != 0:
                continue
            f = files[fid]
            if f.startswith(C.REPO):
                d = regs.setdefault(f, {})
                d[(ls, cs, le, ce)] = d.get((ls, cs, le, ce), 0) + cnt
                if first is None:
                    first = (f, ls)
        if first is not None:
            # the same instance exists once per build profile (the crate hash differs): keyed by its readable name
            dd = inst.setdefault(first[0], {}).setdefault(first[1], {})
            nm = readable(fn["name"])
            dd[nm] = dd.get(nm, 0) + fn["count"]
    ex_fn = {(e["file"], e["fn"]): e for e in excl.get("functions", [])}
    ex_rg = {(e["file"], e["fn"], e["line"]): e for e in excl.get("regions", [])}
    out = {"property": prop, "files": {}}
    for rel in [a for a in C.anchors(prop) if a.endswith(".rs")]:
        path = os.path.join(C.REPO, rel)
        if not os.path.exists(path):
            continue
        src = open(path, errors="replace").read().split("\n")
        r = regs.get(path, {})
        tests = C.in_test_mod(path)
        fns = [(n, a, b) for n, a, b in C.source_fns(path) if not any(t0 <= a <= t1 for t0, t1 in tests)]
        rec = {"regions": 0, "entered": 0, "unentered": [], "other_property": [], "excluded": [],
               "never_instantiated": [], "never_instantiated_other_property": [], "never_instantiated_excluded": [],
               "instances": 0, "instances_never_executed": [], "instances_never_executed_other_property": [],
               "instances_never_executed_excluded": []}
        ex_in = [(re.compile(e["pattern"]), e) for e in excl.get("instances", []) if e["file"] == rel]
        # monomorphisations / macro expansions of one source item that were compiled into the harness but never run
        # although OTHER instances of the same item were (the summed region counts hide them)
        for line, names in sorted(inst.get(path, {}).items()):
            if any(t0 <= line <= t1 for t0, t1 in tests):
                continue
            rec["instances"] += len(names)
            if any(c > 0 for c in names.values()):
                for nm, c in sorted(names.items()):
                    if c != 0:
                        continue
                    # rustc's record for "this generic item, never instantiated in its own crate": not an instance
                    if nm.endswith(" ^") and any(len(o.split()) > len(nm.split()) for o in names):
                        continue
                    item = {"line": line, "instance": nm}
                    hit = next((e for rx, e in ex_in if rx.search(nm)), None)
                    if hit:
                        item["reason"] = hit["reason"]
                        if hit.get("owner"):
                            item["owner"] = hit["owner"]
                            rec["instances_never_executed_other_property"].append(item)
                        else:
                            rec["instances_never_executed_excluded"].append(item)
                    else:
                        rec["instances_never_executed"].append(item)

        def owner_of(line):
            best = None
            for n, a, b in fns:
                if a <= line <= b and (best is None or a >= best[1]):
                    best = (n, a, b)
            return best

        for n, a, b in fns:
            tag = f"{n}:{a}"
            if not any(a <= k[0] <= b for k in r):
                e = ex_fn.get((rel, tag)) or ex_fn.get((rel, n))
                item = {"fn": tag}
                if e:
                    item["reason"] = e["reason"]
                    if e.get("owner"):
                        item["owner"] = e["owner"]
                        rec["never_instantiated_other_property"].append(item)
                    else:
                        rec["never_instantiated_excluded"].append(item)
                else:
                    rec["never_instantiated"].append(item)
        for k in sorted(r):
            if any(t0 <= k[0] <= t1 for t0, t1 in tests):
                continue
            rec["regions"] += 1
            if r[k] > 0:
                rec["entered"] += 1
                continue
            o = owner_of(k[0])
            tag = f"{o[0]}:{o[1]}" if o else enclosing_name(src, k[0])
            name = o[0] if o else tag
            e = ex_fn.get((rel, tag)) or ex_fn.get((rel, name)) or ex_rg.get((rel, tag, k[0])) or ex_rg.get((rel, name, k[0]))
            item = {"fn": tag, "at": f"{k[0]}:{k[1]}-{k[2]}:{k[3]}"}
            if e:
                item["reason"] = e["reason"]
                if e.get("owner"):
                    item["owner"] = e["owner"]
                    rec["other_property"].append(item)
                else:
                    rec["excluded"].append(item)
            else:
                rec["unentered"].append(item)
        out["files"][rel] = rec
    return out


def summary(rep):
    rs = list(rep["files"].values())
    return {"regions": sum(r["regions"] for r in rs),
            "entered": sum(r["entered"] for r in rs),
            "never_entered": sum(len(r["unentered"]) + len(r["excluded"]) + len(r["other_property"]) for r in rs),
            "never_entered_in_scope": sum(len(r["unentered"]) for r in rs),
            "never_entered_other_property": sum(len(r["other_property"]) for r in rs),
            "never_entered_excluded": sum(len(r["excluded"]) for r in rs),
            "fns_never_instantiated": sum(len(r["never_instantiated"]) + len(r["never_instantiated_excluded"]) + len(r["never_instantiated_other_property"]) for r in rs),
            "fns_never_instantiated_in_scope": sum(len(r["never_instantiated"]) for r in rs),
            "fns_never_instantiated_other_property": sum(len(r["never_instantiated_other_property"]) for r in rs),
            "fns_never_instantiated_excluded": sum(len(r["never_instantiated_excluded"]) for r in rs),
            "compiled_instances": sum(r["instances"] for r in rs),
            "instances_never_executed_in_scope": sum(len(r["instances_never_executed"]) for r in rs),
            "instances_never_executed_other_property": sum(len(r["instances_never_executed_other_property"]) for r in rs),
            "instances_never_executed_excluded": sum(len(r["instances_never_executed_excluded"]) for r in rs)}


def fmt(u):
    s = u["fn"] + ("@" + u["at"] if "at" in u else "")
    if u.get("owner"):
        s += f" [{u['owner']}]"
    if u.get("reason"):
        s += ": " + u["reason"]
    return s


if __name__ == "__main__":
    args = [a for a in sys.argv[1:] if not a.startswith("--")]
    prop = args[0].upper()
    label = sys.argv[sys.argv.index("--label") + 1] if "--label" in sys.argv else "after"
    exf = sys.argv[sys.argv.index("--exclusions") + 1] if "--exclusions" in sys.argv else os.path.join(HERE, "lib", "props", prop.lower() + "_cov_exclusions.json")
    excl = json.load(open(exf)) if os.path.exists(exf) else {}
    if "--no-run" not in sys.argv:
        C.run(prop, "quick", True)
    rep = measure(prop, excl)
    rep["summary"] = summary(rep)
    json.dump(rep, open(os.path.join(HERE, "out", "cov", prop + "_surface.json"), "w"), indent=1)
    doc = os.path.join(HERE, "docs", "coverage", prop + "_regions.json")
    cur = json.load(open(doc)) if os.path.exists(doc) else {}
    cur[label] = {"summary": rep["summary"]}
    for key in ("unentered", "other_property", "excluded", "never_instantiated", "never_instantiated_other_property", "never_instantiated_excluded"):
        cur[label][key] = {f: [fmt(u) for u in r[key]] for f, r in rep["files"].items() if r[key]}
    cur[label]["instances_never_executed"] = {f: [f"line {u['line']}: {u['instance']}" for u in r["instances_never_executed"][:60]]
                                              for f, r in rep["files"].items() if r["instances_never_executed"]}
    for key in ("instances_never_executed_other_property", "instances_never_executed_excluded"):
        grouped = {}
        for f, r in rep["files"].items():
            for u in r[key]:
                k = (f, u.get("owner", ""), u["reason"])
                grouped[k] = grouped.get(k, 0) + 1
        cur[label][key] = [f"{f}: {n} instance(s)" + (f" [{o}]" if o else "") + f": {why}" for (f, o, why), n in sorted(grouped.items())]
    json.dump(cur, open(doc, "w"), indent=1, sort_keys=True)
    print(json.dumps(rep["summary"], indent=1))
    for f, r in rep["files"].items():
        for u in r["unentered"]:
            print(f"UNENTERED {f} {u['fn']} {u['at']}")
        for n in r["never_instantiated"]:
            print(f"NOT-INSTANTIATED {f} {n['fn']}")
        for u in r["instances_never_executed"][:40]:
            print(f"INSTANCE-NEVER-RUN {f} line {u['line']}: {u['instance']}")
