#!/usr/bin/env python3
"""Final pass over every kept seed the prescribed way: git -C /repo apply <patch>; ./check.py <id> --tier quick;
git -C /repo checkout -- .   Writes seeded/RESULTS.md.  Nothing else may use /repo while this runs."""
import subprocess, json, os, glob, time, sys
rows = []
names = sorted(os.listdir("/verif/seeded"))
names = [n for n in names if os.path.isdir(os.path.join("/verif/seeded", n))]
only = sys.argv[1:]
for n in names:
    if only and not any(n.startswith(o) for o in only):
        continue
    d = os.path.join("/verif/seeded", n)
    meta = json.load(open(os.path.join(d, "meta.json")))
    prop = meta["property"]
    assert subprocess.run(["git", "-C", "/repo", "status", "--porcelain", "--untracked-files=no"], capture_output=True, text=True).stdout.strip() == "", "/repo not clean"
    t = time.time()
    ap = subprocess.run(["git", "-C", "/repo", "apply", os.path.join(d, "patch.diff")], capture_output=True, text=True)
    if ap.returncode != 0:
        rows.append((n, prop, "PATCH-DOES-NOT-APPLY", "", 0)); continue
    try:
        r = subprocess.run(["./check.py", prop, "--tier", "quick"], cwd="/verif", capture_output=True, text=True)
    finally:
        subprocess.run(["git", "-C", "/repo", "checkout", "--", "."], check=True)
    viol = [l for l in r.stdout.splitlines() if l.startswith("VIOLATION")]
    res = "DETECTED" if r.returncode != 0 and viol else "MISSED"
    kinds = "no-failing-input-found only" if viol and all(v.endswith("no-failing-input-found") for v in viol) else ("with failing input" if viol else "")
    rows.append((n, prop, res, kinds, round(time.time() - t)))
    print(n, res, kinds, rows[-1][4], "s", flush=True)
    json.dump(rows, open("/verif/out/official_pass.json", "w"))
with open("/verif/seeded/RESULTS_on_repo.md", "w") as f:
    f.write("# Seeded changes: final pass\n\nProcedure per seed: `git -C /repo apply seeded/<name>/patch.diff`; `./check.py <property> --tier quick`; "
            "`git -C /repo checkout -- .` (tools/official_pass.py). DETECTED = exit code 1 with a VIOLATION line.\n\n"
            "| seed | property | result | replay kind | seconds |\n|---|---|---|---|---|\n")
    for n, p, res, k, s in rows:
        f.write(f"| {n} | {p} | {res} | {k} | {s} |\n")
    det = sum(1 for r in rows if r[2] == "DETECTED")
    f.write(f"\n{det} of {len(rows)} detected.\n")
print("done")
