#!/bin/bash
# usage: tools/devlab.sh <name>   -- a private development lab for one strengthening task:
#   /tmp/dev/<name>/repo   detached worktree of /repo HEAD (patches may be applied here, never in /repo)
#   /tmp/dev/<name>/verif  worktree of /verif on a new branch r3-<name>; harness Cargo.toml files point at the lab's repo
#                          and are marked assume-unchanged so that `git add -A` never commits the rewritten paths
# run checks there with:  cd /tmp/dev/<name>/verif && DASP_REPO=/tmp/dev/<name>/repo ./check.py Cxx
set -e
n=$1; L=/tmp/dev/$n
mkdir -p $L
git -C /repo worktree add -q --detach $L/repo HEAD
git -C /verif worktree add -q -b r3-$n $L/verif HEAD
cd $L/verif
for c in harness harness_nostd harness_rms_only harness_nightly_nostd; do
  [ -f $c/Cargo.toml ] && sed -i "s#\"/repo/#\"$L/repo/#g" $c/Cargo.toml && git update-index --assume-unchanged $c/Cargo.toml
done
echo "lab ready: $L (run ./setup.sh there with DASP_REPO=$L/repo)"
