#!/usr/bin/env python3
"""usage: tools/coverage.py <Cxx> [<Cxx> ...] [--tier quick|thorough] [--keep]
Measures which parts of /repo's source the correspondence check of a property actually executes.

It runs `check.py Cxx` in coverage mode (VERIF_COV=1: the dev-profile harness is built with the nightly toolchain and
`-C instrument-coverage`; evidence of that run goes to out/cov_evidence/, never to evidence/), merges the profiles with
llvm-profdata, exports with llvm-cov and reports, for every source file the property is anchored in:
  * functions (source `fn` items) that were compiled into the harness but never executed,
  * functions that were never even instantiated by the harness (generic / macro code nobody calls),
  * executed functions that still contain regions with count 0 (branches never taken), with their lines.
This is a measurement that guides generator work (every seeded change that was missed so far was missed because the
correspondence did not reach the changed code); it decides nothing and is not part of any registered check.
Writes docs/coverage/<Cxx>.md and out/cov/<Cxx>.json."""
import sys, os, re, json, glob, subprocess, shutil
HERE = os.path.dirname(os.path.dirname(os.path.abspath(__file__)))
REPO = os.environ.get("DASP_REPO", "/repo")
TOOLS = glob.glob(os.path.expanduser("~/.rustup/toolchains/nightly-x86_64-unknown-linux-gnu/lib/rustlib/*/bin"))[0]


def sh(cmd, **kw):
    return subprocess.run(cmd, stdout=subprocess.PIPE, stderr=subprocess.STDOUT, text=True, **kw)


def anchors(prop):
    for l in open(os.path.join(HERE, "properties.jsonl")):
        p = json.loads(l)
        if p["id"] == prop:
            return p["anchors"]["files"]
    return []


FN_RE = re.compile(r"^\s*(?:pub(?:\([a-z]+\))?\s+)?(?:const\s+)?(?:unsafe\s+)?fn\s+([A-Za-z0-9_$]+)")


def source_fns(path):
    """(name, first line, last line) of every fn item with a body, by brace matching (good enough for this code base)"""
    src = open(path, errors="replace").read().split("\n")
    out = []
    i = 0
    while i < len(src):
        m = FN_RE.match(src[i])
        if m:
            depth, j, seen = 0, i, False
            body = True
            while j < len(src):
                line = re.sub(r"//.*$", "", src[j])
                if not seen and ";" in line and "{" not in line.split(";")[0] and depth == 0:
                    body = False
                    break
                for ch in line:
                    if ch == "{":
                        depth += 1
                        seen = True
                    elif ch == "}":
                        depth -= 1
                if seen and depth <= 0:
                    break
                j += 1
            if body:
                out.append((m.group(1), i + 1, j + 1))
        i += 1
    return out


def in_test_mod(path):
    """line ranges of #[cfg(test)] / #[test] items (excluded from the report)"""
    src = open(path, errors="replace").read().split("\n")
    rng = []
    for i, l in enumerate(src):
        if re.match(r"\s*#\[(cfg\(test\)|test)\]", l):
            depth, j, seen = 0, i + 1, False
            while j < len(src):
                for ch in src[j]:
                    if ch == "{":
                        depth += 1
                        seen = True
                    elif ch == "}":
                        depth -= 1
                if seen and depth <= 0:
                    break
                j += 1
            rng.append((i + 1, j + 1))
    return rng


def run(prop, tier, keep):
    covdir = os.path.join(HERE, "out", "cov", prop)
    shutil.rmtree(covdir, ignore_errors=True)
    os.makedirs(covdir, exist_ok=True)
    env = dict(os.environ, VERIF_COV="1", VERIF_COV_TAG=prop, VERIF_NO_ESCALATE="1")
    r = sh([os.path.join(HERE, "check.py"), prop, "--tier", tier], env=env, cwd=HERE)
    open(os.path.join(covdir, "check.log"), "w").write(r.stdout)
    tail = r.stdout.strip().split("\n")[-1] if r.stdout.strip() else ""
    raws = glob.glob(os.path.join(covdir, "*.profraw"))
    if not raws:
        print(f"{prop}: no profiles written ({tail})")
        return None
    prof = os.path.join(covdir, "merged.profdata")
    lst = os.path.join(covdir, "raws.txt")
    open(lst, "w").write("\n".join(raws))
    m = sh([os.path.join(TOOLS, "llvm-profdata"), "merge", "-sparse", "-f", lst, "-o", prof])
    if m.returncode != 0:
        print(prop, "profdata merge failed", m.stdout[-500:])
        return None
    objs = [p for p in glob.glob(os.path.join(HERE, "harness", "target_cov", "*", prop.lower() + "*"))
            if os.access(p, os.X_OK) and os.path.isfile(p) and not p.endswith(".d")]
    if not objs:
        # the property drives another property's binary (C05 uses the C04 signal runner): take every harness binary
        objs = [p for p in glob.glob(os.path.join(HERE, "harness", "target_cov", "*", "c[0-9][0-9]*"))
                if os.access(p, os.X_OK) and os.path.isfile(p) and not p.endswith(".d")]
    cmd = [os.path.join(TOOLS, "llvm-cov"), "export", "-format=text", "-instr-profile", prof]
    for k, o in enumerate(objs):
        cmd += ([o] if k == 0 else ["-object", o])
    e = subprocess.run(cmd, stdout=subprocess.PIPE, stderr=subprocess.PIPE, text=True)
    if e.returncode != 0:
        print(prop, "llvm-cov export failed", e.stderr[-500:])
        return None
    data = json.loads(e.stdout)["data"][0]
    if not keep:
        for f in raws:
            os.remove(f)
    # per source location: sum of counts over all instantiations
    fnrec = {}
    for fn in data["functions"]:
        files = fn["filenames"]
        for reg in fn["regions"]:
            # [ls, cs, le, ce, count, fileid, expfileid, kind]
            ls, cs, le, ce, cnt, fid, efid, kind = reg
            if kind != 0:
                continue
            f = files[fid]
            if not f.startswith(REPO):
                continue
            d = fnrec.setdefault(f, {})
            key = (ls, cs, le, ce)
            d[key] = d.get(key, 0) + cnt
    report = {"property": prop, "tier": tier, "check_tail": tail, "files": {}}
    for rel in anchors(prop):
        path = os.path.join(REPO, rel)
        if not os.path.exists(path):
            continue
        regs = fnrec.get(path, {})
        tests = in_test_mod(path)
        never_inst, never_run, partial, executed = [], [], [], 0
        for name, a, b in source_fns(path):
            if any(t0 <= a <= t1 for t0, t1 in tests):
                continue
            inside = {k: c for k, c in regs.items() if a <= k[0] <= b}
            if not inside:
                never_inst.append(f"{name}:{a}")
            elif all(c == 0 for c in inside.values()):
                never_run.append(f"{name}:{a}")
            else:
                executed += 1
                zero = sorted({k[0] for k, c in inside.items() if c == 0})
                if zero:
                    partial.append(f"{name}:{a} (regions never entered at lines {','.join(map(str, zero[:8]))})")
        report["files"][rel] = {"functions_executed": executed, "compiled_never_executed": never_run,
                                "never_instantiated": never_inst, "executed_with_unentered_regions": partial}
    json.dump(report, open(os.path.join(HERE, "out", "cov", prop + ".json"), "w"), indent=1)
    os.makedirs(os.path.join(HERE, "docs", "coverage"), exist_ok=True)
    with open(os.path.join(HERE, "docs", "coverage", prop + ".md"), "w") as f:
        f.write(f"# {prop}: source regions reached by the correspondence ({tier} tier)\n\n")
        f.write("Measured by tools/coverage.py (llvm source-based coverage of the dev-profile harness; counts summed over all "
                "monomorphisations). `never instantiated` = no machine code for that function exists in the harness binary.\n\n")
        for rel, r in report["files"].items():
            f.write(f"## {rel}\n\nexecuted functions: {r['functions_executed']}\n\n")
            for k in ("compiled_never_executed", "never_instantiated", "executed_with_unentered_regions"):
                f.write(f"* {k.replace('_', ' ')} ({len(r[k])}): " + ("; ".join(r[k]) if r[k] else "none") + "\n")
            f.write("\n")
    tot = {k: sum(len(r[k]) for r in report["files"].values()) for k in
           ("compiled_never_executed", "never_instantiated", "executed_with_unentered_regions")}
    print(f"{prop}: executed fns {sum(r['functions_executed'] for r in report['files'].values())}, {tot}  [{tail}]")
    return report


if __name__ == "__main__":
    args = [a for a in sys.argv[1:] if not a.startswith("--")]
    tier = "thorough" if "--tier=thorough" in sys.argv or ("--tier" in sys.argv and "thorough" in sys.argv) else "quick"
    args = [a for a in args if a not in ("quick", "thorough")]
    for p in args:
        run(p.upper(), tier, "--keep" in sys.argv)
