#!/usr/bin/env python3
"""Mutation test of the C06 translator tie (one-off experiment, not part of the check).
For every single-token edit of a method body of dasp_ring_buffer/src/lib.rs out of the family of
translate/ring2coq.py `sensitivity` (operator -> neighbouring operator, integer literal + 1,
self.start <-> self.len) the edited source is translated and gen/RingGen.v + Ring/RingGenGlue.v +
Ring/RingGenEquiv.v are compiled in a scratch directory against the worktree's compiled theories.
Outcome per mutant: rejected by the translator / generated model ill-typed / equivalence lemma X breaks /
SURVIVED (the edited source is still provably equal to the hand model: an equivalent mutant, or a gap).
usage: tools/ring_mutants.py [lib.rs] [-j N]      (needs `tools/mk.py all` done)
       tools/ring_mutants.py --tie file.rs         only: does THIS source pass translator + equivalence + 64-bit lemmas?"""
import os, sys, re, shutil, subprocess, tempfile
from concurrent.futures import ThreadPoolExecutor
HERE = os.path.dirname(os.path.abspath(__file__))
VERIF = os.path.dirname(HERE)
sys.path.insert(0, os.path.join(VERIF, "translate"))
import ring2coq as T  # noqa: E402

args = [a for a in sys.argv[1:]]
jobs = 8
if "-j" in args:
    jobs = int(args[args.index("-j") + 1])
    del args[args.index("-j"):args.index("-j") + 2]
SRC_PATH = args[0] if args and args[0] != "--tie" else T.DEFAULT_SRC
SRC = open(SRC_PATH).read()
COQ = os.path.join(VERIF, "coq")
FLAGS = ["-w", "-notation-overridden,-deprecated-hint-without-locality,-deprecated-instance-without-locality,-ambiguous-paths"]


def sites():
    out = []
    for owner, trait, f in T.parse_file(SRC):
        toks = f["body_toks"]
        for j, t in enumerate(toks):
            if t.k == "op" and t.t in T.MUT_OPS:
                out.append((t, T.MUT_OPS[t.t], f"{owner}::{f['name']}"))
            elif t.k == "int":
                out.append((t, str(int(t.t.replace("_", "").replace("usize", "")) + 1), f"{owner}::{f['name']}"))
            elif t.k == "id" and t.t in T.MUT_FIELDS and j >= 2 and toks[j - 1].t == "." and toks[j - 2].t in ("self", "bounded") \
                    and not (j + 1 < len(toks) and toks[j + 1].t == "("):
                out.append((t, T.MUT_FIELDS[t.t], f"{owner}::{f['name']}"))
    return out


def run(site):
    t, new, where = site
    label = f"lib.rs:{t.line} {where}: `{t.t}` -> `{new}`"
    mutated = SRC[:t.pos] + new + SRC[t.pos + len(t.t):]
    try:
        text, _ = T.translate_text(mutated)
    except T.TranslateError as e:
        return label, "rejected by the translator: " + str(e)[:120]
    d = tempfile.mkdtemp(prefix="ringmut_")
    try:
        os.makedirs(os.path.join(d, "gen"))
        os.makedirs(os.path.join(d, "t"))
        open(os.path.join(d, "gen", "RingGen.v"), "w").write(text)
        shutil.copy(os.path.join(COQ, "theories", "Ring", "RingGenGlue.v"), os.path.join(d, "t", "RingGenGlue.v"))
        eq = open(os.path.join(COQ, "theories", "Ring", "RingGenEquiv.v")).read()
        assert "Ring.RingPrim Ring.RingGenGlue." in eq
        eq = eq.replace("Ring.RingPrim Ring.RingGenGlue.", "Ring.RingPrim.\nFrom DaspMut Require Import RingGenGlue.")
        open(os.path.join(d, "t", "RingGenEquiv.v"), "w").write(eq)
        base = ["coqc", "-noglob", "-Q", os.path.join(COQ, "theories"), "Dasp", "-Q", os.path.join(d, "gen"), "DaspGen",
                "-Q", os.path.join(d, "t"), "DaspMut"] + FLAGS
        for rel, what in (("gen/RingGen.v", "generated model ill-typed"), ("t/RingGenGlue.v", "glue ill-typed"),
                          ("t/RingGenEquiv.v", "equivalence breaks")):
            p = subprocess.run(["timeout", "600"] + base + [os.path.join(d, rel)], stdout=subprocess.PIPE, stderr=subprocess.STDOUT, text=True, cwd=d)
            if p.returncode != 0:
                m = re.search(r"\(in proof ([\w']+)\)", p.stdout)
                lemma = m.group(1) if m else None
                if lemma is None:
                    mm = re.search(r'line (\d+), characters', p.stdout)
                    if mm:
                        lines = open(os.path.join(d, rel)).read().split("\n")
                        for l in range(min(int(mm.group(1)), len(lines)) - 1, -1, -1):
                            m2 = re.match(r"\s*(?:Lemma|Theorem|Definition)\s+([\w']+)", lines[l])
                            if m2:
                                lemma = m2.group(1)
                                break
                return label, f"{what}: {lemma}" + (" (timeout)" if p.returncode == 124 else "")
        return label, "SURVIVED"
    finally:
        shutil.rmtree(d, ignore_errors=True)


def tie(path):
    """translator + gen/RingGen(Ck).v + Glue + Equiv + CkEquiv for one source file, in a scratch directory"""
    src = open(path).read()
    try:
        text, _ = T.translate_text(src)
        text_ck, _ = T.translate_text(src, checked=True)
    except T.TranslateError as e:
        return "rejected by the translator: " + str(e)
    d = tempfile.mkdtemp(prefix="ringtie_")
    try:
        os.makedirs(os.path.join(d, "gen"))
        os.makedirs(os.path.join(d, "t"))
        open(os.path.join(d, "gen", "RingGen.v"), "w").write(text)
        open(os.path.join(d, "gen", "RingGenCk.v"), "w").write(text_ck)
        shutil.copy(os.path.join(COQ, "theories", "Ring", "RingGenGlue.v"), os.path.join(d, "t", "RingGenGlue.v"))
        eq = open(os.path.join(COQ, "theories", "Ring", "RingGenEquiv.v")).read()
        eq = eq.replace("Ring.RingPrim Ring.RingGenGlue.", "Ring.RingPrim.\nFrom DaspMut Require Import RingGenGlue.")
        open(os.path.join(d, "t", "RingGenEquiv.v"), "w").write(eq)
        ck = open(os.path.join(COQ, "theories", "Ring", "RingGenCkEquiv.v")).read()
        assert "Ring.RingPrim Ring.RingGenGlue Ring.RingGenEquiv." in ck
        ck = ck.replace("Ring.RingPrim Ring.RingGenGlue Ring.RingGenEquiv.", "Ring.RingPrim.\nFrom DaspMut Require Import RingGenGlue RingGenEquiv.")
        open(os.path.join(d, "t", "RingGenCkEquiv.v"), "w").write(ck)
        base = ["coqc", "-noglob", "-Q", os.path.join(COQ, "theories"), "Dasp", "-Q", os.path.join(d, "gen"), "DaspGen",
                "-Q", os.path.join(d, "t"), "DaspMut"] + FLAGS
        out = []
        for rel in ("gen/RingGen.v", "gen/RingGenCk.v", "t/RingGenGlue.v", "t/RingGenEquiv.v", "t/RingGenCkEquiv.v"):
            p = subprocess.run(["timeout", "600"] + base + [os.path.join(d, rel)], stdout=subprocess.PIPE, stderr=subprocess.STDOUT, text=True, cwd=d)
            if p.returncode != 0:
                m = re.search(r"\(in proof ([\w']+)\)", p.stdout)
                return f"{rel} breaks" + (f" at lemma {m.group(1)}" if m else ": " + " ".join(p.stdout.split())[-300:])
        return "PASSES (translator, equivalence, 64-bit lemmas)"
    finally:
        shutil.rmtree(d, ignore_errors=True)


if args and args[0] == "--tie":
    print(tie(args[1]))
    sys.exit(0)

ss = sites()
with ThreadPoolExecutor(max_workers=jobs) as ex:
    res = list(ex.map(run, ss))
surv = [r for r in res if r[1] == "SURVIVED"]
for label, outcome in res:
    print(f"{outcome:60s} {label}")
print(f"\n{len(res)} mutants: {len(res) - len(surv)} detected, {len(surv)} survived")
