#!/bin/bash
# usage: LAB=/tmp/labN tools/round3.sh <Cxx> [extra checks...]   -- verifies the three round-3 seeds of one property
# (tools/verify_seed.sh in the seeding agent's scratch worktree) and runs the property's check on each in the lab copy.
p=$1; shift
wt=/tmp/seed3/$p
mkdir -p /tmp/seed3/results
for i in 1 2 3; do
  m=$wt/OUT/mut$i
  [ -f $m/patch.diff ] || { echo "$p mut$i: no patch" >> /tmp/seed3/results/$p.txt; continue; }
  v=$(/verif/tools/verify_seed.sh $wt $m 2>&1 | tr '\n' ' ')
  echo "$p mut$i VERIFY: $v" >> /tmp/seed3/results/$p.txt
  r=$(/verif/tools/seedlab.sh run $m/patch.diff $p "$@" 2>&1 | tr '\n' ' ')
  echo "$p mut$i LAB: $r" >> /tmp/seed3/results/$p.txt
done
echo "$p done" >> /tmp/seed3/results/$p.txt
