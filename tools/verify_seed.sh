#!/bin/bash
# usage: verify_seed.sh <scratch worktree of /repo> <mutation dir with patch.diff + run.sh>
# confirms: clean tree -> demo passes; patch applied -> existing tests pass and demo fails.
wt=$1; m=$2
cd $wt || exit 2
git checkout -q -- . 
echo "== clean: demo"; if sh $m/run.sh > $m/v_clean_demo.log 2>&1; then echo "clean demo PASS"; else echo "clean demo FAIL (bad seed)"; fi
git apply $m/patch.diff || { echo "patch does not apply"; exit 2; }
echo "== patched: existing tests"
if cargo test --workspace --no-fail-fast --offline > $m/v_patched_tests.log 2>&1; then echo "patched tests PASS"; else echo "patched tests FAIL (bad seed)"; fi
grep -E "^test result" $m/v_patched_tests.log | awk '{p+=$4; f+=$6} END {print "  passed",p,"failed",f}'
echo "== patched: demo"; if sh $m/run.sh > $m/v_patched_demo.log 2>&1; then echo "patched demo PASS (bad seed)"; else echo "patched demo FAIL (good)"; fi
git checkout -q -- .
git status --short | grep -v "^??" | head
