#!/usr/bin/env python3
"""usage: run_seeded.py <patch.diff> <Cxx> [<Cyy> ...] [--tier quick]
Applies the patch to /repo, runs the given checks, restores /repo. Prints DETECTED / MISSED per check."""
import subprocess, sys, os
args = [a for a in sys.argv[1:] if not a.startswith("--")]
tier = "quick"
for a in sys.argv[1:]:
    if a.startswith("--tier="):
        tier = a.split("=")[1]
patch, props = args[0], args[1:]
assert subprocess.run(["git", "-C", "/repo", "status", "--porcelain", "--untracked-files=no"], capture_output=True, text=True).stdout.strip() == "", "/repo not clean"
subprocess.run(["git", "-C", "/repo", "apply", os.path.abspath(patch)], check=True)
res = {}
try:
    for p in props:
        r = subprocess.run(["./check.py", p, "--tier", tier], cwd="/verif", capture_output=True, text=True)
        viol = [l for l in r.stdout.splitlines() if l.startswith("VIOLATION")]
        res[p] = ("DETECTED" if r.returncode != 0 and viol else "MISSED", viol[:3], r.stdout.splitlines()[-1:] )
finally:
    subprocess.run(["git", "-C", "/repo", "checkout", "--", "."], check=True)
for p, v in res.items():
    print(p, v[0], v[1], v[2])
