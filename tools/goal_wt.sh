#!/bin/bash
# usage: goal_wt.sh theories/X/Y.v LINE  -- like goal.sh but relative to this worktree
here=$(cd "$(dirname "$0")/.." && pwd)
cd $here/coq
f=$1; n=$2
tmp=$(mktemp -d)
base=$(basename $f .v)
head -n $((n-1)) $f > $tmp/${base}_g.v
echo "Show." >> $tmp/${base}_g.v
coqc -noglob -Q theories Dasp -Q props DaspProps $tmp/${base}_g.v 2>&1 | head -${3:-80}
rm -rf $tmp
