#!/usr/bin/env python3
"""usage: tools/coverage_regions.py <Cxx> [--no-run] [--label NAME] [--exclusions FILE]
Region-level companion of tools/coverage.py (which it runs first unless --no-run): counts, per source file of the
property's API surface, the llvm code regions (summed over all monomorphisations) that the quick correspondence never
enters, names them (function, line:col), and applies a list of exclusions (regions no input can reach, with reasons).

Files looked at: the property's anchored files (properties.jsonl) -> the headline number, plus the further source files
listed under "extra_files" in the exclusions file (reported separately).
Writes out/cov/<Cxx>_regions.json and, under the given label, docs/coverage/<Cxx>_regions.json (small summary that the
check embeds in its evidence).  Measurement only; decides nothing."""
import sys, os, json, glob, subprocess
HERE = os.path.dirname(os.path.dirname(os.path.abspath(__file__)))
sys.path.insert(0, os.path.join(HERE, "tools"))
import coverage as C  # the sibling tool (not the PyPI package): anchors(), source_fns(), in_test_mod(), TOOLS, REPO


def export(prop):
    covdir = os.path.join(HERE, "out", "cov", prop)
    prof = os.path.join(covdir, "merged.profdata")
    objs = [p for p in glob.glob(os.path.join(HERE, "harness", "target_cov", "*", prop.lower() + "*"))
            if os.access(p, os.X_OK) and os.path.isfile(p) and not p.endswith(".d")]
    cmd = [os.path.join(C.TOOLS, "llvm-cov"), "export", "-format=text", "-instr-profile", prof]
    for k, o in enumerate(objs):
        cmd += ([o] if k == 0 else ["-object", o])
    e = subprocess.run(cmd, stdout=subprocess.PIPE, stderr=subprocess.PIPE, text=True)
    if e.returncode != 0:
        sys.exit("llvm-cov export failed: " + e.stderr[-500:])
    return json.loads(e.stdout)["data"][0]


def measure(prop, excl):
    data = export(prop)
    regs = {}
    for fn in data["functions"]:
        files = fn["filenames"]
        for ls, cs, le, ce, cnt, fid, efid, kind in fn["regions"]:
            if kind != 0:
                continue
            f = files[fid]
            if f.startswith(C.REPO):
                d = regs.setdefault(f, {})
                d[(ls, cs, le, ce)] = d.get((ls, cs, le, ce), 0) + cnt
    ex_fn = {(e["file"], e["fn"]): e["reason"] for e in excl.get("functions", [])}
    ex_rg = {(e["file"], e["fn"], e["line"]): e["reason"] for e in excl.get("regions", [])}
    out = {"property": prop, "files": {}}
    anchored = [a for a in C.anchors(prop) if a.endswith(".rs")]
    for rel in anchored + [f for f in excl.get("extra_files", []) if f not in anchored]:
        path = os.path.join(C.REPO, rel)
        if not os.path.exists(path):
            continue
        r = regs.get(path, {})
        tests = C.in_test_mod(path)
        rec = {"anchored": rel in anchored, "regions": 0, "unentered": [], "excluded": [], "never_instantiated": [],
               "never_instantiated_excluded": []}
        seen = set()
        outer_end = 0
        for name, a, b in C.source_fns(path):
            if any(t0 <= a <= t1 for t0, t1 in tests):
                continue
            if a <= outer_end:
                continue    # a fn item nested in the previous one: its regions were counted with the enclosing fn
            outer_end = b
            inside = {k: c for k, c in r.items() if a <= k[0] <= b and k not in seen}
            # nested fn items (closures are not fn items) are rare here; a region belongs to the first fn that spans it
            seen |= set(inside)
            tag = f"{name}:{a}"
            if not inside:
                if (rel, name) in ex_fn or (rel, tag) in ex_fn:
                    rec["never_instantiated_excluded"].append({"fn": tag, "reason": ex_fn.get((rel, name)) or ex_fn.get((rel, tag))})
                else:
                    rec["never_instantiated"].append(tag)
                continue
            rec["regions"] += len(inside)
            for k in sorted(inside):
                if inside[k] == 0:
                    why = ex_fn.get((rel, name)) or ex_fn.get((rel, tag)) or ex_rg.get((rel, name, k[0])) or ex_rg.get((rel, tag, k[0]))
                    item = {"fn": tag, "at": f"{k[0]}:{k[1]}-{k[2]}:{k[3]}"}
                    if why:
                        item["reason"] = why
                        rec["excluded"].append(item)
                    else:
                        rec["unentered"].append(item)
        out["files"][rel] = rec
    return out


def summary(rep):
    s = {}
    for scope, pred in (("anchored", lambda r: r["anchored"]), ("extra", lambda r: not r["anchored"])):
        rs = [r for r in rep["files"].values() if pred(r)]
        s[scope] = {"regions": sum(r["regions"] for r in rs),
                    "never_entered": sum(len(r["unentered"]) + len(r["excluded"]) for r in rs),
                    "never_entered_reachable": sum(len(r["unentered"]) for r in rs),
                    "excluded_unreachable": sum(len(r["excluded"]) for r in rs),
                    "fns_never_instantiated": sum(len(r["never_instantiated"]) + len(r["never_instantiated_excluded"]) for r in rs),
                    "fns_never_instantiated_in_scope": sum(len(r["never_instantiated"]) for r in rs)}
    return s


if __name__ == "__main__":
    args = [a for a in sys.argv[1:] if not a.startswith("--")]
    prop = args[0].upper()
    label = sys.argv[sys.argv.index("--label") + 1] if "--label" in sys.argv else "after"
    exf = sys.argv[sys.argv.index("--exclusions") + 1] if "--exclusions" in sys.argv else os.path.join(HERE, "lib", "props", prop.lower() + "_cov_exclusions.json")
    excl = json.load(open(exf)) if os.path.exists(exf) else {}
    if "--no-run" not in sys.argv:
        C.run(prop, "quick", False)
    rep = measure(prop, excl)
    rep["summary"] = summary(rep)
    json.dump(rep, open(os.path.join(HERE, "out", "cov", prop + "_regions.json"), "w"), indent=1)
    doc = os.path.join(HERE, "docs", "coverage", prop + "_regions.json")
    cur = json.load(open(doc)) if os.path.exists(doc) else {}
    cur[label] = {"summary": rep["summary"],
                  "unentered": {f: [f"{u['fn']}@{u['at']}" for u in r["unentered"]] for f, r in rep["files"].items() if r["unentered"]},
                  "excluded": {f: [f"{u['fn']}@{u['at']}: {u['reason']}" for u in r["excluded"]] for f, r in rep["files"].items() if r["excluded"]},
                  "never_instantiated": {f: r["never_instantiated"] for f, r in rep["files"].items() if r["never_instantiated"]},
                  "never_instantiated_excluded": {f: [f"{u['fn']}: {u['reason']}" for u in r["never_instantiated_excluded"]]
                                                  for f, r in rep["files"].items() if r["never_instantiated_excluded"]}}
    json.dump(cur, open(doc, "w"), indent=1, sort_keys=True)
    print(json.dumps(rep["summary"], indent=1))
    for f, r in rep["files"].items():
        for u in r["unentered"]:
            print(f"UNENTERED {f} {u['fn']} {u['at']}")
        for n in r["never_instantiated"]:
            print(f"NOT-INSTANTIATED {f} {n}")
