#!/usr/bin/env python3
"""usage: tools/mk.py [targets relative to coq/ ...]   (default: everything)"""
import sys, os
sys.path.insert(0, os.path.join(os.path.dirname(os.path.abspath(__file__)), "..", "lib"))
import framework as F
ok, log = F.coq_make(sys.argv[1:] or ["all"])
print(log[-6000:])
sys.exit(0 if ok else 1)
