#!/bin/bash
# milestone check (not a registered check): re-checks the compiled property files and everything they depend on with
# Coq's independent checker and prints the axioms they rely on.  usage: tools/coqchk_all.sh [Cxx ...] (default: all 20)
cd "$(dirname "$0")/.."
python3 tools/mk.py all > /dev/null 2>&1 || { echo "coq build failed"; exit 2; }
cd coq
mods=""
if [ $# -eq 0 ]; then set -- $(ls props/*.v | sed 's#props/##; s#\.v##'); fi
for p in "$@"; do mods="$mods DaspProps.$p"; done
mkdir -p ../out
log=../out/coqchk_$(echo "$@" | tr ' ' '_' | cut -c1-40).log
( time coqchk -o -silent -Q theories Dasp -Q gen DaspGen -Q props DaspProps $mods ) > $log 2>&1; rc=$?
tail -60 $log; echo "coqchk exit status: $rc"
