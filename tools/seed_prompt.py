#!/usr/bin/env python3
"""prints the prompt given to a fresh seeding sub-agent for one property (only the property text + a scratch worktree)."""
import json, sys
pid = sys.argv[1]; wt = sys.argv[2]; n = sys.argv[3] if len(sys.argv) > 3 else "2"
avoid = sys.argv[4] if len(sys.argv) > 4 else ""
for l in open('/verif/properties.jsonl'):
    p = json.loads(l)
    if p['id'] == pid:
        break
print(f"""You are testing how well a verification effort detects regressions in the Rust project RustAudio/dasp. You have your own scratch git worktree of the project at {wt} (work ONLY there; never touch /repo or /verif, and do not read anything under /verif). The sandbox is offline: use `cargo ... --offline`; build into the worktree's own target directory (the default `target/` inside {wt}).

Property ({p['id']}): {p['title']}
Statement: {p['statement']}
Quantified over: {p['quantifier']['text']}
Relevant files: {', '.join(p['anchors']['files'])}

Your job: produce {n} DIFFERENT, realistic source changes (each independent, each applied on a clean tree) that BREAK this property while the project still compiles and ALL existing tests still pass (`cargo test --workspace --offline` in the worktree, run it). Prefer changes a plausible refactoring or "optimisation" could introduce, and that need something specific to manifest — a particular multi-step sequence of operations, an unusual input or state (wrap-around, boundary value, specific length or configuration), a particular build configuration, or two cooperating sites that each look fine alone — NOT ones that ordinary use would expose at once or that the existing tests catch. Each change should be small (a few lines).

For each change i (1..{n}) write into {wt}/OUT/mut<i>/:
  - patch.diff : `git diff` of the change against the clean worktree HEAD (must apply with `git apply` on a clean checkout of the same commit)
  - demo.rs (or a test file) + a short run.sh: a demonstration (a small standalone cargo test/program that uses the crates via path dependencies inside the worktree, e.g. an integration test file you add under the relevant crate's tests/ directory ONLY for the demonstration — keep it out of patch.diff) that FAILS with the change applied and PASSES without it
  - notes.md : which clause of the property it breaks, what it needs in order to manifest (the specific sequence / input / configuration), and the exact commands you ran with their observed results (tests passing with the change; demo failing with / passing without).
Verify everything yourself before finishing: clean tree -> demo passes; apply patch -> existing tests pass, demo fails. Leave the worktree's tracked files CLEAN at the end (git checkout -- . ; the OUT directory is untracked and stays). Final message: a short summary of the {n} changes.""" + (("\n\nEarlier people already produced the following changes for this property; produce DIFFERENT ones (other functions, other mechanisms, other triggers), and prefer subtle ones: value-preserving-looking refactorings, changes that only matter for rarely used entry points, formats, sizes, build configurations or call orders:\n" + avoid) if avoid else ""))
