#!/usr/bin/env python3
import json, os, sys
HERE = os.path.dirname(os.path.abspath(__file__))
sys.path.insert(0, os.path.join(HERE, "..", "lib"))
import registry as R
checks = []
for pid in sorted(R.CHECKS):
    c = R.CHECKS[pid]
    checks.append({
        "property_id": pid,
        "quick_cmd": f"./check.py {pid} --tier quick",
        "thorough_cmd": f"./check.py {pid} --tier thorough",
        "evidence_file": f"/verif/evidence/{pid}.json",
        "replay_cmd_template": f"./check.py {pid} --replay {{path}}",
        "engine": "coq-proof+correspondence",
        "level_claimed": {"category": c.get("category", "proof"), "text": c["text"], "design_ref": c["design"]},
        "level_note": c["note"],
        "technique": c["technique"],
    })
na = [{"property_id": p, "reason": r} for p, r in sorted(R.NOT_APPLICABLE.items())]
na += [{"property_id": p, "reason": "not claimed yet: the model/proof/correspondence for this property is still being built (see DESIGN.md section 6); no check is registered until it runs end to end"} for p in R.NOT_YET if p not in R.CHECKS]
m = {
 "version": 1,
 "setup_cmd": "./setup.sh",
 "hooks": {
   "guard": "rustaudio_dasp_verif",
   "enable": "RUSTFLAGS=\"--cfg rustaudio_dasp_verif\" (set by lib/framework.py for every harness build)",
   "baseline_off_cmd": "cd /repo && cargo test --workspace --no-fail-fast --offline",
   "source_commits": getattr(R, "HOOK_COMMITS", []),
   "add_only": True,
 },
 "engines": [{"name": "coq-proof+correspondence", "path": "/verif/check.py", "serves_properties": sorted(R.CHECKS),
              "kind_free_text": "Coq 8.16.1 theorems over hand-written / generated models (coq/), tied to /repo on every run by a translator (translate/) and by a correspondence check that evaluates the model inside coqc on the cases the Rust harness (harness/) ran"}],
 "checks": checks,
 "not_applicable": na,
 "notes": "See DESIGN.md. KNOWN_FINDINGS.json lists repaired defects (fix: commits in /repo) and known findings.",
}
json.dump(m, open(os.path.join(HERE, "..", "MANIFEST.json"), "w"), indent=1)
print("MANIFEST.json:", len(checks), "checks,", len(na), "not claimed")
