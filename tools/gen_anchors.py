#!/usr/bin/env python3
"""Records, per property, a fingerprint of the source files the model was written after (the anchors.files of
properties.jsonl), comments and whitespace stripped.  check.py compares them on every run: a changed source file
does not mean a violation, but it means the hand-written model may be stale, so the check escalates its case
generation to the thorough tier for that run (see DESIGN 11.7)."""
import json, os, sys
sys.path.insert(0, os.path.join(os.path.dirname(os.path.abspath(__file__)), "..", "lib"))
import anchors
out = {}
for l in open(os.path.join(anchors.VERIF, "properties.jsonl")):
    p = json.loads(l)
    out[p["id"]] = {f: anchors.fingerprint(f) for f in p["anchors"]["files"] if f.endswith(".rs")}
json.dump(out, open(os.path.join(anchors.VERIF, "lib", "anchors.json"), "w"), indent=1, sort_keys=True)
print("anchors for", len(out), "properties")
