#!/bin/bash
# Seed lab: a private copy of /repo and of /verif (harness paths rewritten) so that seeded changes can be
# tried without touching /repo while other work is reading it.  usage: seedlab.sh sync | run <patch> <Cxx...>
set -e
LAB=${LAB:-/tmp/lab}
case "$1" in
 sync)
  mkdir -p $LAB
  [ -d $LAB/repo ] || git -C /repo worktree add -q --detach $LAB/repo HEAD
  git -C $LAB/repo checkout -q --detach $(git -C /repo rev-parse HEAD); git -C $LAB/repo checkout -q -- .
  [ -d $LAB/verif ] || git -C /verif worktree add -q --detach $LAB/verif HEAD
  git -C $LAB/verif checkout -q -- . ; git -C $LAB/verif checkout -q --detach $(git -C /verif rev-parse HEAD)
  sed -i "s#\"/repo/#\"$LAB/repo/#g" $LAB/verif/harness/Cargo.toml
  [ -f $LAB/verif/harness_nostd/Cargo.toml ] && sed -i "s#\"/repo/#\"$LAB/repo/#g" $LAB/verif/harness_nostd/Cargo.toml
  [ -f $LAB/verif/harness_rms_only/Cargo.toml ] && sed -i "s#\"/repo/#\"$LAB/repo/#g" $LAB/verif/harness_rms_only/Cargo.toml
  [ -f $LAB/verif/harness_nightly_nostd/Cargo.toml ] && sed -i "s#\"/repo/#\"$LAB/repo/#g" $LAB/verif/harness_nightly_nostd/Cargo.toml
  grep -rl '"/repo' $LAB/verif/lib $LAB/verif/translate 2>/dev/null || true
  (cd $LAB/verif && DASP_REPO=$LAB/repo ./setup.sh | tail -2)
  ;;
 run)
  set +e
  patch=$(realpath $2); shift; shift
  git -C $LAB/repo checkout -q -- .
  git -C $LAB/repo apply $patch
  for p in "$@"; do
    (cd $LAB/verif && DASP_REPO=$LAB/repo ./check.py $p --tier ${TIER:-quick} > $LAB/last_$p.log 2>&1; rc=$?; v=$(grep -c '^VIOLATION' $LAB/last_$p.log || true); \
     if [ $rc -ne 0 ] && [ "$v" -gt 0 ]; then echo "$p DETECTED ($v violation lines): $(grep '^VIOLATION' $LAB/last_$p.log | head -2 | tr '\n' ' ')"; else echo "$p MISSED (rc=$rc): $(tail -2 $LAB/last_$p.log | tr '\n' ' ')"; fi)
  done
  git -C $LAB/repo checkout -q -- .
  ;;
esac
