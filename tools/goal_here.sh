#!/bin/bash
# usage: tools/goal_here.sh theories/X/Y.v LINE [maxlines] -- proof state just before LINE (worktree-relative variant of goal.sh)
cd "$(dirname "$0")/../coq"
f=$1; n=$2
tmp=$(mktemp -d)
base=$(basename $f .v)
head -n $((n-1)) $f > $tmp/${base}_g.v
echo "Show." >> $tmp/${base}_g.v
coqc -noglob -Q theories Dasp -Q gen DaspGen -Q props DaspProps $tmp/${base}_g.v 2>&1 | tail -n ${3:-60}
rm -rf $tmp
