#!/usr/bin/env python3
"""Self-test of translate/typesops2coq.py (no Coq, no cargo; < 1 s): applies textual rewrites to the CURRENT
dasp_sample/src/types.rs in memory and checks that each is either rejected with a TranslateError or changes
exactly the expected generated definitions.  usage: tools/test_typesops.py  (exit 0 = all as expected)"""
import os, re, sys
HERE = os.path.dirname(os.path.abspath(__file__))
sys.path.insert(0, os.path.join(HERE, "..", "translate"))
import typesops2coq as T  # noqa: E402

SRC = open(os.environ.get("DASP_TYPES_RS") or os.path.join(os.environ.get("DASP_REPO", "/repo"), "dasp_sample/src/types.rs")).read()


def defs(text):
    """{name: text of the definition} (comments dropped)"""
    text = re.sub(r"\(\*.*?\*\)", "", text, flags=re.S)
    out = {}
    for m in re.finditer(r"^Definition (\w+)(.*?)(?=^Definition |\Z)", text, re.S | re.M):
        out[m.group(1)] = " ".join(m.group(2).split())
    return out


BASE = defs(T.emit(T.translate_text(SRC)))

# (name, old text, new text, expected: "error" | set of definitions whose body must change)
CASES = [
    ("swap the disjuncts of new", "if val > MAX_REP || val < MIN_REP {", "if val < MIN_REP || val > MAX_REP {", {"g_new"}),
    ("new by offset (can overflow the Rep)", "if val > MAX_REP || val < MIN_REP {", "if val < MIN_REP || val - MIN_REP >= TOTAL {", {"g_new"}),
    ("wrap_overflow_once strict -> non-strict", "if      self.0 > MAX_REP {", "if      self.0 >= MAX_REP {", {"g_wrap_overflow_once"}),
    ("loop subtracts twice", "self.0 -= TOTAL;", "self.0 -= TOTAL; self.0 -= TOTAL;", {"g_wrap_overflow"}),
    ("loop condition >= ", "while self.0 > MAX_REP {", "while self.0 >= MAX_REP {", {"g_wrap_overflow"}),
    ("From<Rep> wraps once", "$T(val).wrap_overflow()", "$T(val).wrap_overflow_once()", {"g_from_rep"}),
    ("Add: full wrap", "$T(self.0 + other.0).wrap_overflow_once()", "$T(self.0 + other.0).wrap_overflow()", {"g_add"}),
    ("Sub: operands swapped", "$T(self.0 - other.0).wrap_overflow_once()", "$T(other.0 - self.0).wrap_overflow_once()", {"g_sub"}),
    ("Mul: primitive * in the release branch", "$T::from(self.0.wrapping_mul(other.0))", "$T::from(self.0 * other.0)", {"g_mul"}),
    ("Mul: let + wrapping in debug", "self.0\n                        .checked_mul(other.0)\n                        .and_then($T::new)",
     "$T::new(self.0.wrapping_mul(other.0))", {"g_mul"}),
    ("Neg: no check in debug", "$T::new(-self.0).expect(\"arithmetic operation overflowed\")", "$T(-self.0)", {"g_neg"}),
    ("impl_from arm 2 without cast", "$T(other as $Rep)\n", "$T(other)\n", "error"),
    ("cfg!(test)", "if cfg!(debug_assertions) {\n                    $T::new(-self.0)", "if cfg!(test) {\n                    $T::new(-self.0)", "error"),
    ("assert!", "fn neg(self) -> $T {", "fn neg(self) -> $T { assert!(self != MIN);", "error"),
    ("bit mask", "$T(val).wrap_overflow()", "$T(((val - MIN_REP) & (TOTAL - 1)) + MIN_REP)", "error"),
    ("rem_euclid", "$T(val).wrap_overflow()", "$T((val - MIN_REP).rem_euclid(TOTAL) + MIN_REP)", "error"),
    ("range contains", "if      self.0 > MAX_REP {", "if !(MIN_REP..=MAX_REP).contains(&self.0) && self.0 > MAX_REP {", "error"),
    ("const bound to another argument", "const MAX_REP: $Rep = $MAX;", "const MAX_REP: $Rep = $TOTAL;", {"k_MAX_REP"}),
    ("derive without Ord", "PartialEq, Eq, PartialOrd, Ord, Default", "PartialEq, Eq, Default", "error"),
    ("hand-written PartialOrd", "\n\n        impl_froms!($T: $Rep, $($rest)*);", "\n\n        impl PartialOrd for $T { fn partial_cmp(&self, o: &Self) -> Option<::core::cmp::Ordering> { None } }\n        impl_froms!($T: $Rep, $($rest)*);", "error"),
    ("impl_froms dispatch changed", "impl_from!($T: $Rep from {$U: $URep});\n        impl_froms!", "impl_from!($T: $Rep from $U);\n        impl_froms!", "error"),
    ("new macro", "macro_rules! impl_neg {", "macro_rules! extra { () => {}; }\nmacro_rules! impl_neg {", "error"),
    ("AddAssign impl", "\n\n        impl_froms!($T: $Rep, $($rest)*);", "\n\n        impl ::core::ops::AddAssign<$T> for $T { fn add_assign(&mut self, o: Self) { self.0 += o.0; } }\n        impl_froms!($T: $Rep, $($rest)*);", "error"),
    ("Div body changed (outside C15: listed, not translated)", "$T(self.0 / other.0)", "$T(self.0 / other.0 / 1)", set()),
    ("comment only", "fn wrap_overflow_once(self) -> Self {", "fn wrap_overflow_once(self) -> Self { // a comment\n", set()),
    ("new argument of an invocation", "max: 1023, total: 2048", "max: 1023, total: 4096", {"args_I11"}),
    ("impl_neg!(I20) added", "from: i8, {I11:i16}, i16, u8, {U11:i16}, u16);", "from: i8, {I11:i16}, i16, u8, {U11:i16}, u16);\n    impl_neg!(I20);", {"ops_I20"}),
]

bad = 0
for name, old, new, want in CASES:
    if SRC.count(old) < 1:
        print(f"SKIP  {name}: the text to rewrite is not in the current source")
        continue
    txt = SRC.replace(old, new, 1)
    try:
        got = defs(T.emit(T.translate_text(txt)))
        changed = {k for k in set(BASE) | set(got) if BASE.get(k) != got.get(k)}
        res = changed
    except T.TranslateError as e:
        res = "error"
        msg = str(e)
    ok = res == want
    bad += not ok
    shown = ("TranslateError: " + msg[:110]) if res == "error" else ("changed: " + (", ".join(sorted(res)) or "nothing"))
    print(f"{'ok  ' if ok else 'FAIL'}  {name}: {shown}" + ("" if ok else f"   (expected {want})"))
print(f"{len(CASES)} cases, {bad} unexpected")
sys.exit(1 if bad else 0)
