#!/usr/bin/env python3
"""keeps the verified round-3 seeds (from /tmp/seed3/<Cxx>/OUT/mut<i>, results in /tmp/seed3/results/<Cxx>.txt) under seeded/"""
import os, re, subprocess, sys, json
SLUG = {
 "C01": ["i16-to-u24-shift-in-16-bits", "i24-to-i48-trait-path-numeric-from", "i32-to-u64-negative-branch-lost-shift"],
 "C02": ["f64-to-f32-flushes-subnormals", "debug-range-assert-off-by-one", "u64-to-f32-via-u48"],
 "C03": ["u64-to-f64-recentred-in-float", "zip-map-counts-down", "mul-amp-minus-one-shortcut"],
 "C04": ["nested-offset-folded-by-inherent-method", "delay-counter-u32", "scale-amp-gain-stored-f32"],
 "C05": ["interleaved-mono-fast-path", "delay-countdown-skipped-when-exhausted", "from-interleaved-size-hint-gate"],
 "C06": ["get-mut-guard-off-by-one", "fixed-iter-mut-storage-order", "get-index-sum-before-bounds-check"],
 "C07": ["rms-clamp-branch-collects", "process-sorts-inputs", "array-from-iter-via-vec"],
 "C08": ["end-of-source-short-circuit", "linear-blend-in-sample-domain", "single-pull-when-ratio-le-one"],
 "C09": ["take-while-stops-at-self-loop", "inputs-cleared-only-with-incoming", "alias-guard-by-buffer-pointer"],
 "C10": ["zip-map-in-place-loses-length-check", "boxed-to-direction-copies", "unity-gain-shortcut"],
 "C11": ["clamp-as-deficit-negative-zero", "f32-reciprocal-mean", "nostd-sqrt-zero-below-epsilon"],
 "C12": ["push-masks-even-capacity", "by-ref-drains-full-queue-on-resplit", "lead-change-frame-not-queued"],
 "C13": ["drop-trims-wrong-end", "exhausted-source-short-circuit", "sole-output-fast-path-strong-count"],
 "C14": ["buffered-fills-at-construction", "fill-with-keeps-start", "capacity-one-bypass"],
 "C15": ["new-range-test-as-offset", "neg-asserts-not-min", "release-add-wraps-max-side-only"],
 "C16": ["graph-node-swaps-output-buffers", "pass-loops-all-inputs", "delay-block-fast-path-set-first"],
 "C17": ["phase-wrap-by-i64-cast", "simplex-index-u16", "const-hz-guard-rate-ge-one"],
 "C18": ["sinc-tap-recip", "set-hz-to-hz-drops-whole-step", "running-sum-via-f64"],
 "C19": ["denormal-guard-flush", "calc-gain-zero-branch-removed", "nostd-powf-polynomial"],
 "C20": ["window-phase-per-channel", "chunk-window-in-sample-format", "hann-zero-outside-unit"],
}
for p in (sys.argv[1:] or sorted(SLUG)):
    rf = f"/tmp/seed3/results/{p}.txt"
    if not os.path.exists(rf):
        print(p, "no results yet"); continue
    txt = open(rf).read()
    for i in (1, 2, 3):
        name = f"{p}-r3mut{i}-{SLUG[p][i-1]}"
        if os.path.exists(f"/verif/seeded/{name}/meta.json"):
            continue
        v = re.search(rf"{p} mut{i} VERIFY: (.*)", txt); l = re.search(rf"{p} mut{i} LAB: (.*)", txt)
        if not v or not l:
            print(name, "not processed yet"); continue
        good = "clean demo PASS" in v.group(1) and "patched tests PASS" in v.group(1) and "patched demo FAIL (good)" in v.group(1)
        if not good:
            print(name, "NOT KEPT (verification failed):", v.group(1)[:200]); continue
        res = "detected" if " DETECTED" in l.group(1) else "missed"
        note = "round 3; first run against the checks as they stood: " + res.upper()
        subprocess.run(["python3", "/verif/tools/keep_seed.py", p, f"/tmp/seed3/{p}/OUT/mut{i}", name, res, p, note], check=True)
