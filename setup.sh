#!/bin/bash
# Offline build of the whole framework from files on disk: Coq development (full .vo),
# harness binaries against /repo's working tree.
set -e
cd "$(dirname "$0")"
export CARGO_NET_OFFLINE=true
python3 tools/mk.py all > out_setup_coq.log 2>&1 || { mkdir -p out; mv out_setup_coq.log out/; tail -50 out/out_setup_coq.log; exit 1; }
mkdir -p out; mv out_setup_coq.log out/
cd harness
RUSTFLAGS="--cfg rustaudio_dasp_verif" CARGO_TARGET_DIR="$PWD/target" cargo build --offline --quiet --bins 2>&1 | grep -v "^warning\|^ *|\|^ *=\|^ *-->\|^$\|^help\|^ *[0-9]* |" | tail -20 || true
RUSTFLAGS="--cfg rustaudio_dasp_verif" CARGO_TARGET_DIR="$PWD/target" cargo build --offline --quiet --bins --release 2>&1 | grep -v "^warning\|^ *|\|^ *=\|^ *-->\|^$\|^help\|^ *[0-9]* |" | tail -20 || true
test -x target/debug/c06
cd ../harness_nostd
RUSTFLAGS="--cfg rustaudio_dasp_verif" CARGO_TARGET_DIR="$PWD/target" cargo build --offline --quiet --bins 2>&1 | grep -E "^error" -A8 | tail -20 || true
cd ../harness_rms_only
RUSTFLAGS="--cfg rustaudio_dasp_verif" CARGO_TARGET_DIR="$PWD/target" cargo build --offline --quiet --bin c11r 2>&1 | grep -E "^error" -A8 | tail -20 || true
cd ../harness_nightly_nostd
RUSTFLAGS="--cfg rustaudio_dasp_verif" CARGO_TARGET_DIR="$PWD/target" cargo +nightly build --offline --quiet --bins 2>&1 | grep -E "^error" -A8 | tail -20 || true
echo "setup ok"
