#!/bin/bash
# Offline build of the whole framework from files on disk: Coq development (full .vo),
# harness binaries against /repo's working tree.
set -e
cd "$(dirname "$0")"
export CARGO_NET_OFFLINE=true
# start the Coq build from nothing: a copy of this directory taken while a build was running can contain a truncated
# dependency file or .vo (that made one `vp check` fail); a cold build is about a minute
rm -f coq/.Makefile.coq.d coq/Makefile.coq coq/Makefile.coq.conf coq/_CoqProject
find coq \( -name '*.vo' -o -name '*.vok' -o -name '*.vos' -o -name '*.glob' -o -name '*.aux' \) -delete
python3 tools/mk.py all > out_setup_coq.log 2>&1 || { mkdir -p out; mv out_setup_coq.log out/; tail -50 out/out_setup_coq.log; exit 1; }
mkdir -p out; mv out_setup_coq.log out/
cd harness
RUSTFLAGS="--cfg rustaudio_dasp_verif" CARGO_TARGET_DIR="$PWD/target" cargo build --offline --quiet --bins 2>&1 | grep -v "^warning\|^ *|\|^ *=\|^ *-->\|^$\|^help\|^ *[0-9]* |" | tail -20 || true
RUSTFLAGS="--cfg rustaudio_dasp_verif" CARGO_TARGET_DIR="$PWD/target" cargo build --offline --quiet --bins --release 2>&1 | grep -v "^warning\|^ *|\|^ *=\|^ *-->\|^$\|^help\|^ *[0-9]* |" | tail -20 || true
test -x target/debug/c06
cd ../harness_nostd
RUSTFLAGS="--cfg rustaudio_dasp_verif" CARGO_TARGET_DIR="$PWD/target" cargo build --offline --quiet --bins 2>&1 | grep -E "^error" -A8 | tail -20 || true
cd ../harness_rms_only
RUSTFLAGS="--cfg rustaudio_dasp_verif" CARGO_TARGET_DIR="$PWD/target" cargo build --offline --quiet --bin c11r 2>&1 | grep -E "^error" -A8 | tail -20 || true
cd ../harness_nightly_nostd
RUSTFLAGS="--cfg rustaudio_dasp_verif" CARGO_TARGET_DIR="$PWD/target" cargo +nightly build --offline --quiet --bins 2>&1 | grep -E "^error" -A8 | tail -20 || true
echo "setup ok"
