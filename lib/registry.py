"""Per-property registry used to generate MANIFEST.json (tools/gen_manifest.py)."""
CHECKS = {
 "C06": dict(
   technique="Coq refinement proof (model -> ideal bounded queue / delay line) + coqc-evaluated model vs crate correspondence",
   text="Machine-checked (Coq 8.16.1) refinement of a model of Bounded/Fixed, written after the source with the same index arithmetic, to an ideal capacity-bounded queue and an ideal delay line: every operation from every valid (start,len)/first state of every capacity, hence every history; no UB, no unprescribed panic. The model is tied to the crate by running its executable definitions inside coqc on the same operation sequences (every raw state of small capacities x every operation, random histories) and comparing all observations exactly.",
   note="Trusted: Coq kernel; the hand-written model (Rust slices as lists, usize as nat, mem::replace/ptr::read/write as list updates) validated only through the correspondence; harness + python generators. Axioms: none.",
   design="6/C06"),
}
NOT_APPLICABLE = {}
HOOK_COMMITS = ["a2dc73d", "b47fde1", "332711d"]
NOT_YET = ["C01","C02","C03","C04","C05","C07","C08","C09","C10","C11","C12","C13","C14","C15","C16","C17","C18","C19","C20"]
