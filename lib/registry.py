"""Registry used to generate MANIFEST.json (tools/gen_manifest.py): every lib/props/cXX.py that
defines META is a claimed check; everything else is listed as not claimed with a reason."""
import os, importlib, glob, sys
HERE = os.path.dirname(os.path.abspath(__file__))
sys.path.insert(0, HERE)
ALL = ["C%02d" % i for i in range(1, 21)]
HOOK_COMMITS = ["a2dc73d", "b47fde1", "332711d"]
# properties the technique genuinely cannot decide (none so far; see DESIGN.md section 9)
NOT_APPLICABLE = {}


def checks():
    out = {}
    for f in sorted(glob.glob(os.path.join(HERE, "props", "c[0-9][0-9].py"))):
        name = os.path.basename(f)[:-3]
        mod = importlib.import_module("props." + name)
        if hasattr(mod, "META"):
            out[name.upper()] = mod.META
    return out


CHECKS = checks()
NOT_YET = [p for p in ALL if p not in CHECKS and p not in NOT_APPLICABLE]
