"""Shared case machinery of C04 and C05 (signal adaptor trees): tree generators, the textual
form read by harness/src/bin/c0405.rs, the Coq term read by Signal/SigRun.v, amplitude bound
analysis (so that debug-build overflow panics of add_amp/offset_amp are never generated),
the common check flow.  Owned by the C04/C05 checks."""
import json, os, struct
import framework as F
import floatbase

HEADER = "From Dasp Require Import Signal.SigRun."
CHECK = "check"
BIN = "c0405"

def _f(coq, n, bits, off, flt, sbits=None, fw=32, gen=None):
    return dict(coq=coq, n=n, bits=bits, off=off, flt=flt, sbits=sbits or bits, fw=fw, gen=gen)


# bits/off: the sample type; sbits: width of its Signed companion (U24 -> i32, U48 -> i64: the signed
# amplitude is scaled by 2^(sbits-bits)); fw: width of its Float companion; gen = (SampleFmt code, channels)
# for the instances over the C03 sample model (Signal/SigRunGen.v), None for the five hand instances
FMTS = {
    "i16x2": _f("I16x2", 2, 16, 0, None),
    "u8x3": _f("U8x3", 3, 8, 128, None),
    "i32x1": _f("I32x1", 1, 32, 0, None),
    "f64x1": _f("F64x1", 1, 0, 0, 64, fw=64),
    "f32x2": _f("F32x2", 2, 0, 0, 32),
    "i24x1": _f(None, 1, 24, 0, None, gen=(2, 1)),
    "i24x2": _f(None, 2, 24, 0, None, gen=(2, 2)),
    "u24x1": _f(None, 1, 24, 1 << 23, None, sbits=32, gen=(8, 1)),
    "u24x3": _f(None, 3, 24, 1 << 23, None, sbits=32, gen=(8, 3)),
    "i48x1": _f(None, 1, 48, 0, None, fw=64, gen=(4, 1)),
    "i48x2": _f(None, 2, 48, 0, None, fw=64, gen=(4, 2)),
    "u48x1": _f(None, 1, 48, 1 << 47, None, sbits=64, fw=64, gen=(10, 1)),
    "u48x2": _f(None, 2, 48, 1 << 47, None, sbits=64, fw=64, gen=(10, 2)),
    "i8x2": _f(None, 2, 8, 0, None, gen=(0, 2)),
    "u16x1": _f(None, 1, 16, 1 << 15, None, gen=(7, 1)),
    "u32x2": _f(None, 2, 32, 1 << 31, None, gen=(9, 2)),
    "i64x1": _f(None, 1, 64, 0, None, fw=64, gen=(5, 1)),
    "u64x1": _f(None, 1, 64, 1 << 63, None, fw=64, gen=(11, 1)),
    "u64x2": _f(None, 2, 64, 1 << 63, None, fw=64, gen=(11, 2)),
}
GEN_FMTS = [k for k, v in FMTS.items() if v["gen"]]
HAND_FMTS = [k for k, v in FMTS.items() if not v["gen"]]
HEADER_GEN = "From Dasp Require Import Signal.SigRun Signal.SigRunGen."
CHECK_GEN = "check_gen"
UNARY = ["map", "scale", "offset", "scalepc", "offsetpc", "clip", "inspect"]
BINARY = ["zip", "add", "mul"]


def f32bits(x):
    return struct.unpack("<I", struct.pack("<f", x))[0]


def f64bits(x):
    return struct.unpack("<Q", struct.pack("<d", x))[0]


def fbits(fm, x):
    return f64bits(x) if FMTS[fm]["flt"] == 64 else f32bits(x)


def cbits(fm, x):
    """bits of x in the Float companion format of fm"""
    return f64bits(x) if FMTS[fm]["fw"] == 64 else f32bits(x)


def cval(fm, b):
    return struct.unpack("<d", struct.pack("<Q", b))[0] if FMTS[fm]["fw"] == 64 else struct.unpack("<f", struct.pack("<I", b))[0]


# ---------------------------------------------------------------------------
# text and Coq forms


def text(t):
    k = t[0]
    j = lambda xs: " ".join(str(x) for x in xs)
    if k == "iter":
        return f"iter {t[1]} {len(t[2])} " + j(x for fr in t[2] for x in fr)
    if k == "samp":
        return f"samp {t[1]} {len(t[2])} " + j(t[2])
    if k in ("eq", "arg"):
        return k
    if k == "gen":
        return f"gen {t[1]} " + j(t[2])
    if k == "genmut":
        return f"genmut {t[1]} {t[2]}"
    if k == "map":
        return f"map {t[1]} {t[2]} {t[3]} " + text(t[4])
    if k == "zip":
        return f"zip {t[1]} {t[2]} " + text(t[3]) + " " + text(t[4])
    if k in ("add", "mul"):
        return f"{k} " + text(t[1]) + " " + text(t[2])
    if k in ("scale", "offset", "clip", "inspect", "delay"):
        return f"{k} {t[1]} " + text(t[2])
    if k in ("scalepc", "offsetpc"):
        return f"{k} {j(t[1])} " + text(t[2])
    if k == "ref":
        return f"ref {t[1]}"
    if k == "st":
        # statically typed nesting of the top t[1] levels of t[2]: specs outermost first, the innermost main source,
        # then the second sources of the binary levels, innermost first (= left to right in the tree)
        specs, seconds, cur = [], [], t[2]
        for _ in range(t[1]):
            sp, main, sec = level_spec(cur)
            specs.append(sp)
            seconds.append(sec)
            cur = main
        return (f"st {t[1]} " + " ".join(specs) + " " + text(cur) +
                "".join(" " + text(x) for x in reversed(seconds) if x is not None))
    raise ValueError(k)


def level_spec(t):
    """(spec text, main source, second source or None) of one adaptor level (see harness/src/bin/c0405.rs, `st`)"""
    k = t[0]
    j = lambda xs: " ".join(str(x) for x in xs)
    if k in ("scale", "offset", "clip", "inspect", "delay"):
        return f"{k} {t[1]}", t[2], None
    if k in ("scalepc", "offsetpc"):
        return f"{k} {j(t[1])}", t[2], None
    if k == "map":
        return f"map {t[1]} {t[2]} {t[3]}", t[4], None
    if k in ("add", "mul"):
        return k, t[1], t[2]
    if k == "zip":
        return f"zip {t[1]} {t[2]}", t[3], t[4]
    raise ValueError("not an adaptor level: " + str(k))


def coq(t):
    k = t[0]
    z, zl = F.zlit, F.zlist
    if k == "iter":
        return f"(TIter {z(t[1])} {F.zlistlist(t[2])})"
    if k == "samp":
        return f"(TSamples {z(t[1])} {zl(t[2])})"
    if k == "eq":
        return "TEq"
    if k == "arg":
        return "TArg"
    if k == "gen":
        return f"(TGen {z(t[1])} {zl(t[2])})"
    if k == "genmut":
        return f"(TGenMut {z(t[1])} {z(t[2])})"
    if k == "map":
        return f"(TMap {z(t[1])} {z(t[2])} {z(t[3])} {coq(t[4])})"
    if k == "zip":
        return f"(TZip {z(t[1])} {z(t[2])} {coq(t[3])} {coq(t[4])})"
    if k == "add":
        return f"(TAdd {coq(t[1])} {coq(t[2])})"
    if k == "mul":
        return f"(TMul {coq(t[1])} {coq(t[2])})"
    names = {"scale": "TScale", "offset": "TOffset", "clip": "TClip", "inspect": "TInspect", "delay": "TDelay"}
    if k in names:
        return f"({names[k]} {z(t[1])} {coq(t[2])})"
    if k == "scalepc":
        return f"(TScalePC {zl(t[1])} {coq(t[2])})"
    if k == "offsetpc":
        return f"(TOffsetPC {zl(t[1])} {coq(t[2])})"
    if k == "ref":
        return f"(TRef {z(t[1])})"
    if k == "st":  # the model side is the ordinary nested tree
        return coq(t[2])
    raise ValueError(k)


def op_text(o):
    k = o[0]
    if k == "N":
        return f"N {o[1]} " + text(o[2])
    if k in ("U", "I"):
        return f"{k} {o[1]} {o[2]} " + text(o[3])
    if k == "T":
        return f"T {o[1]} {o[2]} {o[3]} " + text(o[4])
    if k == "L":
        fr = o[2]
        return f"L {o[1]} {len(fr)} " + " ".join(str(x) for f in fr for x in f) + f" {o[3]} {o[4]} " + text(o[5])
    if k == "NC":
        return f"NC {o[1]} {o[2]} " + text(o[3])
    if k == "IT":  # IT kind n pre mode k cap extra tree
        return "IT " + " ".join(str(x) for x in o[1:8]) + " " + text(o[8])
    raise ValueError(k)


def op_coq(o):
    k = o[0]
    z = F.zlit
    if k == "N":
        return f"ONext {z(o[1])} {coq(o[2])}"
    if k == "U":
        return f"OUntil {z(o[1])} {z(o[2])} {coq(o[3])}"
    if k == "I":
        return f"OInter {z(o[1])} {z(o[2])} {coq(o[3])}"
    if k == "T":
        return f"OTake {z(o[1])} {z(o[2])} {z(o[3])} {coq(o[4])}"
    if k == "L":
        return f"OLift {z(o[1])} {F.zlistlist(o[2])} {z(o[3])} {z(o[4])} {coq(o[5])}"
    if k == "NC":
        return f"OSigClone {z(o[1])} {z(o[2])} {coq(o[3])}"
    if k == "IT":
        return "OIter " + " ".join(z(x) for x in o[1:8]) + " " + coq(o[8])
    raise ValueError(k)


def op_tree(o):
    return o[-1]


def build(item, ops=None):
    it = dict(item)
    if ops is not None:
        it["ops"] = ops
    fm = it["fmt"]
    parts = [fm] + ["B " + text(b) for b in it["bases"]] + [op_text(o) for o in it["ops"]]
    it["line"] = " ; ".join(parts)
    g = FMTS[fm]["gen"]
    head = f"GCase {g[0]}%Z {g[1]}%Z" if g else f"ZCase {FMTS[fm]['coq']}"
    it["gen"] = bool(g)
    it["coq"] = (head + " [" + "; ".join(coq(b) for b in it["bases"]) + "] [" +
                 "; ".join(op_coq(o) for o in it["ops"]) + "]")
    return it


# ---------------------------------------------------------------------------
# analyses on trees


def children(t):
    k = t[0]
    if k in ("map",):
        return [t[4]]
    if k == "zip":
        return [t[3], t[4]]
    if k in ("add", "mul"):
        return [t[1], t[2]]
    if k in ("scale", "offset", "clip", "inspect", "delay", "scalepc", "offsetpc", "st"):
        return [t[2]]
    return []


def depth(t, bases=()):
    if t[0] == "ref" and bases:
        return depth(bases[t[1]])
    if t[0] == "st":
        return depth(t[2], bases)
    cs = children(t)
    return 1 + max(depth(c, bases) for c in cs) if cs else 0


def nodes(t, bases=()):
    if t[0] == "ref" and bases:
        yield from nodes(bases[t[1]], bases)
        return
    yield t
    for c in children(t):
        yield from nodes(c, bases)


INF = 10 ** 9


def live(t, fm, bases=(), arg=None):
    """initial number of frames before the signal reports exhaustion (INF = never)"""
    k = t[0]
    if k == "iter":
        return len(t[2])
    if k == "samp":
        return len(t[2]) // FMTS[fm]["n"]
    if k in ("eq", "gen", "genmut"):
        return INF
    if k == "ref":
        return live(bases[t[1]], fm, bases) if bases else INF
    if k == "arg":
        return arg if arg is not None else INF
    if k == "delay":
        l = live(t[2], fm, bases, arg)
        return INF if l >= INF else t[1] + l
    return min(live(c, fm, bases, arg) for c in children(t))


def nontrivial_tree(t, fm, bases=(), arg=None):
    """depth >= 2 and (a delay with k > 0, or a binary node whose two sources have different lengths)"""
    if depth(t, bases) < 2:
        return False
    for nd in nodes(t, bases):
        if nd[0] == "delay" and nd[1] > 0:
            return True
        if nd[0] in BINARY:
            a, b = children(nd)
            if live(a, fm, bases, arg) != live(b, fm, bases, arg):
                return True
    return False


class Overflow(Exception):
    pass


def bound(t, fm, base_bounds=(), arg_bound=0):
    """max |signed amplitude| the integer signal can yield; raises Overflow when an add_amp /
    offset_amp / clip negation could overflow the Signed format (debug builds panic there)"""
    spec = FMTS[fm]
    if spec["flt"]:
        return 0
    mx = (1 << (spec["bits"] - 1)) - 1
    full = mx + 1
    off = spec["off"]
    scale = 1 << (spec["sbits"] - spec["bits"])  # Signed-companion units per unit of own signed amplitude
    su = lambda c: -((-abs(c)) // scale)  # |c| in own units, rounded up
    k = t[0]
    if k == "iter":
        return max([abs(x - off) for fr in t[2] for x in fr] + [0])
    if k == "samp":
        return max([abs(x - off) for x in t[2]] + [0])
    if k == "eq":
        return 0
    if k == "gen":
        return max(abs(x - off) for x in t[2])
    if k == "genmut":
        return max(abs(t[2] - off), abs(t[2] + 6 - off))
    if k == "ref":
        return base_bounds[t[1]]
    if k == "arg":
        return arg_bound
    rec = lambda c: bound(c, fm, base_bounds, arg_bound)
    if k == "st":
        return rec(t[2])
    if k == "map":
        b = rec(t[4])
        if t[2] == 1:
            return b + abs(t[3]) if b + abs(t[3]) <= mx else full
        return b
    if k == "zip":
        a, b = rec(t[3]), rec(t[4])
        if t[2] == 0:  # raw wrapping subtraction: on an unsigned format the raw difference sits at the bottom of the range
            return a + b if (a + b <= mx and off == 0) else full
        return max(a, b)
    if k == "add":
        a, b = rec(t[1]), rec(t[2])
        if a + b > mx:
            raise Overflow()
        return a + b
    if k == "mul":  # second source = to_float_frame of a same-format tree: magnitudes <= 1
        if not spec["gen"]:
            raise Overflow()
        b = rec(t[1])
        rec(t[2])
        return min(full, b + (b >> 20) + 1)
    if k == "offset":
        b = rec(t[2])
        if b + su(t[1]) > mx:
            raise Overflow()
        return b + su(t[1])
    if k == "offsetpc":
        b = rec(t[2])
        c = max(su(x) for x in t[1])
        if b + c > mx:
            raise Overflow()
        return b + c
    if k in ("scale", "scalepc"):
        b = rec(t[2])
        amps = [t[1]] if k == "scale" else t[1]
        vals = [abs(cval(fm, a)) for a in amps]
        if spec["bits"] in (24, 48) and not all(v <= 1.0 for v in vals):
            # a product outside [-1, 1) leaves the 24/48-bit range through new_unchecked (C15's subject):
            # later conversions then overflow in debug builds
            raise Overflow()
        if all(v <= 1.0 for v in vals):
            return min(full, b + (b >> 20) + 1)
        return full
    if k == "clip":
        b = rec(t[2])
        th = t[1]
        if abs(th) > mx * scale:
            raise Overflow()
        return min(b, su(th)) if th >= 0 else su(th)
    if k in ("inspect", "delay"):
        return rec(t[2])
    raise ValueError(k)


def float_cost(t, fm, bases=()):
    """rough number of Flocq operations one next of the tree costs in the model"""
    spec = FMTS[fm]
    c = 0
    for nd in nodes(t, bases):
        k = nd[0]
        if spec["flt"]:
            if k in ("add", "mul", "scale", "offset", "scalepc", "offsetpc", "genmut") or (k == "map" and nd[2] == 1) or (k == "zip" and nd[2] == 0):
                c += spec["n"]
            if k == "clip":
                c += 3 * spec["n"]
        else:
            w = 10 if spec["gen"] else 5  # the generated model is evaluated AND guarded by the specification value
            if k in ("scale", "scalepc", "mul"):
                c += w * spec["n"]
            if k == "map" and nd[2] == 8:
                c += 4 * spec["n"]
    return c


# ---------------------------------------------------------------------------
# generators


class Gen:
    def __init__(self, rng, fm, wide=False, maxlen=40):
        self.r, self.fm, self.spec = rng, fm, FMTS[fm]
        self.wide = wide
        self.maxlen = maxlen
        self.ids = 0
        self.lens = None  # optional explicit pool of source lengths

    def fresh(self):
        self.ids += 1
        return self.ids

    # ---- values
    def sample(self):
        r, s = self.r, self.spec
        if s["flt"]:
            k = r.below(20)
            if k == 0:
                return r.choice([fbits(self.fm, x) for x in (0.0, -0.0, float("inf"), float("-inf"), float("nan"), 1.0, -1.0)])
            if k == 1:
                return r.below(1 << s["flt"])  # any bit pattern
            if k == 2:
                return r.choice([1, (1 << (s["flt"] - 1)) | 1, fbits(self.fm, 0.9999999), fbits(self.fm, 1e30), fbits(self.fm, -1e-30)])
            return fbits(self.fm, r.range(-64, 64) / 32.0)
        mx = (1 << (s["bits"] - 1)) - 1
        if self.wide:
            v = r.choice([-mx - 1, -mx, mx, mx - 1, 0, 1, -1, r.range(-mx - 1, mx), r.range(-mx - 1, mx)])
        else:
            amp = {8: 2, 16: 200, 24: 3000, 32: 1 << 20, 48: 1 << 30, 64: 1 << 40}[s["bits"]]
            v = r.range(-amp, amp)
        return v + s["off"]

    def signed_const(self):
        """a Signed-format constant (offset, clip threshold, per-channel offset)"""
        r, s = self.r, self.spec
        if s["flt"]:
            return self.sample()
        mx = (1 << (s["bits"] - 1)) - 1
        scale = 1 << (s["sbits"] - s["bits"])
        res = r.below(scale) if r.chance(1, 2) else 0  # Signed-companion values between two own steps
        if self.wide:
            return r.choice([0, 1, -1, mx * scale, -mx * scale, r.range(-mx, mx) * scale])
        amp = {8: 1, 16: 100, 24: 1000, 32: 1 << 19, 48: 1 << 29, 64: 1 << 39}[s["bits"]]
        return r.range(-amp, amp - 1) * scale + res

    def thresh(self):
        r, s = self.r, self.spec
        if s["flt"]:
            return r.choice([fbits(self.fm, x) for x in (0.5, 0.25, 1.0, 0.0, 0.75, -0.5, float("inf"), float("nan"))] + [self.sample()])
        mx = (1 << (s["bits"] - 1)) - 1
        scale = 1 << (s["sbits"] - s["bits"])
        amp = {8: 3, 16: 300, 24: 4000, 32: 1 << 21, 48: 1 << 31, 64: 1 << 41}[s["bits"]]
        if self.wide:
            return r.choice([0, 1, mx, mx - 1, -1, -mx, r.range(0, mx)]) * scale
        return r.choice([0, 1, r.range(0, amp) * scale + r.below(scale), r.range(0, amp) * scale, r.range(0, amp) * scale,
                         -r.range(1, amp) * scale])

    def float_const(self):
        """a Float-format constant (scale_amp); f32 for the integer formats"""
        r, s = self.r, self.spec
        if s["flt"]:
            return r.choice([fbits(self.fm, x) for x in (0.5, -1.0, 0.75, 1.5, 2.0, 0.0, -0.25)] + [self.sample()])
        cb = lambda x: cbits(self.fm, x)
        return r.choice([cb(x) for x in (0.5, -0.5, 1.0, 0.25, 0.999, -1.0, 0.3333, 0.75, -0.3333, 0.7, -0.123)] +
                        ([cb(1.5), cb(-2.0), cb(float("nan")), cb(float("inf")), cb(1e10)] if self.wide else []))

    def frame(self):
        return [self.sample() for _ in range(self.spec["n"])]

    def length(self):
        if self.lens:
            return self.r.choice(self.lens)
        return self.r.choice([0, 1, 2, 3, 5, 8, self.r.range(0, self.maxlen), self.r.range(0, self.maxlen)])

    # ---- nodes
    def leaf(self, kinds=("iter", "iter", "iter", "samp", "samp", "eq", "gen", "genmut")):
        k = self.r.choice(kinds)
        if k == "iter":
            return ["iter", self.fresh(), [self.frame() for _ in range(self.length())]]
        if k == "samp":
            n = self.length() * self.spec["n"]
            if self.r.chance(1, 2):
                n += self.r.below(self.spec["n"])  # trailing partial frame
            return ["samp", self.fresh(), [self.sample() for _ in range(n)]]
        if k == "eq":
            return ["eq"]
        if k == "gen":
            return ["gen", self.fresh(), self.frame()]
        base = self.spec["off"] - 3 if self.spec["bits"] == 8 else self.spec["off"] + self.r.range(-3, 3)
        return ["genmut", self.fresh(), base]

    def unary(self, kind, sub):
        r = self.r
        if kind == "map":
            if r.chance(1, 2):
                return ["map", self.fresh(), 0, 0, sub]
            k = self.sample() if self.spec["flt"] else r.choice([1, -1, r.range(-100, 100) if self.spec["bits"] > 8 else r.range(-1, 1)])
            return ["map", self.fresh(), 1, k, sub]
        if kind == "scale":
            return ["scale", self.float_const(), sub]
        if kind == "offset":
            return ["offset", self.signed_const(), sub]
        if kind == "scalepc":
            return ["scalepc", [self.float_const() for _ in range(self.spec["n"])], sub]
        if kind == "offsetpc":
            return ["offsetpc", [self.signed_const() for _ in range(self.spec["n"])], sub]
        if kind == "clip":
            return ["clip", self.thresh(), sub]
        if kind == "inspect":
            return ["inspect", self.fresh(), sub]
        if kind == "delay":
            return ["delay", r.choice([0, 1, 1, 2, 3, r.range(0, 9)]), sub]
        raise ValueError(kind)

    def binary(self, kind, a, b):
        if kind == "zip":
            return ["zip", self.fresh(), self.r.below(2), a, b]
        if kind == "mul" and not self.spec["flt"]:
            if self.spec["gen"]:  # second source: the same-format tree through Frame::to_float_frame
                return ["mul", a, ["map", self.fresh(), 8, 0, b]]
            kind = "add"
        if kind == "add" and self.spec["off"]:  # unsigned: second source through Frame::to_signed_frame
            b = ["map", self.fresh(), 9, 0, b]
        return [kind, a, b]

    def unary_kind(self):
        ks = ["map", "map", "offset", "offsetpc", "clip", "inspect", "scale", "scalepc"]
        if not self.spec["flt"]:
            ks = ["map", "map", "offset", "offset", "offsetpc", "offsetpc", "clip", "clip", "inspect", "inspect", "scale", "scalepc"]
        return self.r.choice(ks)

    def tree(self, d, leafgen=None, p_delay=5):
        """random tree of depth <= d"""
        r = self.r
        leafgen = leafgen or self.leaf
        if d == 0 or r.chance(1, 6):
            return leafgen()
        k = r.below(20)
        if k < 8:
            return self.unary(self.unary_kind(), self.tree(d - 1, leafgen, p_delay))
        if k < 8 + p_delay:
            return self.unary("delay", self.tree(d - 1, leafgen, p_delay))
        a = self.tree(d - 1, leafgen, p_delay)
        b = self.tree(d - 1, leafgen, p_delay)
        return self.binary(r.choice(BINARY), a, b)

    def from_shape(self, sh, leafgen=None):
        """shape: 'L' | ('U', s) | ('D', s) | ('B', a, b)"""
        leafgen = leafgen or self.leaf
        if sh == "L":
            return leafgen()
        if sh[0] == "U":
            return self.unary(self.unary_kind(), self.from_shape(sh[1], leafgen))
        if sh[0] == "D":
            return self.unary("delay", self.from_shape(sh[1], leafgen))
        a = self.from_shape(sh[1], leafgen)
        b = self.from_shape(sh[2], leafgen)
        return self.binary(self.r.choice(BINARY), a, b)


def shapes(d):
    """every tree shape of depth <= d over {leaf, pointwise unary, delay, binary}"""
    if d == 0:
        return ["L"]
    sub = shapes(d - 1)
    out = ["L"]
    out += [("U", s) for s in sub] + [("D", s) for s in sub]
    out += [("B", a, b) for a in sub for b in sub]
    return out


def valid(item):
    """no add/offset can overflow (integer formats)"""
    fm = item["fmt"]
    try:
        bb = [bound(b, fm) for b in item["bases"]]
        for o in item["ops"]:
            ab = 0
            if o[0] == "L":
                ab = max([abs(x - FMTS[fm]["off"]) for fr in o[2] for x in fr] + [0])
            bound(op_tree(o), fm, bb, ab)
        return True
    except Overflow:
        return False


# ---------------------------------------------------------------------------
# counts at type-width boundaries: delay(k), take(n)
#
# The model side receives the TRUE counts: Signal/SigRun.v clamps every delay length to 1 + the number of calls of next
# the case can make (norm_case; SigRunNormProofs.run_ops_norm: running the normalised case is running the case) and
# counts take(n) in Z.  Every run here is a handful of calls, so a counter that was narrowed (u8 / u16 / u32), read as
# signed (i16 / i32 / i64) or routed through a float (24 / 53 bit mantissa) shows in the first frames: the silence ends
# at once (or after k mod 2^w frames), a borrowed source is advanced, is_exhausted answers early, take stops early,
# size_hint / len report the wrong remainder.

COUNT_WIDTHS = (8, 15, 16, 24, 31, 32, 33, 53, 63)


def boundary_counts():
    vs = []
    for w in COUNT_WIDTHS:
        vs += [(1 << w) - 1, 1 << w, (1 << w) + 1, (1 << w) + 2, (1 << w) + 5]
    vs += [3 * (1 << 32) + 1, 5 * (1 << 32), (1 << 40) + 3, (1 << 63) + (1 << 32), (1 << 64) - (1 << 32),
           (1 << 64) - (1 << 32) + 1, (1 << 64) - 2, (1 << 64) - 1]
    return vs


COUNT_FMTS = ["i16x2", "u8x3", "i32x1", "i16x2", "f64x1", "u8x3", "i24x1", "f32x2", "i32x1", "u48x1", "i16x2", "u16x1", "i64x1"]


def count_ctx(g, inner, depth):
    """`inner` under up to `depth` random adaptor levels: pointwise unary ones, small delays, binary ones with a fresh
    leaf on either side -- the long delay / the borrowed base sits at any position of the tree"""
    r, t = g.r, inner
    for _ in range(depth):
        k = r.below(10)
        if k < 5:
            t = g.unary(g.unary_kind(), t)
        elif k < 6:
            t = g.unary("delay", t)
        else:
            other = g.leaf()
            kind = r.choice(BINARY)
            t = g.binary(kind, t, other) if r.chance(1, 2) else g.binary(kind, other, t)
    return t


def count_item(fm, bases, ops, tag):
    return build(dict(fmt=fm, bases=bases, ops=ops, wide=False, family=tag))


def max_count(t, bases=()):
    return max([nd[1] for nd in nodes(t, bases) if nd[0] == "delay"] + [0])


def count_label(k):
    if k >= (1 << 64) - 4:
        return "usize::MAX" + (f"{k - ((1 << 64) - 1):+d}" if k != (1 << 64) - 1 else "")
    w = min(range(65), key=lambda w: abs(k - (1 << w)))  # nearest power of two
    d = k - (1 << w)
    return (f"2^{w}" + (f"{d:+d}" if d else "")) if abs(d) <= 8 else f"~2^{w}"


def count_hist(items):
    """which boundary values were used, as delay lengths and as take counts (evidence)"""
    h = {}
    for it in items:
        for o in it["ops"]:
            ks = [("delay", nd[1]) for nd in nodes(op_tree(o), it["bases"]) if nd[0] == "delay" and nd[1] >= 255]
            if o[0] == "T" and o[1] >= 255:
                ks.append(("take", o[1]))
            if o[0] == "IT" and o[1] == 1 and o[2] >= 255:
                ks.append(("take", o[2]))
            for what, k in ks:
                key = f"{what}:{count_label(k)}"
                h[key] = h.get(key, 0) + 1
    return h


# ---------------------------------------------------------------------------
# common check flow


def correspond(binpath, items, tag):
    """F.correspond with smaller coqc files (a 400-case file of trees costs ~0.9 GB in coqc); the cases of the
    five hand instances are evaluated by Signal/SigRun.v, those over the C03 sample model by Signal/SigRunGen.v"""
    idx_h = [i for i, it in enumerate(items) if not it.get("gen")]
    idx_g = [i for i, it in enumerate(items) if it.get("gen")]
    outl = [None] * len(items)
    bad, errors = [], []
    for idx, header, check, sub in ((idx_h, HEADER, CHECK, tag), (idx_g, HEADER_GEN, CHECK_GEN, tag + "_gen")):
        if not idx:
            continue
        o, b, e = F.correspond(binpath, [items[i] for i in idx], header, check, sub, per_file=120)
        errors += e
        if len(o) == len(idx):
            for j, i in enumerate(idx):
                outl[i] = o[j]
        bad += [idx[j] for j in b]
    if any(o is None for o in outl):
        outl = [o or "" for o in outl]
    return outl, sorted(bad), errors


def regenerate_sample_model(rep):
    """the instances over the C03 sample model run the conversions GENERATED from the current /repo
    (same regeneration as lib/props/c03.py)"""
    try:
        import props.c03 as c03
        err, changed = c03.regenerate()
    except Exception as e:  # noqa: BLE001
        err, changed = f"{type(e).__name__}: {e}", []
    if err:
        rep.violation("translate", {"kind": "model cannot be regenerated: the translators do not recognise the current dasp_sample sources (the committed generated model is used for the rest of this run)", "error": err}, no_input=True)
    return changed


def load_corpus(prop):
    d = os.path.join(F.VERIF, "corpus", prop)
    items = []
    if os.path.isdir(d):
        for fn in sorted(os.listdir(d)):
            if fn.endswith(".json"):
                items.append(build(json.load(open(os.path.join(d, fn)))))
    return items


def mid_frame_clone(o, fm, bases=()):
    """an interleaved-sample iterator cloned after a number of samples that is not a multiple of the
    channel count (>= 2 channels) while the frame it sits in has been pulled from a live signal"""
    if o[0] != "IT" or o[1] not in (2, 3) or o[4] != 1:
        return False
    n = FMTS[fm]["n"]
    lv = live(op_tree(o), fm, bases)
    return n >= 2 and o[3] % n != 0 and o[3] < min(lv, INF - 1) * n


def case_nontrivial(it):
    fm = it["fmt"]
    if any(mid_frame_clone(o, fm, it["bases"]) for o in it["ops"]):
        return True
    for o in it["ops"]:
        arg = len(o[2]) if o[0] == "L" else None
        if nontrivial_tree(op_tree(o), fm, it["bases"], arg):
            return True
    return False


def run_check(rep, prop, tier, seed, gen_cases, rule, meta_expl, theorems_note):
    rng = F.Rng(seed)
    regenerated = regenerate_sample_model(rep)
    info = F.standard_proof_phase(rep, prop)
    info["regenerated"] = regenerated
    ok, blog, binpath = F.harness_build(BIN)
    if not ok:
        rep.violation("harness_build", {"kind": "harness does not build against /repo", "log": blog[-4000:]}, no_input=True)
        return finish(rep, prop, info, 0, 0, {}, [], rule, meta_expl, theorems_note, {})
    fb_n, fb_bad, fb_err = floatbase.run(rng.fork("floatbase"), 300 if tier == "quick" else 1500)
    for c, o in fb_bad[:3]:
        rep.violation(f"floatbase_{c[0]}_{c[1]}", {"kind": "Base/Float.v disagrees with rustc on an IEEE operation", "case": c, "rust": o})
    for name, msg in fb_err:
        rep.violation("floatbase_error", {"kind": "float base check could not be evaluated", "where": name, "log": msg}, no_input=True)
    corpus = load_corpus(prop)
    items, dist = gen_cases(rng, tier)
    items = corpus + items
    tag = prop.lower()
    outl, bad, errors = correspond(binpath, items, tag)
    rep.extra["build_profiles"] = F.profile_phase(rep, "c0405", items, outl, profiles=("release",)) if not errors and len(outl) == len(items) else {}
    for name, msg in errors:
        rep.violation("correspondence_error_" + name.replace("/", "_"), {"kind": "correspondence could not be evaluated", "where": name, "log": msg}, no_input=True)
    hist = {}
    for it in items:
        hist["fmt:" + it["fmt"]] = hist.get("fmt:" + it["fmt"], 0) + 1
        for o in it["ops"]:
            key = "op:" + o[0] + (f":kind{o[1]}:mode{o[4]}" if o[0] == "IT" else "")
            hist[key] = hist.get(key, 0) + 1
            if mid_frame_clone(o, it["fmt"], it["bases"]):
                hist["feature:clone_taken_mid_frame"] = hist.get("feature:clone_taken_mid_frame", 0) + 1
            for nd in nodes(op_tree(o), it["bases"]):
                hist["node:" + nd[0]] = hist.get("node:" + nd[0], 0) + 1
        d = max([depth(op_tree(o), it["bases"]) for o in it["ops"]] + [0])
        hist[f"depth:{d}"] = hist.get(f"depth:{d}", 0) + 1
    nontriv = len({it["line"] for it in items if case_nontrivial(it)}) if not errors else 0
    panics = sum(1 for o in outl if o.endswith("8 1") or ";8 " in o or o.startswith("HARNESS-PANIC"))
    for idx in bad[:3]:
        it = items[idx]

        def fails(c):
            o, b, e = correspond(binpath, [c], tag + "_shrink")
            return bool(b) and not e

        small = F.shrink_ops(it, build, fails)
        rc, out, _ = F.run_bin(binpath, [small["line"]])
        _, model = model_eval(tag, small)
        rep.violation(f"case{idx}", {
            "kind": "model/implementation disagreement: the dasp_signal adaptor tree does not behave as the proved model",
            "case": {k: small[k] for k in ("fmt", "bases", "ops")},
            "harness_line": small["line"], "implementation_observations": out, "model_observations": model[-4000:],
            "original_case_index": idx, "replay": f"./check.py {prop} --replay <this file>"})
    dist = dict(dist)
    dist.update({"histogram": hist, "corpus_cases": len(corpus), "panic_observations": panics,
                 "floatbase_cases": fb_n, "floatbase_disagreements": len(fb_bad)})
    samples = [items[i]["line"][:600] for i in (0, len(items) // 2, len(items) - 1)] if items else []
    return finish(rep, prop, info, len(items), nontriv, dist, samples, rule, meta_expl, theorems_note, dict(bad=bad))


def finish(rep, prop, info, n, nontriv, dist, samples, rule, expl, tnote, extra):
    th = info.get("theorems", [])
    cov = {
        "obligations": max(1, len(th)), "discharged": len(th) if info.get("coq_ok") else 0,
        "checker_cmd": f"make -f Makefile.coq props/{prop}.vo (coqc 8.16.1, full .vo) + Print Assumptions audit",
        "trusted_base": F.TRUSTED_COMMON + [
            "axioms: none (every theorem of props/%s.v is closed under the global context)" % prop,
            "modelled, not verified: Rust closures as pure functions, iterators as lists, usize as nat; Base/Float.v (Flocq) as the IEEE model of the float instances (validated against rustc by lib/floatbase.py in this run)",
            "instances over all 14 sample formats: translate/conv2coq.py + translate/sampletable2coq.py (regenerated from /repo in this run), Sample/SampleOps.v, Frame/FrameOps.v (the C03 model); every generated add_amp/mul_amp/to_signed result is additionally compared with the specification value and Frame::EQUILIBRIUM is the true equilibrium, so a wrong constant or conversion shows as a disagreement",
            tnote],
        "theorems": th, "axioms_reported": info.get("axioms", []), "regenerated_files": info.get("regenerated", []),
        "evaluations": n, "distinct_nontrivial": nontriv, "rule": rule,
        "samples": samples, "input_distribution": dist, "disagreements": len(extra.get("bad", ())),
        "explanation": expl,
    }
    return rep.finish("proof", cov, [
        "the frame universe of the model is one type; Signed/Float companion frames live in the same universe",
        "generated integer amplitudes never overflow add_amp/offset_amp (debug builds panic there; outside the property)",
        "the harness observes through the public API only (local Box<dyn Signal> wrapper, instrumented leaves and closures)"])


def model_eval(tag, it):
    if it.get("gen"):
        return F.coq_eval(tag, HEADER_GEN, f"run_gcase_norm ({it['coq']})")
    return F.coq_eval(tag, HEADER, f"run_case_norm ({it['coq']})")


def replay(prop, path):
    j = json.load(open(path))
    it = build(j["case"])
    ok, blog, binpath = F.harness_build(BIN)
    rc, out, _ = F.run_bin(binpath, [it["line"]])
    _, model = model_eval(prop.lower(), it)
    print("case:", it["line"])
    print("implementation:", out)
    print("model:", model)
    o, bad, errs = correspond(binpath, [it], prop.lower() + "_replay")
    print("AGREE" if not bad and not errs else "DISAGREE")
    return 1 if bad or errs else 0
