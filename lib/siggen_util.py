"""Shared by lib/props/c14.py and lib/props/c12.py: the translator tie of the two adaptors that sit directly on
ring_buffer::Bounded (Buffered, Fork).  On every run the layering source -> model is regenerated top to bottom:
translate/ring2coq.py writes coq/gen/RingGen.v from dasp_ring_buffer/src/lib.rs, translate/sig2coq.py writes
coq/gen/BufferedGen.v / coq/gen/ForkGen.v from dasp_signal/src/lib.rs (its ring-buffer calls are the generated ring
methods).  When the translator rejects the source, the generated file does not type-check, or an equivalence lemma no
longer compiles, the FIRST broken link of the chain is named (DESIGN 5.1/5.3) and the caller runs the search.

TESTING ONLY: DASP_SIGNAL_RS=<file> / DASP_RING_RS=<file> make the translators read those files instead of /repo's.
The harness is still built against /repo (only the translator side sees the change) -- unless DASP_SIGNAL_HARNESS=scratch
is also set: then a copy of /repo's workspace with those lib.rs files and a one-binary copy of the harness are built under
out/sig_scratch (never touches /repo)."""
import os, re, shutil, sys, time
import framework as F
sys.path.insert(0, os.path.join(F.VERIF, "translate"))
import ring2coq as TR  # noqa: E402
import sig2coq as TS  # noqa: E402

TEST_SIGNAL = os.environ.get("DASP_SIGNAL_RS")
TEST_RING = os.environ.get("DASP_RING_RS")
TEST_HARNESS = os.environ.get("DASP_SIGNAL_HARNESS") == "scratch" and bool(TEST_SIGNAL or TEST_RING)
SIGNAL_SRC = TEST_SIGNAL or os.path.join(F.REPO, "dasp_signal", "src", "lib.rs")
RING_SRC = TEST_RING or os.path.join(F.REPO, "dasp_ring_buffer", "src", "lib.rs")

GROUPS = {
    "buffered": dict(gen="gen/BufferedGen.v", glue="theories/Signal/BufferedGenGlue.v", equiv="theories/Signal/BufferedGenEquiv.v",
                     run="theories/Signal/BufferedGenRun.vo", what="Buffered"),
    "fork": dict(gen="gen/ForkGen.v", glue="theories/Signal/ForkGenGlue.v", equiv="theories/Signal/ForkGenEquiv.v",
                 run="theories/Signal/ForkGenRun.vo", what="Fork"),
}


def testing_note():
    if not (TEST_SIGNAL or TEST_RING):
        return None
    return (f"note: DASP_SIGNAL_RS={TEST_SIGNAL} DASP_RING_RS={TEST_RING} (testing mode: the translators read these files instead of /repo's; "
            + ("the harness is a scratch build of the same files under out/sig_scratch)" if TEST_HARNESS
               else "the harness is still built against /repo, only the translator side sees the change)"))


def regenerate(group):
    """ring layer, then the adaptor.  -> (tinfo, error or None)"""
    t0 = time.time()
    tinfo = {"source": SIGNAL_SRC, "ring_source": RING_SRC, "generated_files": ["coq/gen/RingGen.v", "coq/" + GROUPS[group]["gen"]],
             "rewritten": [], "definitions": 0, "error": None}
    try:
        names, changed = TR.generate(RING_SRC)
        tinfo["rewritten"] += list(changed)
        tinfo["ring_definitions"] = len(names)
    except TR.TranslateError as e:
        tinfo["error"] = "dasp_ring_buffer/src/" + str(e) + "  (the ring buffer below the adaptor cannot be regenerated)"
        tinfo["translate_s"] = round(time.time() - t0, 2)
        return tinfo, tinfo["error"]
    try:
        names, changed = TS.generate(group, SIGNAL_SRC, RING_SRC)
        tinfo["definitions"] = len(names)
        if changed:
            tinfo["rewritten"].append(os.path.basename(GROUPS[group]["gen"]))
    except TS.TranslateError as e:
        tinfo["error"] = str(e)
        tinfo["translate_s"] = round(time.time() - t0, 2)
        return tinfo, tinfo["error"]
    # self-test of "never silently skipped"
    try:
        sens = TS.sensitivity(open(SIGNAL_SRC).read(), open(RING_SRC).read(), group)
    except (TS.TranslateError, OSError) as e:
        sens = dict(sites=0, tried=0, rejected=0, changed=0, ignored=[f"self-test failed: {e}"])
    tinfo["sensitivity_self_test"] = dict(single_token_edits=sens["tried"], rejected=sens["rejected"],
                                          change_the_generated_model=sens["changed"], ignored=len(sens["ignored"]))
    tinfo["sensitivity_ignored"] = sens["ignored"][:20]
    tinfo["translate_s"] = round(time.time() - t0, 2)
    return tinfo, None


def broken_lemma(log, rank):
    """every error `make` reported: file, line, enclosing lemma (files earlier in the chain first)"""
    found = []
    for m in re.finditer(r'File "\./([^"]+)", line (\d+), characters[^\n]*\n((?:(?!File "|make).*\n){0,8})', log):
        path, line = m.group(1), int(m.group(2))
        lemma = None
        try:
            src = open(os.path.join(F.COQ, path)).read().split("\n")
            for l in range(min(line, len(src)) - 1, -1, -1):
                mm = re.match(r"\s*(?:Lemma|Theorem|Example|Definition|Fixpoint)\s+([\w']+)", src[l])
                if mm:
                    lemma = mm.group(1)
                    break
        except OSError:
            pass
        found.append(dict(file="coq/" + path, line=line, lemma=lemma, message=" ".join(m.group(3).split())[:500]))
    if not found:
        return dict(file=None, line=None, lemma=None, message=log[-1500:], all=[])
    found.sort(key=lambda f: rank(f["file"]))
    return dict(found[0], all=[f"{f['file']}:{f['line']} {f['lemma']}" for f in found])


def proof_phase(rep, prop, group, terr):
    """-> info; info['broken'] (dict) is set when the translator tie or a proof broke: the caller then runs the
    search and registers the violation"""
    t = time.time()
    g = GROUPS[group]
    info = {"coq_ok": False, "theorems": [], "axioms": [], "coq_s": None, "broken": None}
    if terr is not None:
        info["broken"] = dict(stage="translator", message="the model cannot be regenerated from the source: " + terr,
                              source=SIGNAL_SRC, ring_source=RING_SRC)
        info["coq_s"] = round(time.time() - t, 1)
        return info
    ok, log = F.coq_prop_build(prop)
    info["coq_ok"] = ok
    if not ok:
        chain = ["gen/RingGen.vo", "theories/Ring/RingGenEquiv.vo", g["gen"] + "o", g["glue"] + "o", g["equiv"] + "o"]
        vs = [c[:-1] for c in chain]
        rank = lambda f: next((i for i, v in enumerate(vs) if f.endswith(v)), len(vs))
        bl = None
        for tgt in chain:
            ok2, log2 = F.coq_make(tgt)
            if not ok2:
                bl = broken_lemma(log2, rank)
                break
        if bl is None:
            bl = broken_lemma(log, rank)
        f = bl.get("file") or ""
        if "gen/RingGen.v" in f:
            stage, what = "generated_ring_model", "the ring-buffer model regenerated from the source does not type-check in Coq"
        elif "RingGenEquiv" in f or "RingGenGlue" in f:
            stage, what = "ring_equivalence", f"a ring-buffer method regenerated from the source is no longer provably equal to the hand ring model the {g['what']} proofs rest on: lemma {bl.get('lemma')}"
        elif g["gen"] in f:
            stage, what = "generated_model", f"the {g['what']} model regenerated from the source does not type-check in Coq (a method body no longer has the representation its declared Rust type needs, or calls a ring method differently)"
        elif os.path.basename(g["glue"]) in f:
            stage, what = "generated_model", f"the caller-side glue no longer fits the {g['what']} model regenerated from the source (a method changed its signature or no longer uses the source signal): {bl.get('lemma')}"
        elif os.path.basename(g["equiv"]) in f:
            stage, what = "equivalence", f"the method regenerated from the source is no longer provably equal to the hand model: lemma {bl.get('lemma')}"
        else:
            stage, what = "proof", f"proof obligation no longer checks: {bl.get('lemma')}"
        info["broken"] = dict(stage=stage, message=what, broken_lemma=bl.get("lemma"), file=bl.get("file"), line=bl.get("line"),
                              coq_message=bl.get("message"), all_broken=bl.get("all", []), target=f"coq/props/{prop}.vo",
                              source=SIGNAL_SRC, ring_source=RING_SRC)
        info["coq_s"] = round(time.time() - t, 1)
        return info
    problems, ainfo = F.coq_audit(prop, log, frozenset())
    info.update(ainfo)
    info["coq_s"] = round(time.time() - t, 1)
    if problems:
        rep.violation("audit", {"kind": "audit of the Coq development failed", "problems": problems}, no_input=True)
    return info


def tie_start(rep, prop, group):
    """regenerate + self-test + proofs.  -> info (info['translator'], info['broken'])"""
    tinfo, terr = regenerate(group)
    if terr is None and tinfo.get("sensitivity_ignored"):
        rep.violation("translator_insensitive", {"kind": "translate/sig2coq.py ignores part of a method body: an edit of the source leaves the generated model unchanged",
                                                "edits": tinfo["sensitivity_ignored"]}, no_input=True)
    n = testing_note()
    if n:
        rep.notes.append(n)
    info = proof_phase(rep, prop, group, terr)
    info["translator"] = tinfo
    return info


def scratch_harness(binname, release=False):
    """TESTING ONLY (DASP_SIGNAL_HARNESS=scratch): a copy of /repo's workspace with dasp_signal/src/lib.rs and/or
    dasp_ring_buffer/src/lib.rs replaced, and a one-binary copy of the harness, under out/sig_scratch.
    -> (ok, log, path)"""
    root = F.ensure_dir(os.path.join(F.OUT, "sig_scratch"))
    rp = os.path.join(root, "repo")
    if os.path.exists(rp):
        shutil.rmtree(rp)
    shutil.copytree(F.REPO, rp, ignore=shutil.ignore_patterns("target", ".git"))
    if TEST_SIGNAL:
        shutil.copy(TEST_SIGNAL, os.path.join(rp, "dasp_signal", "src", "lib.rs"))
    if TEST_RING:
        shutil.copy(TEST_RING, os.path.join(rp, "dasp_ring_buffer", "src", "lib.rs"))
    h = os.path.join(root, "harness_" + binname)
    F.ensure_dir(os.path.join(h, "src", "bin"))
    shutil.copy(os.path.join(F.HARNESS, "src", "lib.rs"), os.path.join(h, "src", "lib.rs"))
    shutil.copy(os.path.join(F.HARNESS, "src", "bin", binname + ".rs"), os.path.join(h, "src", "bin", binname + ".rs"))
    cargo = open(os.path.join(F.HARNESS, "Cargo.toml")).read().replace('"' + F.REPO.rstrip("/") + "/", '"' + rp + "/")
    F.write_if_changed(os.path.join(h, "Cargo.toml"), cargo)
    lock = os.path.join(F.HARNESS, "Cargo.lock")
    if os.path.exists(lock):
        shutil.copy(lock, os.path.join(h, "Cargo.lock"))
    env = {"RUSTFLAGS": f"--cfg {F.GUARD}", "CARGO_TARGET_DIR": os.path.join(root, "target")}
    cmd = ["cargo", "build", "--offline", "--quiet", "--bin", binname] + (["--release"] if release else [])
    rc, out = F.sh(cmd, cwd=h, env=env, timeout=2400)
    path = os.path.join(root, "target", "release" if release else "debug", binname)
    return (rc == 0 and os.path.exists(path)), out, path


def harness_build(binname, release=False):
    if TEST_HARNESS:
        return scratch_harness(binname, release)
    return F.harness_build(binname, release=release)


def gen_search(rep, prop, group, header, items, outl, broken, shrink_build, run_one, case_keys, eval_names=("gen_run_case", "run_case")):
    """the regenerated model (…GenRun.v) on retained correspondence cases: against the crate's observations and against
    the hand model.  -> (n_vs_crate, n_vs_hand, note); registers a VIOLATION with replay for the first failing input.
    run_one(line) -> the implementation's observation line for one harness line (or None)."""
    g = GROUPS[group]
    ok, log = F.coq_make(g["run"])
    if not ok:
        return None, None, "the regenerated model does not compile, it cannot be run: " + " ".join(log[-700:].split())
    tag = prop.lower()
    try:
        terms = [f"({it['coq']}, {F.zlistlist(F.norm_obs_line(o))})" for it, o in zip(items, outl)]
    except ValueError as ex:
        return None, None, f"unparsable observation: {ex}"
    bad_any, e1 = F.coq_check_cases(tag + "_gen", header, "both_gen", terms)
    if e1:
        return None, None, "the regenerated model could not be evaluated: " + str(e1[0])[:600]
    sub = [terms[i] for i in bad_any]
    bc, e1 = F.coq_check_cases(tag + "_gen_crate", header, "check_gen", sub)
    bh, e2 = F.coq_check_cases(tag + "_gen_hand", header, "agree_gen", sub)
    if e1 or e2:
        return None, None, "the regenerated model could not be evaluated: " + str((e1 + e2)[0])[:600]
    bad_crate, bad_hand = [bad_any[i] for i in bc], [bad_any[i] for i in bh]
    for who, bad, fn, what in (("crate", bad_crate, "check_gen", "the crate"), ("hand", bad_hand, "agree_gen", "the hand model")):
        if not bad:
            continue
        idx = min(bad, key=lambda i: len(items[i]["ops"]))
        it = items[idx]

        def fails(c):
            o = run_one(c["line"])
            if o is None:
                return False
            try:
                b, e = F.coq_check_cases(tag + "_gen_shrink", header, fn, [f"({c['coq']}, {F.zlistlist(F.norm_obs_line(o))})"])
            except ValueError:
                return False
            return bool(b) and not e

        small = F.shrink_ops(it, shrink_build, fails)
        out = run_one(small["line"])
        _, gmodel = F.coq_eval(tag, header, f"{eval_names[0]} ({small['coq']})")
        _, hmodel = F.coq_eval(tag, header, f"{eval_names[1]} ({small['coq']})")
        rep.violation(f"generated_vs_{who}_case{idx}", {
            "kind": f"the {g['what']} model regenerated from {SIGNAL_SRC} (ring layer from {RING_SRC}) disagrees with {what} on this case "
                    "(the source no longer computes what the proved model computes; or a translator fault)",
            "why": broken, "case": {k: small[k] for k in case_keys if k in small}, "model": "generated", "against": who,
            "harness_line": small["line"], "implementation_observations": out,
            "generated_model_observations": gmodel[-3000:], "hand_model_observations": hmodel[-3000:],
            "failing_cases_in_this_run": len(bad), "cases_run_on_the_generated_model": len(items),
            "replay": f"./check.py {prop} --replay <this file>"})
        break
    return len(bad_crate), len(bad_hand), None


TRUSTED = [
    "translate/sig2coq.py (Rust method bodies of dasp_signal's Buffered / Fork -> Gallina: evaluation order, control flow, state threading, macro expansion of define_branch!) and translate/ring2coq.py below it, with the vocabularies Signal/SigGenPrim.v and Ring/RingPrim.v they translate into; validated through the correspondence of the (proved equal) hand model",
    "modelled, not verified: RefCell / Rc / & / &mut sharing as state threading -- every handle to the shared state (Fork, the four branch types, BufferedFrames' borrow of the ring buffer) is represented by that one state, the RefCell borrow flag is not modelled (guards are dropped when the method returns, no re-entrance); the source signal as an abstract total state machine (next : st -> frame * st, is_exhausted); the unbounded `loop` as a fuel-bounded Fixpoint; the caller-side glue (Signal/BufferedGenGlue.v, Signal/ForkGenGlue.v: calling next on a handed-out iterator and writing the borrow back, which branch type a call goes to)",
]
