"""Validation of coq/theories/Base/Float.v (the IEEE-754 model every float-using property relies on)
against rustc's f32/f64 on structured + random bit patterns.  Used as a sub-check by float properties."""
import struct
import framework as F

HEADER = "From Dasp Require Import Base.FloatRun."


def specials(fmt):
    if fmt == 32:
        mw, ew, tot = 23, 8, 32
    else:
        mw, ew, tot = 52, 11, 64
    bias = (1 << (ew - 1)) - 1
    out = []
    for s in (0, 1):
        sb = s << (tot - 1)
        out += [sb, sb | 1, sb | ((1 << mw) - 1), sb | (1 << mw), sb | (((1 << ew) - 1) << mw),
                sb | (((1 << ew) - 2) << mw) | ((1 << mw) - 1), sb | (((1 << ew) - 1) << mw) | (1 << (mw - 1))]
        for e in (-1, 0, 1, 7, 8, 15, 16, 23, 24, 31, 32, 52, 53, 62, 63, 64, -24, -126 if fmt == 32 else -1022):
            be = e + bias
            if 0 < be < (1 << ew) - 1:
                out += [sb | (be << mw), sb | (be << mw) | 1, sb | (be << mw) | ((1 << mw) - 1), sb | (be << mw) | (1 << (mw - 1))]
    return out


def gen(rng, n):
    cases = []
    for fmt in (32, 64):
        sp = specials(fmt)
        tot = fmt

        def rnd():
            k = rng.below(10)
            if k < 3:
                return rng.choice(sp)
            if k < 6:  # moderate magnitudes
                bias = 127 if fmt == 32 else 1023
                mw = 23 if fmt == 32 else 52
                e = rng.range(-40, 70) + bias
                return (rng.below(2) << (tot - 1)) | (e << mw) | rng.below(1 << mw)
            return rng.below(1 << tot)
        for i in range(n):
            op = rng.choice([0, 0, 1, 1, 2, 2, 3, 3, 4, 4, 5, 6, 6, 7, 7, 8, 9])
            a = rnd()
            b = rnd()
            if op == 7:
                b = rng.below(8)
            if op == 9:
                a = rng.choice([0, 1, -1, (1 << 63) - 1, -(1 << 63), (1 << 64) - 1, (1 << 24) + 1, (1 << 53) + 1, -(1 << 24) - 1,
                                rng.range(-(1 << 63), (1 << 64) - 1), rng.range(-(1 << 33), 1 << 33), (1 << rng.range(0, 63)) + rng.range(-2, 2)])
                a = max(-(1 << 63), min((1 << 64) - 1, a))
                b = 0
            cases.append([op, fmt, a, b])
    return cases


def run(rng, n=1500):
    """returns (n_cases, bad list of (case, impl_obs), errors)"""
    ok, log, binpath = F.harness_build("fbase")
    if not ok:
        return 0, [], [("fbase build", log[-2000:])]
    cases = gen(rng, n)
    items = [{"line": " ".join(map(str, c)), "coq": F.zlist(c)} for c in cases]
    outl, bad, errors = F.correspond(binpath, items, HEADER, "fcheck", "fbase")
    return len(cases), [(cases[i], outl[i]) for i in bad], errors
