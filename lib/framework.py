"""Shared machinery for the dasp Coq verification checks.

Flow of one check (see DESIGN.md section 2):
  regenerate generated Coq (translator) -> make the property's Coq closure ->
  audit (forbidden tokens, Print Assumptions allow-list, pinned statements) ->
  build the Rust harness against /repo's current tree -> generate cases ->
  run implementation -> evaluate the Coq model on the same cases inside coqc
  (vm_compute) and diff -> verdict, evidence, VIOLATION / KNOWN-FINDING lines.
"""
import os, sys, re, json, time, subprocess, hashlib, shutil, glob
from concurrent.futures import ThreadPoolExecutor

VERIF = os.path.dirname(os.path.dirname(os.path.abspath(__file__)))
REPO = os.environ.get("DASP_REPO", "/repo")
COQ = os.path.join(VERIF, "coq")
OUT = os.path.join(VERIF, "out")
HARNESS = os.path.join(VERIF, "harness")
HARNESS_NOSTD = os.path.join(VERIF, "harness_nostd")
GUARD = "rustaudio_dasp_verif"
NCPU = int(os.environ.get("VERIF_NCPU", "16"))

# ---------------------------------------------------------------------------
# deterministic PRNG (xorshift64*), every random choice of a run derives from it


class Rng:
    def __init__(self, seed):
        self.s = (seed * 0x9E3779B97F4A7C15 + 0xD1B54A32D192ED03) & 0xFFFFFFFFFFFFFFFF
        if self.s == 0:
            self.s = 0x2545F4914F6CDD1D
        for _ in range(4):
            self.next()

    def next(self):
        x = self.s
        x ^= (x >> 12)
        x ^= (x << 25) & 0xFFFFFFFFFFFFFFFF
        x ^= (x >> 27)
        self.s = x
        return (x * 0x2545F4914F6CDD1D) & 0xFFFFFFFFFFFFFFFF

    def below(self, n):
        return self.next() % n if n > 0 else 0

    def range(self, lo, hi):  # inclusive
        return lo + self.below(hi - lo + 1)

    def choice(self, xs):
        return xs[self.below(len(xs))]

    def chance(self, num, den):
        return self.below(den) < num

    def fork(self, tag):
        h = int.from_bytes(hashlib.sha256(f"{self.s}:{tag}".encode()).digest()[:8], "big")
        return Rng(h)


# ---------------------------------------------------------------------------
# helpers


def sh(cmd, cwd=None, timeout=None, env=None, input=None):
    e = dict(os.environ)
    e["CARGO_NET_OFFLINE"] = "true"
    if env:
        e.update(env)
    p = subprocess.run(cmd, cwd=cwd, shell=isinstance(cmd, str), input=input,
                       stdout=subprocess.PIPE, stderr=subprocess.STDOUT, timeout=timeout,
                       env=e, text=True, errors="replace")
    return p.returncode, p.stdout


def ensure_dir(p):
    os.makedirs(p, exist_ok=True)
    return p


def write_if_changed(path, content):
    try:
        with open(path) as f:
            if f.read() == content:
                return False
    except FileNotFoundError:
        pass
    ensure_dir(os.path.dirname(path))
    with open(path, "w") as f:
        f.write(content)
    return True


# ---------------------------------------------------------------------------
# Coq build and audit

FORBIDDEN = re.compile(
    r"\b(Admitted|admit|Axiom|Axioms|Parameter|Parameters|Conjecture|Conjectures|"
    r"Admit\s+Obligations|bypass_check|Unset\s+Guard\s+Checking|Unset\s+Positivity\s+Checking|"
    r"Unset\s+Universe\s+Checking|type-in-type|impredicative-set|native_compute)\b")

# axioms of Coq's standard library that proofs over R / Flocq rely on (DESIGN section 8)
AX_REALS = {
    "ClassicalDedekindReals.sig_forall_dec",
    "ClassicalDedekindReals.sig_not_dec",
    "FunctionalExtensionality.functional_extensionality_dep",
    "Classical_Prop.classic",
}
AX_PRIMINT = re.compile(r"^(PrimInt63|Uint63|Int63|Sint63|PrimFloat|FloatAxioms|Float64)\.")


def strip_comments(src):
    out, depth, i, n = [], 0, 0, len(src)
    in_str = False
    while i < n:
        c2 = src[i:i + 2]
        if not in_str and c2 == "(*":
            depth += 1
            i += 2
        elif not in_str and depth > 0 and c2 == "*)":
            depth -= 1
            i += 2
        elif depth > 0:
            i += 1
        else:
            if src[i] == '"':
                in_str = not in_str
            out.append(src[i])
            i += 1
    return "".join(out)


def coq_files():
    fs = []
    for d in ("theories", "gen", "props"):
        fs += sorted(glob.glob(os.path.join(COQ, d, "**", "*.v"), recursive=True))
    return fs


def coq_project():
    """(Re)write _CoqProject and Makefile.coq when the file list changes."""
    rel = [os.path.relpath(f, COQ) for f in coq_files()]
    content = "-Q theories Dasp\n-Q gen DaspGen\n-Q props DaspProps\n-arg -w -arg -notation-overridden,-deprecated-hint-without-locality,-deprecated-instance-without-locality,-ambiguous-paths\n" + "\n".join(rel) + "\n"
    changed = write_if_changed(os.path.join(COQ, "_CoqProject"), content)
    if changed or not os.path.exists(os.path.join(COQ, "Makefile.coq")):
        rc, out = sh("coq_makefile -f _CoqProject -o Makefile.coq", cwd=COQ)
        if rc != 0:
            raise RuntimeError("coq_makefile failed:\n" + out)


def coq_make(targets, timeout=1800):
    """Full .vo build of the given targets (relative to coq/). Returns (ok, log)."""
    coq_project()
    if isinstance(targets, str):
        targets = [targets]
    rc, out = sh(["timeout", str(timeout), "make", "-f", "Makefile.coq", f"-j{NCPU}", "--no-print-directory"] + targets,
                 cwd=COQ)
    return rc == 0, out


def coq_prop_build(prop, timeout=1800):
    """Build props/<prop>.vo freshly (the props file itself is always recompiled so
    that its Print Assumptions output is captured from this very run)."""
    vo = os.path.join(COQ, "props", f"{prop}.vo")
    if os.path.exists(vo):
        os.remove(vo)
    ok, log = coq_make(f"props/{prop}.vo", timeout)
    return ok, log


def parse_assumptions(log):
    """Parse the output of the Print Assumptions commands in a props file.
    Returns (n_closed, set_of_axioms)."""
    closed = len(re.findall(r"Closed under the global context", log))
    axioms = set()
    in_ax = False
    for line in log.splitlines():
        if line.startswith("Axioms:"):
            in_ax = True
            continue
        if in_ax:
            m = re.match(r"^([A-Za-z_][\w.']*)\s*(:|$)", line)
            if m:
                axioms.add(m.group(1))
            elif line.startswith(" ") or line.strip() == "":
                continue
            else:
                in_ax = False
    return closed, axioms


def closure_files(prop):
    """The .v files props/<prop>.v transitively depends on inside this development."""
    coq_project()
    rc, out = sh("coqdep -f _CoqProject 2>/dev/null", cwd=COQ)
    deps = {}
    for line in out.splitlines():
        if ":" not in line:
            continue
        lhs, rhs = line.split(":", 1)
        tgt = [t for t in lhs.split() if t.endswith(".vo")]
        if not tgt:
            continue
        deps[tgt[0]] = [d for d in rhs.split() if d.endswith(".vo")]
    seen, todo = set(), [f"props/{prop}.vo"]
    while todo:
        t = todo.pop()
        if t in seen:
            continue
        seen.add(t)
        todo += deps.get(t, [])
    return sorted(os.path.join(COQ, t[:-1]) for t in seen)


def coq_audit(prop, log, allowed_axioms):
    """Returns (problems, info). Forbidden tokens anywhere in the development
    (comments stripped), Variable/Hypothesis only inside sections, the axioms
    reported by Print Assumptions within the allow-list."""
    problems = []
    for f in coq_files():
        src = strip_comments(open(f).read())
        for m in FORBIDDEN.finditer(src):
            line = src.count("\n", 0, m.start()) + 1
            problems.append(f"{os.path.relpath(f, VERIF)}:{line}: forbidden token {m.group(0)!r}")
        stack = []
        for ln, line in enumerate(src.splitlines(), 1):
            s = line.strip()
            m = re.match(r"^(Section|Module(?:\s+Type)?)\s+([\w']+)", s)
            if m and not re.search(r":=", s):
                stack.append(("S" if m.group(1) == "Section" else "M", m.group(2)))
                continue
            m = re.match(r"^End\s+([\w']+)\s*\.", s)
            if m and stack and stack[-1][1] == m.group(1):
                stack.pop()
                continue
            in_section = any(k == "S" for k, _ in stack)
            if re.match(r"^(Variable|Variables|Hypothesis|Hypotheses|Context)\b", s) and not in_section:
                problems.append(f"{os.path.relpath(f, VERIF)}:{ln}: {s.split()[0]} outside a section")
    closed, axioms = parse_assumptions(log)
    extra = {a for a in axioms if a not in allowed_axioms and not AX_PRIMINT.match(a)}
    if extra:
        problems.append("axioms outside the allow-list: " + ", ".join(sorted(extra)))
    src = strip_comments(open(os.path.join(COQ, "props", f"{prop}.v")).read())
    theorems = re.findall(r"^\s*(?:Theorem|Lemma|Corollary)\s+([\w']+)", src, re.M)
    printed = re.findall(r"Print\s+Assumptions\s+([\w'.]+)\s*\.", src)
    for t in theorems:
        if t not in printed:
            problems.append(f"props/{prop}.v: theorem {t} has no Print Assumptions")
    if closed + len(re.findall(r"^Axioms:", log, re.M)) < len(printed):
        problems.append(f"props/{prop}.v: {len(printed)} Print Assumptions commands but only "
                        f"{closed} closed + axioms blocks in the compiler output")
    return problems, {"theorems": theorems, "closed": closed, "axioms": sorted(axioms)}


# ---------------------------------------------------------------------------
# Rust harness


# Coverage mode (tools/coverage.py): VERIF_COV=1 builds the dev-profile harness with the nightly toolchain and
# `-C instrument-coverage` into harness/target_cov, every harness process writes a .profraw under out/cov/, and the
# evidence of the run goes to out/cov_evidence/ (a coverage run never rewrites evidence/).  It measures which
# regions of /repo's source the correspondence executes; it decides nothing.
COV = os.environ.get("VERIF_COV") == "1"
TARGET_DIR = os.path.join(HARNESS, "target_cov" if COV else "target")
if COV:
    os.environ["LLVM_PROFILE_FILE"] = os.path.join(OUT, "cov", os.environ.get("VERIF_COV_TAG", "run"), "%p-%m.profraw")


def harness_env():
    flags = f"--cfg {GUARD}" + (" -C instrument-coverage" if COV else "")
    return {"RUSTFLAGS": flags, "CARGO_TARGET_DIR": TARGET_DIR, "CARGO_NET_OFFLINE": "true"}


def harness_build(binname, release=False, crate=HARNESS, timeout=1500, profile=None):
    """profile: None/'dev' (debug assertions + overflow checks), 'release' (neither),
    'relchk' (optimised, overflow checks ON, debug assertions OFF - defined in harness/Cargo.toml)"""
    if profile is None:
        profile = "release" if release else "dev"
    cmd = ["cargo"] + (["+nightly"] if COV else []) + ["build", "--offline", "--quiet", "--bin", binname]
    if profile == "release":
        cmd.append("--release")
    elif profile != "dev":
        cmd += ["--profile", profile]
    rc, out = sh(cmd, cwd=crate, env=harness_env(), timeout=timeout)
    path = os.path.join(TARGET_DIR, "debug" if profile == "dev" else profile, binname)
    return rc == 0 and os.path.exists(path), out, path


def profile_diff(binname, items, base_out, profiles=("release",), args=()):
    """Runs the same cases in other build profiles and returns [(index, profile, line)] where the
    observation differs from the dev-profile observation `base_out`.  Only meaningful for properties
    whose expected observations do not depend on the build profile (no overflow panics generated)."""
    diffs, errors = [], []
    for prof in profiles:
        ok, log, path = harness_build(binname, profile=prof)
        if not ok:
            errors.append((f"harness_build_{prof}", log[-2000:]))
            continue
        rc, outl, err = run_bin_parallel(path, [it["line"] for it in items], args=args)
        if len(outl) != len(items):
            errors.append((f"harness_run_{prof}", f"lines={len(outl)}/{len(items)} {err[-500:]}"))
            continue
        for i, (a, b) in enumerate(zip(base_out, outl)):
            if a != b:
                diffs.append((i, prof, b))
    return diffs, errors


HANG_RC = -997
PROBE_TIMEOUT = int(os.environ.get("VERIF_PROBE_TIMEOUT", "45"))
# upper bound for one harness process over its share of the cases; check.py lowers it for quick-depth runs (a quick
# shard takes seconds, and a change that makes the implementation loop for ever must not stall the check for hours)
DEFAULT_RUN_TIMEOUT = int(os.environ.get("VERIF_RUN_TIMEOUT", "1200"))


def _to(timeout):
    return DEFAULT_RUN_TIMEOUT if timeout is None else timeout


def run_bin(path, lines, timeout=None, args=()):
    timeout = _to(timeout)
    """Feed one case per line, get one observation line per case."""
    inp = "\n".join(lines) + "\n"
    try:
        p = subprocess.run([path] + list(args), input=inp, stdout=subprocess.PIPE, stderr=subprocess.PIPE,
                           text=True, timeout=timeout, errors="replace")
    except subprocess.TimeoutExpired as e:
        # a case on which the implementation does not return (a loop that no longer terminates) is handled
        # like a process death: run_bin_robust isolates the case and records it as that case's observation
        so = e.stdout if isinstance(e.stdout, str) else (e.stdout or b"").decode(errors="replace")
        outl = so.split("\n")
        if outl and outl[-1] == "":
            outl.pop()
        return HANG_RC, outl, "timeout"
    outl = p.stdout.split("\n")
    if outl and outl[-1] == "":
        outl.pop()
    return p.returncode, outl, p.stderr


def _first_crash(path, lines, timeout, args):
    timeout = _to(timeout)
    """index of the first line whose (isolated-prefix) run makes the binary die, by bisection"""
    lo, hi = 0, len(lines)  # invariant: lines[:lo] runs fine, lines[:hi] crashes
    while hi - lo > 1:
        mid = (lo + hi) // 2
        rc, out, err = run_bin(path, lines[:mid], timeout, args)
        if rc != 0:
            hi = mid
        else:
            lo = mid
    return hi - 1


def run_bin_robust(path, lines, timeout=None, args=()):
    """run_bin, but a process death (abort, signal, UB trap) on some case does not lose the other
    cases: the crashing case gets the observation line `HARNESS-PANIC -<rc>` and the run continues."""
    timeout = _to(timeout)
    out_all, rest, base = [], list(lines), 0
    crashes = 0
    while rest:
        rc, out, err = run_bin(path, rest, timeout, args)
        if rc == 0 and len(out) == len(rest):
            out_all += out
            break
        crashes += 1
        if rc == HANG_RC:
            # bisection probes that contain the hanging case should not each wait for the full timeout
            timeout = min(timeout, PROBE_TIMEOUT)
        if crashes > 4:
            # many cases kill the process: keep the ones found, mark the rest as not run
            out_all += ["HARNESS-PANIC -998"] * len(rest)
            break
        k = _first_crash(path, rest, timeout, args)
        rc2, out2, _ = run_bin(path, rest[:k], timeout, args) if k > 0 else (0, [], "")
        out_all += out2 + [f"HARNESS-PANIC {-abs(rc) if rc else -1}"]
        rest = rest[k + 1:]
    return 0, out_all, ""


def run_bin_parallel(path, lines, shards=NCPU, timeout=None, args=()):
    if len(lines) < 64:
        return run_bin_robust(path, lines, timeout, args)
    k = min(shards, len(lines))
    step = (len(lines) + k - 1) // k
    parts = [lines[i:i + step] for i in range(0, len(lines), step)]
    with ThreadPoolExecutor(max_workers=k) as ex:
        res = list(ex.map(lambda part: run_bin_robust(path, part, timeout, args), parts))
    rc = max(r[0] for r in res)
    out = [l for r in res for l in r[1]]
    err = "".join(r[2] for r in res)
    return rc, out, err


# ---------------------------------------------------------------------------
# running the Coq model on cases (vm_compute inside coqc)


def zlit(n):
    n = int(n)
    return f"({n})%Z" if n < 0 else f"{n}%Z"


def zlist(xs):
    return "[" + "; ".join(zlit(x) for x in xs) + "]"


def zlistlist(xss):
    return "[" + "; ".join(zlist(x) for x in xss) + "]"


def nlit(n):
    return f"{int(n)}%N"


def parse_obs_line(line):
    """'1 2;3;;4 5' -> [[1,2],[3],[],[4,5]]   (';'-separated observations, each a list of ints)"""
    if line.strip() == "":
        return []
    return [[int(t) for t in part.split()] for part in line.split(";")]


COQ_FLAGS = ["-Q", os.path.join(COQ, "theories"), "Dasp", "-Q", os.path.join(COQ, "gen"), "DaspGen",
             "-w", "-notation-overridden,-deprecated-hint-without-locality,-deprecated-instance-without-locality,-ambiguous-paths"]


def coq_check_cases(tag, header, check_fn, cases, shards=NCPU, per_file=150, timeout=1500):
    """cases: list of Coq terms (strings), each of the type check_fn expects;
    check_fn : case -> bool (true = the model agrees with the observation embedded in the case).
    Evaluates them inside coqc with vm_compute and returns the sorted list of failing indices.
    `header` = Require lines.  A coqc process that dies without a Coq error (e.g. killed for
    memory on a loaded machine) is retried once in four smaller pieces."""
    # the model files named in the header may lie outside the closure of props/Cxx.v: build them
    targets = []
    toks = header.replace("\n", " ").split()
    i = 0
    while i < len(toks):
        if toks[i] == "From" and i + 3 < len(toks) and toks[i + 1] in ("Dasp", "DaspGen") and toks[i + 2] == "Require":
            lib = toks[i + 1]
            j = i + 3
            if toks[j] in ("Import", "Export"):
                j += 1
            while j < len(toks):
                t = toks[j]
                last = t.endswith(".")
                t = t.rstrip(".")
                if re.match(r"^[A-Za-z_][\w']*(\.[A-Za-z_][\w']*)*$", t):
                    targets.append(("theories/" if lib == "Dasp" else "gen/") + t.replace(".", "/") + ".vo")
                j += 1
                if last:
                    break
            i = j
        else:
            i += 1
    if targets:
        okb, logb = coq_make(targets)
        if not okb:
            return [], [("model_build", logb[-3000:])]
    d = ensure_dir(os.path.join(OUT, "cases", tag))
    for f in glob.glob(os.path.join(d, "*")):
        os.remove(f)
    if not cases:
        return [], []
    nfiles = max(1, min(max(shards, (len(cases) + per_file - 1) // per_file), len(cases)))
    step = (len(cases) + nfiles - 1) // nfiles
    jobs = [(k, cases[k:k + step]) for k in range(0, len(cases), step)]

    def run_one(k, part, suffix=""):
        name = f"cases_{k}{suffix}"
        body = [header, "Require Import List ZArith NArith. Import ListNotations.",
                "Open Scope Z_scope.",
                f"Definition the_cases := [\n" + ";\n".join(part) + "\n].",
                "Fixpoint bad_idx {A} (f : A -> bool) (i : N) (l : list A) : list N :=",
                "  match l with [] => [] | x :: t => if f x then bad_idx f (N.succ i) t else i :: bad_idx f (N.succ i) t end.",
                f"Definition the_bad := bad_idx ({check_fn}) {k}%N the_cases.",
                "Eval vm_compute in the_bad."]
        with open(os.path.join(d, name + ".v"), "w") as f:
            f.write("\n".join(body) + "\n")
        rc, out = sh(["timeout", str(timeout), "coqc", "-noglob"] + COQ_FLAGS + [name + ".v"], cwd=d)
        if rc != 0:
            return None, (name, out[-3000:]), ("Error" in out)
        m = re.search(r"=\s*(\[.*?\])\s*:\s*list N", out, re.S)
        if not m:
            return None, (name, "unparsable coqc output:\n" + out[-2000:]), True
        return [int(x) for x in re.findall(r"(\d+)%N", m.group(1))], None, False

    def run(job):
        k, part = job
        bad, err, is_coq_error = run_one(k, part)
        if err is None:
            return bad, []
        if is_coq_error or len(part) < 2:
            return [], [err]
        # died without a Coq error: retry in four pieces, sequentially
        q = (len(part) + 3) // 4
        bads, errs = [], []
        for j in range(0, len(part), q):
            b2, e2, _ = run_one(k + j, part[j:j + q], suffix="_r")
            if e2 is None:
                bads += b2
            else:
                errs.append(e2)
        return bads, errs

    bad, errors = [], []
    with ThreadPoolExecutor(max_workers=min(NCPU, max(1, len(jobs)))) as ex:
        for b, e in ex.map(run, jobs):
            bad += b
            errors += e
    return sorted(bad), errors


def coq_eval(tag, header, expr, timeout=600):
    """Evaluate one expression with vm_compute and return coqc's raw printed result."""
    d = ensure_dir(os.path.join(OUT, "cases", tag + "_eval"))
    with open(os.path.join(d, "e.v"), "w") as f:
        f.write(header + "\nRequire Import List ZArith NArith. Import ListNotations.\nOpen Scope Z_scope.\n"
                f"Eval vm_compute in ({expr}).\n")
    rc, out = sh(["timeout", str(timeout), "coqc", "-noglob"] + COQ_FLAGS + ["e.v"], cwd=d)
    return rc, out


# ---------------------------------------------------------------------------
# known findings, reporting, evidence


def known_findings(prop):
    p = os.path.join(VERIF, "KNOWN_FINDINGS.json")
    if not os.path.exists(p):
        return []
    return [e for e in json.load(open(p)).get("findings", []) if e.get("property") == prop]


class Report:
    def __init__(self, prop, tier, seed):
        self.prop, self.tier, self.seed = prop, tier, seed
        self.t0 = time.time()
        self.violations = []
        self.known = []
        self.notes = []
        self.extra = {}
        self.replay_dir = ensure_dir(os.path.join(OUT, "replay"))
        for f in glob.glob(os.path.join(self.replay_dir, f"{prop}_*.json")):
            os.remove(f)

    def violation(self, name, payload, no_input=False):
        path = os.path.join(self.replay_dir, f"{self.prop}_{name}.json")
        with open(path, "w") as f:
            json.dump(payload, f, indent=1, default=str)
        line = f"VIOLATION property={self.prop} replay={path}"
        if no_input:
            line += " no-failing-input-found"
        self.violations.append(line)

    def known_finding(self, what):
        self.known.append(f"KNOWN-FINDING: property={self.prop} {what}")

    def finish(self, level, coverage, assumptions):
        if self.extra:
            coverage = dict(coverage)
            coverage.update(self.extra)
        ev = {
            "property_id": self.prop, "tier": self.tier, "seed": self.seed, "level": level,
            "coverage": coverage, "assumptions": assumptions,
            "wall_s": round(time.time() - self.t0, 2), "violations": len(self.violations),
        }
        evdir = ensure_dir(os.path.join(OUT, "cov_evidence") if COV else os.path.join(VERIF, "evidence"))
        with open(os.path.join(evdir, f"{self.prop}.json"), "w") as f:
            json.dump(ev, f, indent=1, default=str)
        for l in self.notes:
            print(l)
        for l in self.known:
            print(l)
        for l in self.violations:
            print(l)
        ok = not self.violations
        print(f"{self.prop} [{self.tier}] {'OK' if ok else 'FAILED'} in {ev['wall_s']}s")
        return 0 if ok else 1


TRUSTED_COMMON = [
    "Coq 8.16.1 kernel (coqc, full .vo builds; vm_compute used in Examples/witnesses and to run the model on cases; no native_compute)",
    "correspondence machinery: lib/*.py generators and diff, harness/ Rust binaries, coqc evaluation of the model's executable definitions",
    "rustc/LLVM implement integer and IEEE-754 operations per the Rust reference on x86-64",
]


def standard_proof_phase(rep, prop, allowed_axioms=frozenset()):
    """Build + audit the property's Coq closure. Returns dict(info) ; registers a
    no-failing-input-found violation when the proofs do not check."""
    t = time.time()
    ok, log = coq_prop_build(prop)
    info = {"coq_ok": ok, "coq_s": None}
    if not ok:
        rep.violation("proof_broken", {"kind": "proof obligation no longer checks",
                                      "target": f"coq/props/{prop}.vo", "log_tail": log[-4000:]}, no_input=True)
        info["theorems"] = []
        info["axioms"] = []
        info["coq_s"] = round(time.time() - t, 1)
        return info
    problems, ainfo = coq_audit(prop, log, allowed_axioms)
    info.update(ainfo)
    info["coq_s"] = round(time.time() - t, 1)
    if problems:
        rep.violation("audit", {"kind": "audit of the Coq development failed", "problems": problems}, no_input=True)
    return info


# ---------------------------------------------------------------------------
# the standard correspondence flow


def norm_obs_line(line):
    if line.startswith("HARNESS-PANIC"):
        return [[-9] + [int(t) for t in line.split()[1:]]]
    return parse_obs_line(line)


def correspond(binpath, items, header, check_fn, tag, args=(), per_file=150):
    """items: list of dicts with 'line' (harness input) and 'coq' (Coq term of the case,
    without the observation). Runs the implementation, then the model inside coqc.
    Returns (obs_lines, bad_indices, errors)."""
    rc, outl, err = run_bin_parallel(binpath, [it["line"] for it in items], args=args)
    errors = []
    if rc != 0 or len(outl) != len(items):
        errors.append(("harness", f"rc={rc} lines={len(outl)}/{len(items)} stderr={err[-1500:]}"))
        return outl, [], errors
    terms = []
    for it, o in zip(items, outl):
        try:
            terms.append(f"({it['coq']}, {zlistlist(norm_obs_line(o))})")
        except ValueError:
            errors.append(("harness", f"unparsable observation line {o[:200]!r} for {it['line'][:200]!r}"))
            return outl, [], errors
    bad, cerrs = coq_check_cases(tag, header, check_fn, terms, per_file=per_file)
    return outl, bad, errors + cerrs


def profile_phase(rep, binname, items, outl, profiles=("release",), skip=None, args=()):
    """For properties whose expected observations do not depend on the build profile: run the same cases
    in the other cargo profiles and report every case whose observation differs from the dev-profile one
    (which the model has been compared with).  `skip(item, dev_obs_line)` excludes cases whose behaviour is
    legitimately profile dependent (e.g. an overflow panic that wraps in release).  Returns a dict for evidence."""
    idx = [i for i, it in enumerate(items) if not (skip and skip(it, outl[i]))]
    sub = [items[i] for i in idx]
    base = [outl[i] for i in idx]
    diffs, errs = profile_diff(binname, sub, base, profiles=profiles, args=args)
    for name, msg in errs:
        rep.violation("profile_" + name, {"kind": "harness could not be built/run in another build profile", "log": msg}, no_input=True)
    for j, prof, line in diffs[:3]:
        rep.violation(f"profile_{prof}_case{idx[j]}", {
            "kind": f"the crate behaves differently in the {prof} build profile than in the dev profile on a case where the proved model has no profile dependence",
            "harness_line": sub[j]["line"], "dev_observations": base[j], f"{prof}_observations": line,
            "replay": f"echo '<harness_line>' | harness/target/{prof}/{binname}"})
    return {"profiles_diffed_against_dev": list(profiles), "cases": len(sub), "differences": len(diffs)}


HARNESS_NIGHTLY_NOSTD = os.path.join(VERIF, "harness_nightly_nostd")


def nostd_build(binname, timeout=1500):
    """the same harness binary built (cargo +nightly) against the dasp crates WITHOUT their std feature"""
    crate = HARNESS_NIGHTLY_NOSTD
    env = dict(harness_env())
    env["CARGO_TARGET_DIR"] = os.path.join(crate, "target")
    rc, out = sh(["cargo", "+nightly", "build", "--offline", "--quiet", "--bin", binname], cwd=crate, env=env, timeout=timeout)
    path = os.path.join(crate, "target", "debug", binname)
    return rc == 0 and os.path.exists(path), out, path


def nostd_phase(rep, binname, items, outl, skip=None, args=()):
    """Runs the same cases through the no_std-configured build of the crates and reports every case whose
    observation differs from the std build's (dev profile).  For properties whose statement does not
    depend on the std feature: the no_std code paths (core intrinsics for sin/cos/floor/powf, cfg-gated
    branches) must behave identically."""
    ok, log, path = nostd_build(binname)
    if not ok:
        rep.violation("nostd_build", {"kind": "no_std-configured harness does not build (cargo +nightly)", "log": log[-3000:]}, no_input=True)
        return {"nostd": "build failed"}
    idx = [i for i, it in enumerate(items) if not (skip and skip(it, outl[i]))]
    sub = [items[i] for i in idx]
    rc, out2, err = run_bin_parallel(path, [it["line"] for it in sub], args=args)
    if len(out2) != len(sub):
        rep.violation("nostd_run", {"kind": "no_std-configured harness run incomplete", "log": err[-1500:]}, no_input=True)
        return {"nostd": "run failed"}
    diffs = [(j, b) for j, (a, b) in enumerate(zip([outl[i] for i in idx], out2)) if a != b]
    for j, line in diffs[:3]:
        rep.violation(f"nostd_case{idx[j]}", {
            "kind": "the crate built without its std feature behaves differently from the std build on a case where the property (and the proved model) has no such dependence",
            "harness_line": sub[j]["line"], "std_observations": outl[idx[j]], "no_std_observations": line,
            "replay": f"echo '<harness_line>' | harness_nightly_nostd/target/debug/{binname}"})
    return {"nostd_cases": len(sub), "nostd_differences": len(diffs)}


def shrink_ops(item, rebuild, fails, max_steps=60):
    """Greedy delta-debugging on item['ops'] (a list); rebuild(item, ops) -> new item;
    fails(item) -> bool.  Returns the smallest failing item found."""
    cur = item
    steps = 0
    chunk = max(1, len(cur["ops"]) // 2)
    while chunk >= 1 and steps < max_steps:
        i = 0
        progressed = False
        while i < len(cur["ops"]) and steps < max_steps:
            ops = cur["ops"][:i] + cur["ops"][i + chunk:]
            cand = rebuild(cur, ops)
            steps += 1
            if fails(cand):
                cur = cand
                progressed = True
            else:
                i += chunk
        if not progressed:
            chunk //= 2
    return cur
