"""Second transcription of coq/theories/Dsp/Sinc.v (the model of dasp_interpolate::sinc::Sinc and of the
Converter loop) in python floats = IEEE binary64, kept line-for-line next to the Coq definitions.

It is NOT the proved artefact.  It serves three purposes in lib/props/c18.py:
  1. it computes, for a case, the arguments at which the model calls sin/cos (the oracle queries sent to
     the harness);
  2. run with the oracle answers of the harness it must reproduce the implementation bit for bit at every
     depth (the Coq model is evaluated on the smaller cases; on those all three agree);
  3. run with math.sin/math.cos (same glibc) it is the reference for the numeric verdicts.
"""
import math, struct

PI = struct.unpack("<d", struct.pack("<Q", 0x400921FB54442D18))[0]
assert PI == math.pi


def f64_of_bits(b):
    return struct.unpack("<d", struct.pack("<Q", b & 0xFFFFFFFFFFFFFFFF))[0]


def bits_of_f64(x):
    if x != x:
        return 0x7FF8000000000000
    return struct.unpack("<Q", struct.pack("<d", x))[0]


def f32_of_bits(b):
    return struct.unpack("<f", struct.pack("<I", b & 0xFFFFFFFF))[0]


def bits_of_f32(x):
    if x != x:
        return 0x7FC00000
    return struct.unpack("<I", struct.pack("<f", x))[0]


def round_f32(x):
    """f64 as f32 (round to nearest even, overflow to infinity)"""
    if x != x or x in (math.inf, -math.inf):
        return x
    try:
        return struct.unpack("<f", struct.pack("<f", x))[0]
    except OverflowError:
        return math.copysign(math.inf, x)


class Panic(Exception):
    def __init__(self, code):
        self.code = code


def fdiv(a, b):
    """IEEE division (python raises on /0)"""
    if b == 0.0:
        if a != a or a == 0.0:
            return math.nan
        return math.copysign(math.inf, a) * math.copysign(1.0, b)
    return a / b


# ---- sample formats: (equilibrium, to_f, add_amp_f, dec, enc) ----
NOPANIC = [False]   # set while collecting oracle queries: every tap is visited even where i16 would overflow


def _i16_add(v, p):
    y = p * 32768.0
    if y != y:
        q = 0
    elif y >= 32767.0:
        q = 32767
    elif y <= -32768.0:
        q = -32768
    else:
        q = int(y)  # truncation toward zero
    r = v + q
    if not (-32768 <= r <= 32767) and not NOPANIC[0]:
        raise Panic(1)
    return r


FMT = {
    0: dict(name="f64", equil=0.0, to_f=lambda s: s, add=lambda v, p: v + p, dec=f64_of_bits, enc=bits_of_f64),
    1: dict(name="f32", equil=0.0, to_f=lambda s: s, add=lambda v, p: round_f32(v + round_f32(p)), dec=f32_of_bits,
            enc=bits_of_f32),
    2: dict(name="i16", equil=0, to_f=lambda s: float(s) / 32768.0, add=_i16_add, dec=lambda z: z, enc=lambda z: z),
}

# ---- the fourteen formats by their SPECIFICATION (codes 10 + ConvSpec.fmt_code, 22 f32, 23 f64) ----
# integer format (bits, signed): value z, amplitude amp = z (signed) or z - 2^(bits-1) (offset unsigned);
#   to_sample::<f64>()      = (amp as f64) / 2^(bits-1)                     (int -> f64 rounds to nearest even)
#   f64 -> format -> signed = trunc(p * 2^(bits-1)), `as` saturation at the representation type
#   add_amp                 = amplitude addition, overflow when the sum leaves [-2^(bits-1), 2^(bits-1) - 1]
INT_FORMATS = {10: ("i8", 8, True, 8), 11: ("i16", 16, True, 16), 12: ("I24", 24, True, 32), 13: ("i32", 32, True, 32),
               14: ("I48", 48, True, 64), 15: ("i64", 64, True, 64), 16: ("u8", 8, False, 8), 17: ("u16", 16, False, 16),
               18: ("U24", 24, False, 32), 19: ("u32", 32, False, 32), 20: ("U48", 48, False, 64), 21: ("u64", 64, False, 64)}


def _mk_int(code):
    name, bits, signed, repbits = INT_FORMATS[code]
    half = 1 << (bits - 1)
    off = 0 if signed else half
    rlo, rhi = -(1 << (repbits - 1)), (1 << (repbits - 1)) - 1
    fhalf = float(half)

    def to_f(z):
        return float(z - off) / fhalf

    def add(v, p):
        y = p * fhalf
        if y != y:
            q = 0
        elif y >= float(rhi):
            q = rhi
        elif y <= float(rlo):
            q = rlo
        else:
            q = int(y)
        r = (v - off) + q
        if not (-half <= r <= half - 1) and not NOPANIC[0]:
            raise Panic(1)
        return r + off
    return dict(name=name, equil=off, to_f=to_f, add=add, dec=lambda z: z, enc=lambda z: z, bits=bits, signed=signed,
                lo=0 if not signed else -half, hi=(2 * half - 1) if not signed else half - 1, half=half, off=off)


for _c in INT_FORMATS:
    FMT[_c] = _mk_int(_c)
FMT[22] = dict(FMT[1], name="f32g")
FMT[23] = dict(FMT[0], name="f64g")
FMT[2].update(bits=16, signed=True, lo=-32768, hi=32767, half=32768, off=0)


def is_int(fmt):
    return fmt == 2 or 10 <= fmt <= 21


class Oracle:
    """sin or cos: records the arguments it is asked (bit patterns, first-use order); answers from a table
    when one is given, else from libm"""

    def __init__(self, fn, table=None):
        self.fn, self.table, self.asked, self.seen = fn, table, [], set()

    def __call__(self, a):
        b = bits_of_f64(a)
        if b not in self.seen:
            self.seen.add(b)
            self.asked.append(b)
        if self.table is not None:
            return f64_of_bits(self.table[b])
        return self.fn(a) if math.isfinite(a) else math.nan


class Sinc:
    """Fixed ring buffer {first, data} of 2*depth frames + idx"""

    def __init__(self, fmt, ch, depth, sin_o, cos_o):
        self.F, self.ch, self.sin_o, self.cos_o = FMT[fmt], ch, sin_o, cos_o
        n = 2 * depth
        if n == 0:
            raise Panic(3)  # Fixed::from asserts first < len
        self.data = [[self.F["equil"]] * ch for _ in range(n)]
        self.first = 0
        self.idx = 0

    def flen(self):
        return len(self.data)

    def depth(self):
        return self.flen() // 2

    def fget(self, i):
        return self.data[(self.first + i) % self.flen()]

    def max_depth(self):
        nl, nr, depth = self.idx, self.idx + 1, self.depth()
        rightmost = nl + depth
        leftmost = nr - depth
        if rightmost >= self.flen():
            return self.flen() - depth
        elif leftmost < 0:
            return depth + leftmost
        return depth

    def weight(self, a):
        depth = self.depth()
        first = 1.0 if a == 0.0 else fdiv(self.sin_o(a), a)
        second = 0.5 + 0.5 * self.cos_o(fdiv(a, float(depth)))
        return first * second

    def zip_acc(self, w, v, fr):
        F = self.F
        return [F["add"](vs, w * F["to_f"](r)) for vs, r in zip(v, fr)]

    def interpolate(self, x):
        phil, phir = x, 1.0 - x
        nl, nr = self.idx, self.idx + 1
        v = [self.F["equil"]] * self.ch
        for n in range(self.max_depth()):
            wl = self.weight(PI * (phil + float(n)))
            if n > nl:
                raise Panic(1)
            v = self.zip_acc(wl, v, self.fget(nl - n))
            wr = self.weight(PI * (phir + float(n)))
            v = self.zip_acc(wr, v, self.fget(nr + n))
        return v

    def partial_sums(self, x):
        """the accumulator after every tap, with unbounded integer accumulation (no overflow check):
        the data of the known-finding class K5 (integer format and a partial sum outside the sample range)"""
        NOPANIC[0] = True
        try:
            v = [self.F["equil"]] * self.ch
            out = []
            for n in range(self.max_depth()):
                v = self.zip_acc(self.weight(PI * (x + float(n))), v, self.fget(self.idx - n))
                out.append(list(v))
                v = self.zip_acc(self.weight(PI * ((1.0 - x) + float(n))), v, self.fget(self.idx + 1 + n))
                out.append(list(v))
            return out
        finally:
            NOPANIC[0] = False

    def weights(self, x):
        """(buffer index, weight) of every tap, in evaluation order — used by the verdicts only"""
        out = []
        for n in range(self.max_depth()):
            out.append((self.idx - n, self.weight(PI * (x + float(n)))))
            out.append((self.idx + 1 + n, self.weight(PI * ((1.0 - x) + float(n)))))
        return out

    def next_source_frame(self, fr):
        self.data[self.first] = list(fr)
        self.first = 0 if self.first + 1 == self.flen() else self.first + 1
        if self.idx < self.depth():
            self.idx += 1

    def reset(self):
        self.idx = 0
        self.first = 0 % self.flen()
        self.data = [[self.F["equil"]] * self.ch for _ in self.data]


class Converter:
    def __init__(self, source, sinc, ratio):
        self.src, self.pulls, self.itp, self.ival, self.ratio = source, 0, sinc, 0.0, ratio

    def next(self, fuel=64):
        while self.ival >= 1.0:
            if fuel == 0:
                raise Panic(-3)
            fuel -= 1
            fr = self.src[self.pulls] if self.pulls < len(self.src) else [self.itp.F["equil"]] * self.itp.ch
            self.pulls += 1
            self.itp.next_source_frame(fr)
            self.ival -= 1.0
        out = self.itp.interpolate(self.ival)
        self.ival += self.ratio
        return out

    # ---- the other public operations (coq/theories/Dsp/SincConv.v): the setters change the ratio and nothing else ----
    def is_exhausted(self):
        return self.pulls >= len(self.src) and self.ival >= 1.0

    def source_pull(self):
        fr = self.src[self.pulls] if self.pulls < len(self.src) else [self.itp.F["equil"]] * self.itp.ch
        self.pulls += 1
        return fr


def ctor_scale(kind, a, b):
    """the scale a constructor hands to scale_playback_hz: 0 scale_playback_hz(a), 1 from_hz_to_hz(a, b), 2 scale_sample_hz(a)"""
    a, b = f64_of_bits(a), f64_of_bits(b)
    return a if kind == 0 else (fdiv(a, b) if kind == 1 else fdiv(1.0, a))


def apply_conv_op(c, op, case, sin_o, cos_o):
    """one non-`next` Converter operation on the transcription; returns the observation (Z-level)"""
    enc = FMT[case["fmt"]]["enc"]
    k = op[0]
    if k == "ratio":
        c.ratio = f64_of_bits(op[1])
        return [7]
    if k == "hz":
        c.ratio = fdiv(f64_of_bits(op[1]), f64_of_bits(op[2]))
        return [7]
    if k == "srate":
        c.ratio = fdiv(1.0, f64_of_bits(op[1]))
        return [7]
    if k == "src":
        return [2, c.pulls]
    if k == "srcpull":
        fr = c.source_pull()
        return [3, c.pulls] + [enc(v) for v in fr]
    if k == "exh":
        return [4, 1 if c.is_exhausted() else 0]
    if k == "acc":
        return [5, bits_of_f64(c.ival)]
    if k == "rebuild":
        scale = ctor_scale(op[1], op[2], op[3])
        if not scale > 0.0:
            raise Panic(9)
        c.itp = Sinc(case["fmt"], case["ch"], case["depth"], sin_o, cos_o)
        c.ival, c.ratio = 0.0, scale
        return [7]
    raise ValueError(k)


def queries(case):
    """the arguments at which the model calls sin and cos on this case (every tap, also past an i16 overflow)"""
    so, co = Oracle(math.sin), Oracle(math.cos)
    NOPANIC[0] = True
    try:
        run_case(case, so, co)
    finally:
        NOPANIC[0] = False
    return list(so.asked), list(co.asked)


def run_case(case, sin_o, cos_o):
    """case: dict(kind 'D'|'V', fmt, ch, depth, ops, [ratio bits, source]) with Z-level values (bit patterns /
    ints). Returns the observation list in the harness encoding (without the two oracle rows)."""
    F = FMT[case["fmt"]]
    dec, enc = F["dec"], F["enc"]
    try:
        s = Sinc(case["fmt"], case["ch"], case["depth"], sin_o, cos_o)
    except Panic as p:
        return [[8, p.code]]
    out = [[7]]
    if case["kind"] == "D":
        for op in case["ops"]:
            try:
                if op[0] == "push":
                    s.next_source_frame([dec(z) for z in op[1:]])
                    out.append([7])
                elif op[0] == "interp":
                    out.append([1] + [enc(v) for v in s.interpolate(f64_of_bits(op[1]))])
                elif op[0] == "reset":
                    s.reset()
                    out.append([7])
            except Panic as p:
                out.append([8, p.code])
    else:
        c = Converter([[dec(z) for z in fr] for fr in case["source"]], s, f64_of_bits(case["ratio"]))
        for op in case["ops"]:
            try:
                if op[0] == "next":
                    o = c.next()
                    out.append([1, c.pulls] + [enc(v) for v in o])
                else:
                    out.append(apply_conv_op(c, op, case, sin_o, cos_o))
            except Panic as p:
                out.append([8, p.code])
                break
    return out
