"""C03 -- sample and frame amplitude arithmetic obeys its identities, channel by channel.
Proof: coq/props/C03.v over Sample/SampleOps.v (add_amp / mul_amp / to_signed / to_float built from the
conversions GENERATED from conv.rs and the companion table GENERATED from impl_sample! by
translate/sampletable2coq.py on every run) and Frame/Frame.v + Frame/FrameOps.v (hand model written after
dasp_frame/src/lib.rs: from_fn as an ordered state-passing fold, map/zip_map through unchecked indexing = UB
when out of range, array_from_iter with MaybeUninit slots, Channels iterator, mono impls).
Tie: the executable definitions (Frame/FrameRun.v) evaluated by coqc on the same cases as the crates,
through the public traits, 232 [S; N] monomorphisations + 14 bare-sample impls, debug and release."""
import json, os, struct, sys, time
from concurrent.futures import ThreadPoolExecutor
import framework as F
import floatbase
import cov_evidence
sys.path.insert(0, os.path.join(F.VERIF, "translate"))
import conv2coq           # noqa: E402
import sampletable2coq    # noqa: E402

PROP = "C03"
META = dict(
    technique="Coq proof over generated conversions + generated companion table + hand model of dasp_frame; coqc-evaluated model vs crates correspondence (debug + release)",
    text="translate/sampletable2coq.py reads the impl_sample! table (Signed, Float, EQUILIBRIUM per format) and pins the text of Sample::{to_signed_sample,to_float_sample,add_amp,mul_amp}; Sample/SampleOps.v composes them from the conversions generated from conv.rs (C01) and the I24/I48 operator model (C15). Coq 8.16.1 proves: the table facts; add_amp s 0 = s (all 14 formats, both profiles); mul_amp s 0.0 = equilibrium and mul_amp s 1.0 = s exactly for the formats that fit the float companion's mantissa (8/16/24-bit with f32, 48-bit with f64), with explicit counterexamples for the 32/64-bit formats; for those wide formats (i32/u32 with f32, i64/u64 with f64), every in-range sample and both profiles: mul_amp s 1.0 does not panic, equals min(MAX, equilibrium + RNE(amplitude)) (RNE = Flocq's round-to-nearest-even of the integer amplitude to 24 / 53 bits; the top end relies on the saturating float->int cast, the float being exactly 1.0 there), is in range and within 2^(bits-prec-2) (64 / 512, attained) of the sample, hence exact whenever the amplitude fits the mantissa; add_amp = re-centred integer addition, Ok iff the signed sum is representable; for EVERY channel count N and every frame: Frame::map/zip_map/from_fn through the unchecked indexing never hit UB and equal the in-order per-channel traversal (call order included), from_samples returns Some(firstn N) iff the iterator has N items, consumes exactly min(N, len) items and never reads an unwritten slot, every amplitude method is the per-channel sample method in channel order, channels()/channel(i) enumerate the frame, any script of iterator steps (next, nth, skip, step_by, count, last, len) on one channels() iterator behaves as the list iterator over the channels (provided methods of core::iter modelled from next()), and a bare sample behaves as the 1-channel frame; a clone of a channels() iterator continues from the original's position and leaves it alone; channel_mut(idx) is Some exactly when channel(idx) is and a write through it (or through channel_unchecked_mut inside the bounds, without UB) changes that channel only, writes through channels_mut() land on the channels front to back (through rev(): back to front) (c03_channel_mut, c03_channels_mut_write, c03_mono_mut). The model is tied to the crates by running it inside coqc on the same cases as the real code (public trait methods, 232 array monomorphisations N=1..32 + 14 mono impls, call-order-recording FnMut closures, counting iterators, panics observed).",
    note="Trusted: Coq kernel; translate/conv2coq.py + translate/sampletable2coq.py; Sample/Rint.v, Sample/TypesModel.v, Base/Float.v (Flocq) as the meaning of Rust's integer / I24 / IEEE operators; core::array::from_fn and core::array::map call their closure in index order (std documentation); harness + generators. Several frame theorems are near-definitional in a functional model: their content is the absence of UB in the unchecked-index code and the pinned correspondence. Axioms: the standard real-number axioms through Flocq for the float identities only.",
    design="6/C03")
HEADER = "From Dasp Require Import Sample.ConvRun Frame.FrameRun.\nRequire Import Uint63."
CHECK = "check"
# compact transport (Frame/FrameRunU.v): one list of primitive 63-bit integers per (case, observations) pair
HEADER_U = "From Dasp Require Import Frame.FrameRunU.\nRequire Import Uint63."
CHECK_U = "checku"
OPCODE = {"sadd": 1, "smul": 2, "ssig": 3, "sflt": 4, "seq": 5, "map": 6, "zip": 7, "fromfn": 8, "fromsamples": 9,
          "channels": 10, "channel": 11, "offset": 12, "scale": 13, "addf": 14, "mulf": 15, "tosigned": 16, "tofloat": 17,
          "equil": 18, "mapba": 19, "mapab": 20, "addfa": 21, "iter": 22,
          # round 3 (whole Frame / Sample surface): ssigf / sfltf are the from_sample spelling of ssig / sflt (same model op)
          "ssigf": 3, "sfltf": 4, "sid": 23, "nch": 24, "chmut": 25, "chun": 26, "chunmut": 27, "chw": 28}

NAMES = ["i8", "i16", "I24", "i32", "I48", "i64", "u8", "u16", "U24", "u32", "U48", "u64", "f32", "f64"]
CODE = {n: i for i, n in enumerate(NAMES)}
BITS = [8, 16, 24, 32, 48, 64, 8, 16, 24, 32, 48, 64, 32, 64]
ALL32 = {"i16", "I24", "u8", "u32", "f32", "f64"}     # monomorphised for every N in 1..=32 (harness/src/bin/c03.rs)
FEW_N = [1, 2, 3, 8, 32]
# fallback companion table (used only to pick amplitudes when the translator fails; the model uses the generated one)
SIGNED_OF = {"i8": "i8", "i16": "i16", "I24": "I24", "i32": "i32", "I48": "I48", "i64": "i64", "u8": "i8", "u16": "i16",
             "U24": "i32", "u32": "i32", "U48": "i64", "u64": "i64", "f32": "f32", "f64": "f64"}
FLOAT64 = {"I48", "i64", "U48", "u64", "f64"}


def is_float(n):
    return n in ("f32", "f64")


def is_signed(n):
    return n[0] in "iI"


def rng_of(n):
    b = BITS[CODE[n]]
    return (-(1 << (b - 1)), (1 << (b - 1)) - 1) if is_signed(n) else (0, (1 << b) - 1)


def half(n):
    return 0 if is_signed(n) else 1 << (BITS[CODE[n]] - 1)


def float_of(n):
    return "f64" if n in FLOAT64 else "f32"


def prec_of(n):
    return 53 if n in FLOAT64 else 24


def is_wide(n):
    return not is_float(n) and BITS[CODE[n]] > prec_of(n)


def rne_int(a, prec):
    """round-to-nearest-even of the integer a to prec significant bits (exact integer arithmetic)"""
    m = abs(a)
    nb = m.bit_length()
    if nb <= prec:
        return a
    sh = nb - prec
    q, rem = divmod(m, 1 << sh)
    hf = 1 << (sh - 1)
    if rem > hf or (rem == hf and (q & 1)):
        q += 1
    return (q << sh) if a >= 0 else -(q << sh)


def scale_by_one_spec(n, v):
    """the closed form of c03_mul_one_wide / c03_mul_one_exact: min(MAX, equilibrium + RNE(amplitude))"""
    return min(rng_of(n)[1], half(n) + rne_int(v - half(n), prec_of(n)))


def wide_one_values(r, n):
    """structured samples for `mul_amp 1.0` on a wide format: both ends (the top one saturates), ties of every
    binade above the mantissa, the last exactly representable amplitudes, random values of every magnitude"""
    lo, hi = rng_of(n)
    b, p, h = BITS[CODE[n]], prec_of(n), half(n)
    top = 1 << (b - p - 2)            # half an ulp of the top binade
    vs = [hi - t for t in (0, 1, top - 2, top - 1, top, top + 1, 2 * top - 1, 2 * top, 2 * top + 1, 3 * top)]
    vs += [lo + t for t in (0, 1, top - 1, top, top + 1, 2 * top, 2 * top + 1)]
    vs += [h + sg * ((1 << p) + d) for sg in (1, -1) for d in (-1, 0, 1, 2, 3)]
    for e in range(p + 1, b - 1):     # amplitudes in [2^e, 2^(e+1)): ulp = 2^(e+1-p)
        u = 1 << (e + 1 - p)
        m = r.below(1 << (p - 1))
        for d in (u // 2, u // 2 + r.choice([-1, 1])):
            vs.append(h + r.choice([1, -1]) * ((1 << e) + m * u + d))
    vs += [h + r.choice([1, -1]) * r.below(1 << r.range(p, b - 1)) for _ in range(6)]
    return [min(hi, max(lo, v)) for v in vs]


def to_signed_py(n, v):
    """python copy of to_signed_sample on integers (only to choose amplitudes, never a verdict)"""
    sg = SIGNED_OF[n]
    return ((v - half(n)) << BITS[CODE[sg]]) >> BITS[CODE[n]]


def fb32(x):
    return struct.unpack("<I", struct.pack("<f", x))[0]


def fb64(x):
    return struct.unpack("<Q", struct.pack("<d", x))[0]


def fbits(w, x):
    return fb32(x) if w == "f32" else fb64(x)


def zt(n):
    n = int(n)
    a = abs(n)
    if a < (1 << 20):
        return f"({n})" if n < 0 else str(n)
    return f"({'zn' if n < 0 else 'zp'} {a >> 32} {a & 0xffffffff})"


def zl(xs):
    return "[" + "; ".join(zt(x) for x in xs) + "]"


def enc_z(out, v):
    """value encoding of Frame/FrameRunU.v unz"""
    v = int(v)
    a = -v if v < 0 else v
    if a < (1 << 60):
        out.append(4 * a + (1 if v < 0 else 0))
    else:
        out.append(4 * (a >> 32) + (3 if v < 0 else 2))
        out.append(a & 0xffffffff)


def enc_term(it, obs_line):
    """the (case, observations) pair as one uint63 list term"""
    out = []
    for v in (it["mode"], CODE[it["fmt"]], it["n"], it["bare"], len(it["ops"])):
        enc_z(out, v)
    for o in it["ops"]:
        enc_z(out, OPCODE[o[0]])
        enc_z(out, len(o) - 1)
        for l in o[1:]:
            enc_z(out, len(l))
            for v in l:
                enc_z(out, v)
    obs = F.norm_obs_line(obs_line)
    enc_z(out, len(obs))
    for l in obs:
        enc_z(out, len(l))
        for v in l:
            enc_z(out, v)
    return "([" + ";".join(map(str, out)) + "]%uint63)"


# ---------------------------------------------------------------------------
# values


def int_val(r, n):
    lo, hi = rng_of(n)
    b = BITS[CODE[n]]
    k = r.below(10)
    if k < 3:
        return r.choice([lo, lo + 1, hi - 1, hi, half(n), half(n) - 1, half(n) + 1, half(n) + 2, half(n) - 2])
    if k < 6:
        e = r.below(b)
        v = half(n) + r.choice([1, -1]) * (1 << e) + r.choice([-1, 0, 1])
        return min(hi, max(lo, v))
    return r.range(lo, hi)


FSPECIAL = [0.0, -0.0, 1.0, -1.0, 0.5, -0.5, 0.25, 2.0, -2.0, 0.999, 1e-3, -1e-3, 3.0, 0.75]


def float_val(r, w, wild=True):
    """bit pattern of an f32/f64: mostly the documented domain [-1, 1), some specials and arbitrary patterns"""
    k = r.below(20)
    tot = 32 if w == "f32" else 64
    mw = 23 if w == "f32" else 52
    bias = 127 if w == "f32" else 1023
    if k < 5:
        return fbits(w, r.choice(FSPECIAL))
    if k < 7:
        return fbits(w, 1.0) - 1 if r.chance(1, 2) else (fbits(w, 1.0) - 1) | (1 << (tot - 1))   # +-(1 - ulp)
    if k < 16 or not wild:
        e = bias - 1 - r.below(r.choice([3, 12, 30]))
        return (r.below(2) << (tot - 1)) | (e << mw) | r.below(1 << mw)
    if k < 18:
        e = bias + r.range(-3, 3)
        return (r.below(2) << (tot - 1)) | (e << mw) | r.below(1 << mw)
    if k == 18:
        return r.choice([0x7F800000, 0xFF800000, 0x7FC00000, 1, 0x00800000] if w == "f32" else
                        [0x7FF0000000000000, 0xFFF0000000000000, 0x7FF8000000000000, 1, 0x0010000000000000])
    v = r.below(1 << tot)
    return v


def canon_nan(w, v):
    if w == "f32":
        return 0x7FC00000 if (v & 0x7F800000) == 0x7F800000 and (v & 0x7FFFFF) else v
    return 0x7FF8000000000000 if (v & 0x7FF0000000000000) == 0x7FF0000000000000 and (v & 0xFFFFFFFFFFFFF) else v


def val(r, n):
    return float_val(r, n) if is_float(n) else int_val(r, n)


def gain(r, n):
    w = float_of(n)
    k = r.below(12)
    if k < 5:
        return fbits(w, r.choice([0.0, 1.0, -1.0, 0.5, 2.0, -0.0, 0.25]))
    return float_val(r, w)


def amp_for(r, n, vs, safe):
    """an amplitude of the Signed type of n for the sample values vs: safe = no channel overflows"""
    if is_float(n):
        return float_val(r, n)
    sg = SIGNED_OF[n]
    lo, hi = rng_of(sg)
    if not safe:
        return r.choice([int_val(r, sg), r.range(lo, hi)])
    ss = [to_signed_py(n, v) for v in vs]
    a_lo, a_hi = max(lo, lo - min(ss)), min(hi, hi - max(ss))
    if a_lo > a_hi:
        return 0
    k = r.below(6)
    step = 1 << (BITS[CODE[sg]] - BITS[CODE[n]])
    if k == 0:
        return r.choice([a_lo, a_hi])
    if k == 1:
        return min(a_hi, max(a_lo, r.choice([1, -1, step, -step, 3 * step, step - 1, -step - 1])))
    return r.range(a_lo, a_hi)


def frame(r, n, N):
    fr = [val(r, n) for _ in range(N)]
    if N >= 2 and len(set(fr)) == 1:
        fr[-1] = val(r, n) ^ 1 if is_float(n) else (fr[0] + 1 if fr[0] < rng_of(n)[1] else fr[0] - 1)
    return fr


# ---------------------------------------------------------------------------
# cases


def fmt_lists(ls):
    return " | ".join(" ".join(str(x) for x in l) for l in ls)


COQ_OP = {
    "sadd": lambda a: f"ZSAdd {zt(a[0][0])} {zt(a[0][1])}", "smul": lambda a: f"ZSMul {zt(a[0][0])} {zt(a[0][1])}",
    "ssig": lambda a: f"ZSSigned {zt(a[0][0])}", "sflt": lambda a: f"ZSFloat {zt(a[0][0])}", "seq": lambda a: "ZSEquil",
    "map": lambda a: f"ZMap {zl(a[0])} {zl(a[1])}", "zip": lambda a: f"ZZip {zl(a[0])} {zl(a[1])} {zl(a[2])}",
    "fromfn": lambda a: f"ZFromFn {zl(a[0])}", "fromsamples": lambda a: f"ZFromSamples {zl(a[0])}",
    "channels": lambda a: f"ZChannels {zl(a[0])}", "channel": lambda a: f"ZChannel {zl(a[0])} {zt(a[1][0])}",
    "offset": lambda a: f"ZOffset {zl(a[0])} {zt(a[1][0])}", "scale": lambda a: f"ZScale {zl(a[0])} {zt(a[1][0])}",
    "addf": lambda a: f"ZAddF {zl(a[0])} {zl(a[1])}", "mulf": lambda a: f"ZMulF {zl(a[0])} {zl(a[1])}",
    "tosigned": lambda a: f"ZToSigned {zl(a[0])}", "tofloat": lambda a: f"ZToFloat {zl(a[0])}", "equil": lambda a: "ZEquilF",
    "mapba": lambda a: f"ZMapBA {zl(a[0])} {zl(a[1])}", "mapab": lambda a: f"ZMapAB {zl(a[0])} {zl(a[1])}",
    "addfa": lambda a: f"ZAddFA {zl(a[0])} {zl(a[1])}",
    "iter": lambda a: f"ZIter {zt(a[0][0])} {zl(a[1])} {zl(a[2])}",
    "ssigf": lambda a: f"ZSSigned {zt(a[0][0])}", "sfltf": lambda a: f"ZSFloat {zt(a[0][0])}",
    "sid": lambda a: "ZSIdentity", "nch": lambda a: "ZNumChannels",
    "chmut": lambda a: f"ZChannelMut {zl(a[0])} {zt(a[1][0])} {zt(a[2][0])}",
    "chun": lambda a: f"ZChannelUnchecked {zl(a[0])} {zt(a[1][0])}",
    "chunmut": lambda a: f"ZChannelUncheckedMut {zl(a[0])} {zt(a[1][0])} {zt(a[2][0])}",
    "chw": lambda a: f"ZChannelsMutWrite {zl(a[0])} {zl(a[1])} {zt(a[2][0])}",
}


def build(item, ops=None):
    """item: dict(fmt name, n, bare, mode, ops=[[name, list, list, ..]])"""
    it = dict(item)
    if ops is not None:
        it["ops"] = ops
    txt = " , ".join((o[0] + " " + fmt_lists(o[1:])).strip() for o in it["ops"])
    it["line"] = f"{CODE[it['fmt']]} {it['n']} {it['bare']} ; {txt}"
    it["coq"] = f"FCase {it['mode']} {CODE[it['fmt']]} {it['n']} {it['bare']} [" + "; ".join(COQ_OP[o[0]](o[1:]) for o in it["ops"]) + "]"
    return it


def sample_ops(r, n, count):
    ops = [["seq", []], ["sid", []]]
    sg, fl = SIGNED_OF[n], float_of(n)
    lo, hi = rng_of(n) if not is_float(n) else (0, 0)
    fixed = [lo, lo + 1, hi - 1, hi, half(n), half(n) + 1, half(n) - 1] if not is_float(n) else [fbits(n, x) for x in FSPECIAL]
    one, zero = fbits(fl, 1.0), fbits(fl, 0.0)
    for v in fixed:
        ops += [["sadd", [v, 0]], ["smul", [v, zero]], ["smul", [v, one]], ["ssig", [v]], ["sflt", [v]], ["ssigf", [v]], ["sfltf", [v]]]
    if is_wide(n):
        ops += [["smul", [v, one]] for v in wide_one_values(r, n)]
    for _ in range(count):
        v = val(r, n)
        k = r.below(10)
        if k < 4:
            ops.append(["sadd", [v, amp_for(r, n, [v], r.chance(3, 4))]])
        elif k < 8:
            ops.append(["smul", [v, r.choice([one, zero, gain(r, n), gain(r, n)])]])
        elif k == 8:
            ops.append([r.choice(["ssig", "ssigf"]), [v]])
        else:
            ops.append([r.choice(["sflt", "sfltf"]), [v]])
    return ops


def iter_scripts(r, N, kind):
    """scripts (flat triples code a b) on ONE iterator: structured ones that apply nth / skip / step_by / count /
    last / len to a PARTLY CONSUMED (and to an exhausted) iterator, plus random ones"""
    back = kind != 0
    cl = [9, 0, 0] if kind != 2 else []    # clone the iterator, next() and len() on the clone (ChannelsMut is not Clone)
    k1, k2 = r.below(N + 1), r.below(N + 2)
    sc = [
        [0, 0, 0, 0, 0, 0] + cl + [1, 0, 0, 6, 0, 0, 1, 0, 0],               # next, next, clone, nth(0), len, nth(0)
        [0, 0, 0, 2, k1 % 3, 0, 6, 0, 0, 3, 1 + k2 % 3, N + 1] + cl + [6, 0, 0],     # next, skip(k).next(), len, step_by, clone, len
        cl + [1, k1, 0, 1, 0, 0, 2, 0, 0, 4, 0, 0, 1, 0, 0, 0, 0, 0] + cl + [6, 0, 0],    # clone (fresh), nth(k), nth(0), skip(0).next(), count, nth(0), next, clone (exhausted), len
        [0, 0, 0, 3, 2, max(1, N // 2), 5, 0, 0, 1, 0, 0],                   # next, step_by(2).take, last, nth(0) on exhausted
    ]
    if back:
        sc.append([7, 0, 0, 0, 0, 0, 1, k1 % 2, 0, 6, 0, 0, 8, 2, 0, 7, 0, 0, 6, 0, 0])   # next_back, next, nth, len, rev.take(2), next_back, len
    for _ in range(2):
        steps = []
        for _ in range(r.range(3, 7)):
            c = r.choice([0, 0, 1, 1, 2, 2, 3, 4, 5, 6, 6] + ([7, 7, 8] if back else []) + ([9, 9] if kind != 2 else []))
            a = r.range(1, 4) if c == 3 else r.below(N + 2) if c in (1, 2) else r.below(N + 1) if c == 8 else 0
            b = r.below(N + 2) if c == 3 else 0
            steps += [c, a, b]
        sc.append(steps)
    return sc


def frame_ops(r, n, N, bare, full_short):
    sg, fl = SIGNED_OF[n], float_of(n)
    fr = frame(r, n, N)
    outs = frame(r, n, N)
    other_s = [amp_for(r, n, [v], r.chance(4, 5)) for v in fr]
    ops = [["map", fr, outs], ["zip", fr, [val(r, sg) for _ in range(N)], frame(r, n, N)], ["fromfn", frame(r, n, N)]]
    ks = range(0, N + 3) if full_short else sorted({0, N - 1, N, N + 2, r.below(N + 1)})
    for k in ks:
        ops.append(["fromsamples", [val(r, n) for _ in range(k)]])
    ops.append(["channels", fr])
    for kind in (0, 1, 2):
        for script in iter_scripts(r, N, kind):
            ops.append(["iter", [kind], fr, script])
    for i in sorted({0, N - 1, N, N + 5, r.below(N)}):
        ops.append(["channel", fr, [i]])
    ops.append(["offset", fr, [amp_for(r, n, fr, True)]])
    ops.append(["offset", fr, [0]] if not is_float(n) else ["offset", fr, [fbits(n, 0.0)]])
    if r.chance(1, 3):
        ops.append(["offset", fr, [amp_for(r, n, fr, False)]])
    ops.append(["scale", fr, [gain(r, n)]])
    if r.chance(1, 2):
        ops.append(["scale", fr, [fbits(fl, r.choice([1.0, 0.0]))]])
    ops.append(["addf", fr, other_s])
    ops.append(["mulf", fr, [gain(r, n) for _ in range(N)]])
    ops += [["tosigned", fr], ["tofloat", fr], ["equil"], ["nch"]]
    # the mutable / unchecked accessors: writes through channel_mut (in and out of range), channel_unchecked(_mut) inside
    # the bounds, writes through channels_mut() from both ends with fewer, as many and more new values than channels
    for i in sorted({N - 1, N, r.below(N), N + 1 + r.below(40)}):
        ops.append(["chmut", fr, [i], [val(r, n)]])
    for i in sorted({0, N - 1, r.below(N)}):
        ops.append(["chun", fr, [i]])
    for i in sorted({N - 1, r.below(N)}):
        ops.append(["chunmut", fr, [i], [val(r, n)]])
    for k, dr in ((r.below(N + 1), 0), (max(0, N - 1 - r.below(2)), 1), (N + r.below(3), r.below(2))):
        ops.append(["chw", fr, [val(r, n) for _ in range(k)], [dr]])
    if bare:
        ops += [["mapba", fr, outs], ["mapab", fr, outs], ["addfa", fr, other_s]]
        # a mono closure that is handed too few outputs panics inside from_fn(0): index panic observed and modelled
        ops.append(["map", fr, []])
    return ops


def gen_cases(rng, tier):
    items = []
    thorough = tier == "thorough"
    reps = 4 if thorough else 1
    for mode in (0, 1):
        for n in NAMES:
            r = rng.fork(f"sample{mode}{n}")
            for k in range(reps):
                items.append(build(dict(fmt=n, n=1, bare=1 if k % 2 else 0, mode=mode, ops=sample_ops(r, n, 120 if thorough else 40), kind="sample")))
        for n in NAMES:
            for N in (range(1, 33) if n in ALL32 else FEW_N):
                for k in range(reps):
                    r = rng.fork(f"frame{mode}{n}{N}{k}")
                    full = (mode == 0 or thorough) and (n in ALL32 or N <= 8)
                    items.append(build(dict(fmt=n, n=N, bare=0, mode=mode, ops=frame_ops(r, n, N, False, full), kind="frame")))
            for k in range(reps * 3):
                r = rng.fork(f"bare{mode}{n}{k}")
                items.append(build(dict(fmt=n, n=1, bare=1, mode=mode, ops=frame_ops(r, n, 1, True, True), kind="bare")))
    return items


def nontrivial_ops(it, obs_parts):
    """indices of the ops of a case that exercise something format- or width-dependent (rule in the evidence)"""
    n, N = it["fmt"], it["n"]
    recentred = not is_float(n) and (not is_signed(n) or BITS[CODE[n]] in (24, 48))
    out = []
    for i, o in enumerate(it["ops"]):
        name = o[0]
        if name in ("sadd", "smul"):
            nz = o[1][1] != 0 and not (name == "smul" and o[1][1] in (fb32(0.0), fb64(0.0)) and False)
            if recentred and nz:
                out.append(i)
        elif name in ("offset", "scale"):
            if (recentred and o[2][0] != 0) or (N >= 2 and len(set(o[1])) > 1):
                out.append(i)
        elif name == "fromsamples":
            if len(o[1]) < N:
                out.append(i)
        elif name in ("map", "zip", "addf", "mulf", "tosigned", "tofloat", "channels", "mapba", "mapab", "addfa"):
            if N >= 2 and len(set(o[1])) > 1:
                out.append(i)
        elif name == "iter":
            # a position-dependent step (nth / skip / step_by / count / last / len / next_back) applied after the
            # iterator has already been advanced by an earlier step of the same script
            sc = o[3]
            if len(sc) > 3 and any(sc[j] != 0 for j in range(3, len(sc), 3)):    # includes a clone (9) of an advanced iterator
                out.append(i)
        elif name == "fromfn":
            if N >= 2 and len(set(o[1])) > 1:
                out.append(i)
        elif name in ("chmut", "chunmut"):
            # a write that lands on a channel other than the first of a frame with distinct channels, or is refused
            if (N >= 2 and o[2][0] > 0 and len(set(o[1])) > 1) or (name == "chmut" and o[2][0] >= N):
                out.append(i)
        elif name == "chun":
            if N >= 2 and o[2][0] > 0 and len(set(o[1])) > 1:
                out.append(i)
        elif name == "chw":
            if N >= 2 and 0 < len(o[2]) < N:
                out.append(i)
    return out


def load_corpus():
    d = os.path.join(F.VERIF, "corpus", PROP)
    items = []
    if os.path.isdir(d):
        for fn in sorted(os.listdir(d)):
            if fn.endswith(".json"):
                items.append(build(json.load(open(os.path.join(d, fn)))))
    return items


def regenerate():
    """both translators; returns (error text or None, rewritten files)"""
    changed = []
    try:
        _, ch = conv2coq.generate()
        changed += ch
        _, ch2 = sampletable2coq.generate()
        if ch2:
            changed.append("SampleTable.v")
        return None, changed
    except conv2coq.TranslateError as e:
        return str(e), changed


def build_bins():
    out = {}
    for mode, rel in ((0, False), (1, True)):
        ok, log, path = F.harness_build("c03", release=rel)
        if not ok:
            return None, log
        out[mode] = path
    return out, ""


PREBUILD = ["theories/Frame/FrameRunU.vo", "theories/Frame/FrameExamples.vo", "theories/Frame/ChanIterProofs.vo",
            "theories/Frame/FrameOpsProofs.vo", "theories/Sample/SampleOpsFloatProofs.vo", "theories/Sample/SampleOpsWideProofs.vo",
            "theories/Base/FloatRun.vo"]


def correspond_u(bins, items, tag):
    """both profiles' binaries, then ONE balanced coqc batch over the uint63-encoded (case, observation) pairs.
    Returns (observation lines, bad indices, errors)."""
    outl, errors = [None] * len(items), []
    for mode in (0, 1):
        idx = [k for k, it in enumerate(items) if it["mode"] == mode]
        if not idx:
            continue
        rc, o, err = F.run_bin_parallel(bins[mode], [items[k]["line"] for k in idx])
        if rc != 0 or len(o) != len(idx):
            return outl, [], [("harness", f"profile {mode}: rc={rc} lines={len(o)}/{len(idx)} stderr={err[-1500:]}")]
        for k, x in zip(idx, o):
            outl[k] = x
    terms = []
    for it, o in zip(items, outl):
        try:
            terms.append(enc_term(it, o))
        except ValueError:
            return outl, [], [("harness", f"unparsable observation line {o[:200]!r} for {it['line'][:200]!r}")]
    # balance the shards: deal the cases, largest first, over the shards (coq_check_cases cuts contiguous chunks)
    nsh = max(F.NCPU, (len(terms) + 149) // 150)
    order = sorted(range(len(terms)), key=lambda k: -len(terms[k]))
    buckets = [[] for _ in range(nsh)]
    for j, k in enumerate(order):
        r = j % (2 * nsh)
        buckets[r if r < nsh else 2 * nsh - 1 - r].append(k)
    perm = [k for b in buckets for k in b]
    bad, cerrs = F.coq_check_cases(tag, HEADER_U, CHECK_U, [terms[k] for k in perm])
    return outl, sorted(perm[b] for b in bad), errors + cerrs


def main(rep, tier, seed):
    rng = F.Rng(seed)
    times = {}
    t = time.time()
    terr, changed = regenerate()
    times["translate_s"] = round(time.time() - t, 2)
    if terr:
        rep.violation("translate", {"kind": "model cannot be regenerated: the translators do not recognise the current dasp_sample sources (the committed generated model is used for the rest of this run)",
                                    "error": terr}, no_input=True)
    # everything props/C03.v depends on is built first; then props/C03.vo itself (25 s of Print Assumptions over the
    # C01 closure) is compiled and audited WHILE the harness runs and the model is evaluated
    t = time.time()
    F.coq_make(PREBUILD)
    times["prebuild_s"] = round(time.time() - t, 1)
    pool = ThreadPoolExecutor(max_workers=1)
    proof = pool.submit(F.standard_proof_phase, rep, PROP, F.AX_REALS)

    def proof_info():
        info = proof.result()
        info["regenerated"] = changed
        times["coq_s"] = info.get("coq_s")
        return info

    t = time.time()
    bins, blog = build_bins()
    times["harness_build_s"] = round(time.time() - t, 1)
    if bins is None:
        rep.violation("harness_build", {"kind": "harness does not build against /repo", "log": blog[-4000:]}, no_input=True)
        return finish(rep, proof_info(), {}, times, {})
    t = time.time()
    fb_n, fb_bad, fb_err = floatbase.run(rng.fork("floatbase"), 600 if tier == "quick" else 4000)
    times["floatbase_s"] = round(time.time() - t, 1)
    fb = dict(cases=fb_n, disagreements=len(fb_bad), errors=len(fb_err))
    for name, msg in fb_err:
        rep.violation("floatbase_error", {"kind": "Base/Float.v validation could not be evaluated", "where": name, "log": msg}, no_input=True)
    for case, got in fb_bad[:3]:
        rep.violation("floatbase_case", {"kind": "Base/Float.v disagrees with rustc", "case": case, "rustc": got}, no_input=True)
    t = time.time()
    items = load_corpus() + gen_cases(rng.fork("cases"), tier)
    stats = dict(cases=len(items), evaluations=0, nontrivial=0, panics=0, hist={}, bad=0, samples=[], floatbase=fb)
    seen_nt = set()
    outl, bad, errors = correspond_u(bins, items, "c03")
    for name, msg in errors:
        rep.violation("correspondence_error_" + name.replace("/", "_"),
                      {"kind": "correspondence could not be evaluated", "where": name, "log": msg}, no_input=True)
    if not errors:
        for it, o in zip(items, outl):
            mode = it["mode"]
            parts = o.split(";")
            # the closed form of the theorems c03_mul_one_exact / c03_mul_one_wide, recomputed here in exact integer
            # arithmetic (independent of Flocq) and compared with the CRATE: scaling by 1.0 returns
            # min(MAX, equilibrium + RNE(amplitude)), in range, within 2^(bits - prec - 2) of the sample for the
            # 32/64-bit formats and exactly the sample for the narrower ones
            if not is_float(it["fmt"]):
                fl = float_of(it["fmt"])
                one, prec, b = fbits(fl, 1.0), prec_of(it["fmt"]), BITS[CODE[it["fmt"]]]
                lo, hi = rng_of(it["fmt"])
                for op, ob in zip(it["ops"], parts):
                    if op[0] == "smul" and op[1][1] == one:
                        stats["scale_by_one_checked"] = stats.get("scale_by_one_checked", 0) + 1
                        tk = ob.split()
                        tol = 0 if b <= prec else 1 << (b - prec - 2)
                        want = scale_by_one_spec(it["fmt"], op[1][0])
                        if len(tk) == 2 and tk[0] == "0" and int(tk[1]) != op[1][0]:
                            stats["scale_by_one_inexact"] = stats.get("scale_by_one_inexact", 0) + 1
                            if int(tk[1]) == hi and want == hi and half(it["fmt"]) + rne_int(op[1][0] - half(it["fmt"]), prec) > hi:
                                stats["scale_by_one_saturated"] = stats.get("scale_by_one_saturated", 0) + 1
                        if len(tk) != 2 or tk[0] != "0" or not (lo <= int(tk[1]) <= hi) or abs(int(tk[1]) - op[1][0]) > tol or int(tk[1]) != want:
                            rep.violation(f"scale_by_one_{it['fmt']}_{op[1][0]}", {
                                "kind": "mul_amp(s, 1.0) is not min(MAX, equilibrium + RNE(amplitude)) (or out of range, or further than half an ulp of the top binade from s, or panicked)",
                                "format": it["fmt"], "sample": op[1][0], "observed": ob, "tolerance": tol, "expected": want,
                                "profile": "debug" if mode == 0 else "release",
                                "case": dict(fmt=it["fmt"], n=1, bare=it["bare"], mode=mode, kind="sample", ops=[op])})
            stats["evaluations"] += len(it["ops"])
            stats["panics"] += sum(1 for p in parts if p.startswith("8 "))
            for i in nontrivial_ops(it, parts):
                seen_nt.add((it["fmt"], it["n"], it["bare"], json.dumps(it["ops"][i])))
            h = stats["hist"]
            for key in (f"kind:{it['kind']}", f"profile:{'debug' if mode == 0 else 'release'}", f"fmt:{it['fmt']}", f"N:{it['n']}"):
                h[key] = h.get(key, 0) + len(it["ops"])
            for op in it["ops"]:
                h["op:" + op[0]] = h.get("op:" + op[0], 0) + 1
                if op[0] == "fromsamples":
                    key = "fromsamples:" + ("short" if len(op[1]) < it["n"] else "exact" if len(op[1]) == it["n"] else "long")
                    h[key] = h.get(key, 0) + 1
                if op[0] == "iter":
                    key = "iter:" + ("channels" if op[1][0] == 0 else "channels_ref" if op[1][0] == 1 else "channels_mut")
                    h[key] = h.get(key, 0) + 1
                    h["iter_steps"] = h.get("iter_steps", 0) + len(op[3]) // 3
                    h["iter_clone_steps"] = h.get("iter_clone_steps", 0) + sum(1 for j in range(0, len(op[3]), 3) if op[3][j] == 9)
                if op[0] == "chmut":
                    key = "chmut:" + ("in-range" if op[2][0] < it["n"] else "refused")
                    h[key] = h.get(key, 0) + 1
                if op[0] == "chw":
                    key = "chw:" + ("front" if op[3][0] == 0 else "back") + ":" + ("short" if len(op[2]) < it["n"] else "exact" if len(op[2]) == it["n"] else "long")
                    h[key] = h.get(key, 0) + 1
        stats["bad"] = len(bad)
        for k in (len(items) // 3, 2 * len(items) // 3):
            stats["samples"].append(f"[{'debug' if items[k]['mode'] == 0 else 'release'}] {items[k]['line'][:200]} -> {outl[k][:200]}")
        for idx in bad[:3]:
            it = items[idx]
            mode = it["mode"]

            def fails(c, mode=mode):
                o, b, e = F.correspond(bins[mode], [c], HEADER, CHECK, "c03_shrink")
                return bool(b) and not e

            small = F.shrink_ops(it, build, fails)
            rc, out, _ = F.run_bin(bins[mode], [small["line"]])
            _, model = F.coq_eval("c03", HEADER, f"run_case ({small['coq']})")
            rep.violation(f"case{mode}_{idx}", {
                "kind": "model/implementation disagreement: dasp_sample / dasp_frame do not behave as the model the C03 theorems are proved about",
                "case": {k: small[k] for k in ("fmt", "n", "bare", "mode", "ops", "kind")},
                "profile": "debug" if mode == 0 else "release",
                "harness_line": small["line"], "implementation_observations": out, "model_observations": model[-3000:],
                "original_case_index": idx, "replay": "./check.py C03 --replay <this file>"})
    stats["nontrivial"] = len(seen_nt)
    times["correspondence_s"] = round(time.time() - t, 1)
    return finish(rep, proof_info(), stats, times, fb)


def finish(rep, info, stats, times, fb):
    th = info.get("theorems", [])
    cov = {
        "obligations": max(1, len(th)), "discharged": len(th) if info.get("coq_ok") else 0,
        "checker_cmd": "translate/conv2coq.py; translate/sampletable2coq.py; make -f Makefile.coq props/C03.vo (coqc 8.16.1, full .vo) + Print Assumptions audit",
        "trusted_base": F.TRUSTED_COMMON + [
            "axioms: only the standard real-number / classical axioms of Coq's Reals library, through Flocq, in the float clauses (c03_mul_*); every integer and frame theorem is closed under the global context",
            "translate/conv2coq.py and translate/sampletable2coq.py (impl_sample! table; pinned text of Sample::{to_signed_sample,to_float_sample,add_amp,mul_amp}) -- validated by the model-vs-crate correspondence",
            "Sample/Rint.v, Sample/TypesModel.v (C15), Base/Float.v (Flocq; validated against rustc by lib/floatbase.py on this run) as the meaning of Rust's + and * on primitive integers, I24/I48 and f32/f64",
            "core::array::from_fn and the inherent core::array::map call their closure for indices 0..N-1 in order (std), modelled, not verified",
            "the hand model Frame/Frame.v (arrays as lists, MaybeUninit slots as options, FnMut closures as state-passing functions), validated by the correspondence"],
        "theorems": th, "axioms_reported": info.get("axioms", []),
        "regenerated_files": info.get("regenerated", []),
        "evaluations": stats.get("evaluations", 0), "cases": stats.get("cases", 0),
        "distinct_nontrivial": stats.get("nontrivial", 0),
        "rule": "every op of every case is one evaluation, compared exactly (values, logs of closure calls, iterator call counts, panics). Cases: Sample::{add_amp,mul_amp,to_signed_sample,to_float_sample,EQUILIBRIUM} on boundary-structured + random values of all 14 formats; for i32/u32/i64/u64 additionally mul_amp(s, 1.0) on structured samples (MAX - t and MIN + t around half an ulp of the top binade -- the top ones saturate --, ties and near-ties of every binade above the mantissa, the last exactly representable amplitudes), every mul_amp(s, 1.0) result of the crate also compared with the theorems' closed form min(MAX, equilibrium + RNE(amplitude)) recomputed in exact integer arithmetic; every Frame method on [S; N] for N=1..32 over u8,i16,I24,u32,f32,f64 and N in {1,2,3,8,32} over the other 8 formats, and on every bare sample type; from_samples with every iterator length 0..N+2; iterator-adaptor scripts (structured: nth/skip/step_by/count/last/len on a partly consumed and on an exhausted iterator, next_back/rev on the slice-backed ones, clone-then-next/len of a fresh, a partly consumed and an exhausted channels() / channels_ref() iterator; plus random scripts) on ONE channels() / channels_ref() / channels_mut() instance for every (format, N) and every bare sample; Sample::from_sample spelling of to_signed_sample / to_float_sample, Sample::IDENTITY against FloatSample::IDENTITY, Frame::CHANNELS; writes through channel_mut (in range and refused), channel_unchecked / channel_unchecked_mut inside the bounds, writes through channels_mut() from the front and (rev) from the back with fewer, as many and more new values than channels, the frame read back afterwards; both build profiles. non-trivial = an offset/scale/add_amp/mul_amp with a non-zero amplitude on an unsigned or custom-width (24/48-bit) format, or a frame op on N >= 2 channels with distinct values, or a from_samples with fewer than N items, or an iterator script with a position-dependent step (clone included) after the iterator was advanced, or a write / unchecked read that addresses a channel other than the first of a frame with distinct channels or is refused, or a channels_mut write of fewer new values than channels (distinct (format, N, op, arguments))",
        "samples": stats.get("samples", []), "input_distribution": dict(stats.get("hist", {}), panic_observations=stats.get("panics", 0),
                                                                     source_regions_never_entered=cov_evidence.regions(PROP, "Derived impls (Clone of Channels / ChannelsRef) carry no llvm regions: the clone steps of the iterator scripts are counted in iter_clone_steps.")),
        "disagreements": stats.get("bad", 0), "scale_by_one_bound_checked": stats.get("scale_by_one_checked", 0),
        "scale_by_one_inexact_results": stats.get("scale_by_one_inexact", 0), "scale_by_one_saturated_at_max": stats.get("scale_by_one_saturated", 0), "timing": times, "float_model_validation": fb,
        "explanation": "theorems: identities of add_amp/mul_amp per format, re-centring, per-channel / in-order / no-UB theorems for every N; tie: translator for the companion table and conversions + the executable model run by coqc on the same cases as the crates through the public traits, all observations compared exactly",
    }
    return rep.finish("proof", cov, [
        "Rust integer, I24/I48 and IEEE operators mean what Sample/Rint.v, Sample/TypesModel.v and Base/Float.v say",
        "core::array::from_fn / core::array::map visit indices in increasing order",
        "usize indices are unbounded naturals (N <= 32 in the crate's use)",
        "the translators are faithful (validated by correspondence, not proved)"])


def replay(path):
    j = json.load(open(path))
    c = j.get("case")
    if not c:
        print("replay file names no concrete input:", json.dumps(j, indent=1)[:3000])
        return 1
    it = build(c)
    bins, blog = build_bins()
    if bins is None:
        print("harness does not build:", blog[-2000:])
        return 1
    regenerate()
    rc, out, _ = F.run_bin(bins[it["mode"]], [it["line"]])
    _, model = F.coq_eval("c03", HEADER, f"run_case ({it['coq']})")
    print("case:", it["line"])
    print("implementation:", out)
    print("model:", model)
    o, bad, errs = F.correspond(bins[it["mode"]], [it], HEADER, CHECK, "c03_replay")
    print("AGREE" if not bad and not errs else "DISAGREE")
    return 1 if bad or errs else 0
