"""C04 — signal adaptors are pointwise, lock-step, one source frame per output frame.
Proof: coq/props/C04.v over the deep embedding of adaptor trees (Signal/Sig.v): pointwise law per
adaptor, delay law, one-pull-per-source (by position in the tree, any nesting), by_ref resumption,
composition law, clip law.  Tie: the executable instances (Signal/SigRun.v) are run inside coqc on
random adaptor trees and compared exactly with dasp_signal driven through a local Box<dyn Signal>; plus a
statically typed nesting family (`st` nodes: method chains on concrete adaptor types, see st_cases below)."""
import framework as F
import sigcases as S

PROP = "C04"
META = dict(
    technique="Coq proof by structural induction over a deep embedding of adaptor trees + coqc-evaluated model vs crate correspondence on random trees",
    text="Machine-checked (Coq 8.16.1) over a deep embedding of dasp_signal's adaptor trees whose next/is_exhausted are written after the Rust impls, parametric in the frame type and frame operations: the n-th frame of every adaptor is the frame operation applied to the n-th frame(s) of its source(s); delay(k) is k equilibrium frames then the source; every next advances every sub-signal of the tree by exactly one next (none below a delay that is still emitting silence) so a borrowed signal resumes exactly where the adaptor left it; any nesting equals the composition of the pointwise functions; clip_amp clamps the signed amplitude to [-t,t]. Tied to the crate by running the model inside coqc on random trees (depth <= 5; five hand instances incl. float, unsigned, multi-channel, bare-sample frames, and instances over the C03 sample model for all other sample formats incl. I24 / U48 as bare samples) and comparing frames, is_exhausted, the order of leaf pulls / closure calls and the leaf pull counters exactly. Besides the trees built behind dyn Signal boxes there is a STATICALLY TYPED nesting family: for every ordered pair (outer, inner) of the 13 adaptor kinds (offset, scale, their per-channel variants, clip, delay, inspect, map x2, add, mul, zip_map x2) the harness applies `leaf.inner(p1).outer(p2)` as one method chain on concrete types (7 formats), same-kind triples for offset / scale, and every kind on a statically typed Equilibrium / Gen / GenMut leaf, so that an inherent method shadowing a Signal method or an impl specialised to one adaptor type is what gets called; parameters are chosen so that folding two levels into one is visible (non-dyadic float constants checked to round differently; integer offsets whose sum overflows the format although the running sums do not). Delay lengths are also generated AT TYPE-WIDTH BOUNDARIES: every k in {2^w - 1, 2^w, 2^w + 1, 2^w + 2, 2^w + 5 : w = 8, 15, 16, 24, 31, 32, 33, 53, 63} and 3*2^32 + 1, 5*2^32, 2^40 + 3, 2^63 + 2^32, 2^64 - 2^32 (+1), usize::MAX - 1, usize::MAX, over a borrowed finite base at any position of a small tree, on owned (almost) empty sources, nested in another long delay, cloned, and in the statically typed forms: a few calls must yield equilibrium only, leave is_exhausted false, pull nothing, and hand the base back at its first frame. The model counts a delay in unary, so the executable model first clamps every delay length of a case to 1 + the number of calls of next the case can make; theorem c04_run_delay_normalisation_sound (every case, every instance) says this changes no observation, from c04_delay_beyond_run (for every tree holding a delay longer than m, any other length above m is indistinguishable during m calls: frames, events, is_exhausted, pull counters, sub-signals handed back).",
    note="Trusted: Coq kernel; the hand-written model (closures as pure functions, iterators as lists) validated only through the correspondence; Flocq-based float instance validated against rustc in the same run; harness + python generators. Axioms: none.",
    design="6/C04")

RULE = ("random adaptor trees (bases of depth <= 2 borrowed through by_ref by op trees of depth <= 3, plus owned trees of depth <= 5) over "
        "[i16;2], [u8;3], i32, f64, [f32;2] (hand instances) and I24, U24, I48, U48, i8, u16, u32, i64, u64 as bare samples and 2-3 channel arrays (instances over the C03 sample model, true equilibrium, specification-guarded conversions), source lengths <= 40, by_ref hand-backs after random numbers of next; owned stacks also cloned "
        "after j calls (clone and original must continue identically) and driven through clone / nth / skip of the returned iterators; "
        "plus the statically typed nesting family (harness node `st`: one method chain on concrete adaptor types, no box between the levels; the model evaluates the ordinary nested tree): every ordered pair (outer, inner) of {offset, scale, offsetpc, scalepc, clip, delay, inspect, map rev, map add-k, add, mul, zip sub, zip select} over f64, [f32;2], [i16;2], [u8;3], i32, I24, U48 leaves (mul only where signal x signal mul is driven), "
        "offset-like and scale-like chains incl. same-kind triples with fold-revealing parameters (floats: non-dyadic constants for which sequential and folded evaluation differ on some frame, checked in python; integers with a same-width Signed companion: a + b outside the format while x + a and x + a + b are inside, exact per-channel sums), and every kind on a statically typed eq / gen / gen_mut leaf; "
        "plus the boundary-count family: for every delay length k of S.boundary_counts (2^w-1, 2^w, 2^w+1, 2^w+2, 2^w+5 for w in 8,15,16,24,31,32,33,53,63; multiples of 2^32 plus a little; usize::MAX and neighbours) one case over a borrowed finite base: delay(k) under 0-2 random adaptor levels for 3-5 calls, the base read back, delay(k) over an (almost) empty owned source, nested with another long / a short delay, a cloned stack, the three statically typed forms; the model receives the true k and clamps it to the run's bound itself (theorem c04_run_delay_normalisation_sound); "
        "non-trivial = some op tree (bases expanded) of depth >= 2 containing a delay with k > 0 or a binary node whose sources have different lengths, or an interleaved-sample iterator cloned mid-frame")


def gen_case(r, tier, fm=None):
    """fm given: one of the instances over the C03 sample model (all other sample formats): smaller trees,
    equilibrium-sensitive adaptors (delay, sources running dry) and float-companion operations favoured"""
    allfmt = fm is not None
    fm = fm or r.choice(["i16x2", "i16x2", "i16x2", "u8x3", "u8x3", "i32x1", "i32x1", "f64x1", "f32x2"])
    flt = S.FMTS[fm]["flt"] or allfmt
    for attempt in range(40):
        wide = r.chance(1, 6) and attempt < 20
        g = S.Gen(r, fm, wide=wide, maxlen=(6 if allfmt else 10) if flt else 40)
        owned = r.chance(1, 4)
        nb = 0 if owned else r.choice([1, 1, 2])
        bases = [g.tree(r.choice([0, 1, 2, 2])) for _ in range(nb)]
        ops = []
        nops = r.choice([1, 2]) if owned else r.choice([2, 3, 4, 5])
        if flt:
            nops = min(nops, 3)
        for _ in range(nops):
            used = set()

            def leafgen():
                free = [i for i in range(nb) if i not in used]
                if free and r.chance(1, 2):
                    i = r.choice(free)
                    used.add(i)
                    return ["ref", i]
                return g.leaf()
            d = r.choice([3, 4, 5, 5]) if owned else r.choice([0, 1, 2, 3, 3])
            if flt:
                d = min(d, 3)
            t = g.tree(d, leafgen)
            kind = r.choice(["N", "N", "N", "N", "N", "U", "T", "I"])
            if owned and r.chance(1, 2):  # an owned stack (no borrow inside) can be cloned
                kind = r.choice(["NC", "NC", "IT"])
            kmax = 8 if flt else 14
            if kind == "N":
                ops.append(["N", r.range(1, kmax), t])
            elif kind == "U":
                ops.append(["U", r.range(1, kmax), r.below(3), t])
            elif kind == "T":
                ops.append(["T", r.range(0, kmax), kmax + 2, r.below(3), t])
            elif kind == "NC":
                ops.append(["NC", r.range(0, kmax), r.range(1, kmax // 2), t])
            elif kind == "IT":
                ik = r.choice([0, 1, 2, 3])
                ops.append(["IT", ik, r.range(0, kmax), r.range(0, kmax), r.choice([1, 2, 3]), r.range(0, 4), kmax // 2, r.below(2), t])
            else:
                ops.append(["I", r.range(1, 2 * kmax), r.below(3), t])
        it = dict(fmt=fm, bases=bases, ops=ops, wide=wide)
        if S.valid(it):
            cost = sum(S.float_cost(S.op_tree(o), fm, bases) * 16 for o in ops)
            if cost <= (900 if allfmt else 1500):
                return S.build(it)
    raise RuntimeError("could not generate a valid case")


# ---------------------------------------------------------------------------
# statically typed nesting: `leaf.inner(p1).outer(p2)` as ONE method chain on concrete types (harness: `st`), for
# EVERY ordered pair (outer, inner) of adaptor kinds; the model evaluates the ordinary two-level tree.
# Behind the harness's `dyn Signal` boxes the static type of an adaptor never occurs as a receiver, so an inherent
# method shadowing a trait method (e.g. an `OffsetAmp::offset_amp` folding two offsets into one) or an impl
# specialised to one adaptor type is invisible to the boxed trees; here it is what gets called.

ST_FMTS = ["f64x1", "f32x2", "i16x2", "u8x3", "i32x1", "i24x1", "u48x1"]
ST_VARIANTS = ["offset", "scale", "offsetpc", "scalepc", "clip", "delay", "inspect", "map0", "map1", "add", "mul", "zip0", "zip1"]
UGLY = [0.1, 0.2, 0.3, 0.7, 1.0 / 3.0, -0.9, 0.6, -0.15]   # constants whose sums / products round


class StGen(S.Gen):
    """float formats: offsets and gains that are NOT dyadic, so that (x + a) + b != x + (a + b) and
    (x * a) * b != x * (a * b) for most x -- a folded pair of parameters is then visible"""

    def float_const(self):
        if self.spec["flt"]:
            return S.fbits(self.fm, self.r.choice(UGLY))
        return super().float_const()

    def signed_const(self):
        if self.spec["flt"]:
            return S.fbits(self.fm, self.r.choice(UGLY))
        return super().signed_const()


def st_variants(fm):
    spec = S.FMTS[fm]
    # mul_amp between signals is driven for the float formats and the instances over the C03 sample model only
    return [v for v in ST_VARIANTS if v != "mul" or spec["flt"] or spec["gen"]]


def st_level(g, v, sub):
    r = g.r
    if v == "map0":
        return ["map", g.fresh(), 0, 0, sub]
    if v == "map1":
        k = g.sample() if g.spec["flt"] else r.choice([1, -1, r.range(-100, 100) if g.spec["bits"] > 8 else r.range(-1, 1)])
        return ["map", g.fresh(), 1, k, sub]
    if v in ("zip0", "zip1", "add", "mul"):
        other = g.leaf(kinds=("gen", "iter", "iter", "genmut", "samp"))
        if v[:3] == "zip":
            return ["zip", g.fresh(), int(v[3]), sub, other]
        return g.binary(v, sub, other)
    if v == "delay":
        return ["delay", r.choice([1, 1, 2, 3]), sub]
    return g.unary(v, sub)


def st_exact_zip0(g, fm, outer):
    """unsigned formats: the raw wrapping subtraction of zip_map fn 0 under an offset-like outer level.  The bound
    analysis only knows `anywhere in the range` for the difference, so the parameters are built from constant sources
    and checked exactly: raw difference = equilibrium + d with a small amplitude d, then + a with d + a small"""
    spec, r = S.FMTS[fm], g.r
    off, n = spec["off"], spec["n"]
    if not off or outer not in ("offset", "offsetpc", "add"):
        return None
    scale = 1 << (spec["sbits"] - spec["bits"])
    d = [r.range(-20, 20) for _ in range(n)]
    y = [r.range(1, 30) for _ in range(n)]
    x = [(off + d[c] + y[c]) % (2 * off) for c in range(n)]
    a = [r.range(-50, 50) for _ in range(n)]
    assert all(-off <= d[c] + a[c] < off and 0 <= x[c] < 2 * off for c in range(n))
    t = ["zip", g.fresh(), 0, ["gen", g.fresh(), x], ["gen", g.fresh(), y]]
    if outer == "offset":
        t = ["offset", a[0] * scale, t]
        assert all(-off <= d[c] + a[0] < off for c in range(n))
    elif outer == "offsetpc":
        t = ["offsetpc", [v * scale for v in a], t]
    else:
        t = g.binary("add", t, ["gen", g.fresh(), [v + off for v in a]])
    return ["N", 4, ["st", 2, t]]


def st_item(fm, ops, tag):
    return S.build(dict(fmt=fm, bases=[], ops=ops, wide=False, family=tag))


def st_pair_cases(rng):
    """one case per (format, inner kind): an `N k` op per outer kind"""
    items, skipped, pairs = [], [], 0
    for fm in ST_FMTS:
        flt = S.FMTS[fm]["flt"]
        vs = st_variants(fm)
        for inner in vs:
            r = rng.fork(f"st_{fm}_{inner}")
            g = StGen(r, fm, maxlen=6 if flt else 10)
            ops = []
            for outer in vs:
                for attempt in range(40):
                    leaf = g.leaf(kinds=("iter", "iter", "iter", "samp", "gen", "genmut"))
                    t = ["st", 2, st_level(g, outer, st_level(g, inner, leaf))]
                    op = ["N", 5 if flt else 6, t]
                    if S.valid(dict(fmt=fm, bases=[], ops=[op])):
                        ops.append(op)
                        pairs += 1
                        break
                else:
                    op = st_exact_zip0(g, fm, outer) if inner == "zip0" else None
                    if op:
                        ops.append(op)
                        pairs += 1
                    else:
                        skipped.append(f"{fm}:{outer}({inner})")
            if ops:
                items.append(st_item(fm, ops, "st_pairs"))
    return items, pairs, skipped


def st_leaf_cases(rng):
    """one level applied to a statically typed LEAF of the crate (signal::Equilibrium, Gen, GenMut as the receiver):
    every adaptor kind x every such leaf kind, per format"""
    items, n = [], 0
    for fm in ST_FMTS:
        flt = S.FMTS[fm]["flt"]
        r = rng.fork(f"stleaf_{fm}")
        g = StGen(r, fm, maxlen=6 if flt else 10)
        ops = []
        for v in st_variants(fm):
            for lk in ("eq", "gen", "genmut"):
                for attempt in range(40):
                    op = ["N", 4, ["st", 1, st_level(g, v, g.leaf(kinds=(lk,)))]]
                    if S.valid(dict(fmt=fm, bases=[], ops=[op])):
                        ops.append(op)
                        n += 1
                        break
        items.append(st_item(fm, ops, "st_leaf"))
    return items, n


def fval(fm, b):
    return S.struct.unpack("<d", S.struct.pack("<Q", b))[0] if S.FMTS[fm]["flt"] == 64 else S.struct.unpack("<f", S.struct.pack("<I", b))[0]


def frnd(fm, x):
    """round a python float (an exact sum / product of two values of the format) to the format"""
    return x if S.FMTS[fm]["flt"] == 64 else S.struct.unpack("<f", S.struct.pack("<f", x))[0]


def fold_visible(fm, op, frames, consts):
    """float formats: does applying the constants one after the other differ, on some channel of some frame, from
    applying their folded sum / product once?  consts: one list of per-channel values per level, innermost first"""
    f = (lambda a, b: frnd(fm, a + b)) if op == "+" else (lambda a, b: frnd(fm, a * b))
    for fr in frames:
        for c, xb in enumerate(fr):
            x = fval(fm, xb)
            seq = x
            fold = None
            for lv in consts:
                seq = f(seq, lv[c])
                fold = lv[c] if fold is None else f(fold, lv[c])
            if seq == seq and f(x, fold) == f(x, fold) and seq != f(x, fold):
                return True
    return False


def st_fold_cases(rng):
    """same-family chains whose parameters must NOT be folded: offset-like (offset, offsetpc, add) and scale-like
    (scale, scalepc, mul) pairs and offset / scale triples.
    floats: non-dyadic constants, checked here to make a folded evaluation differ on some frame;
    integers (formats whose Signed companion has the same width): a + b overflows the format although x + a and
    x + a + b do not (exact per-channel sums; the |x| + |a| bound analysis would reject them), so a folded
    evaluation panics in a debug build and wraps in a release build."""
    items, stats = [], dict(fold_ops=0, fold_visible_float=0, fold_overflow_int=0)
    for fm in ST_FMTS:
        spec = S.FMTS[fm]
        n, flt = spec["n"], spec["flt"]
        r = rng.fork(f"stfold_{fm}")
        g = StGen(r, fm, maxlen=6)
        ops = []
        if flt:
            def consts():
                return [fval(fm, S.fbits(fm, r.choice(UGLY))) for _ in range(n)]
            for fam, kinds, sym in (("offset", ("offset", "offsetpc", "add"), "+"), ("scale", ("scale", "scalepc", "mul"), "*")):
                chains = [(a, b) for a in kinds for b in kinds] + [(kinds[0],) * 3]
                for chain in chains:
                    for attempt in range(60):
                        frames = [g.frame() for _ in range(5)]
                        lv = []
                        for kd in chain:          # innermost first
                            cs = consts()
                            if kd in ("offset", "scale"):
                                cs = [cs[0]] * n
                            lv.append(cs)
                        if fold_visible(fm, sym, frames, lv):
                            break
                    else:
                        continue
                    t = ["iter", g.fresh(), frames]
                    for kd, cs in zip(chain, lv):
                        bits = [S.fbits(fm, c) for c in cs]
                        if kd in ("offset", "scale"):
                            t = [kd, bits[0], t]
                        elif kd in ("offsetpc", "scalepc"):
                            t = [kd, bits, t]
                        else:
                            t = [kd, t, ["gen", g.fresh(), bits]]
                    ops.append(["N", 5, ["st", len(chain), t]])
                    stats["fold_visible_float"] += 1
        elif spec["sbits"] == spec["bits"]:
            mx = (1 << (spec["bits"] - 1)) - 1
            off = spec["off"]
            kinds = ("offset", "offsetpc", "add")
            chains = [(a, b) for a in kinds for b in kinds] + [("offset",) * 3]
            for chain in chains:
                sgn = r.choice([1, -1])
                pct = lambda lo, hi: [sgn * r.range(mx * lo // 100, mx * hi // 100) for _ in range(n)]
                frames = [[-v for v in pct(75, 90)] for _ in range(4)]         # amplitudes of the source
                lv = []
                for i, kd in enumerate(chain):
                    cs = pct(55, 70) if i < 2 else pct(20, 33)
                    if kd == "offset":
                        cs = [cs[0]] * n
                    lv.append(cs)
                # exact check: every partial sum stays in the format, the folded a + b does not
                for fr in frames:
                    for c in range(n):
                        acc = fr[c]
                        for cs in lv:
                            acc += cs[c]
                            assert -mx - 1 <= acc <= mx, "static-nesting overflow case is not in range"
                assert all(abs(lv[0][c] + lv[1][c]) > mx + 1 for c in range(n))
                t = ["iter", g.fresh(), [[v + off for v in fr] for fr in frames]]
                for kd, cs in zip(chain, lv):
                    if kd == "offset":
                        t = ["offset", cs[0], t]
                    elif kd == "offsetpc":
                        t = ["offsetpc", cs, t]
                    else:
                        t = g.binary("add", t, ["gen", g.fresh(), [v + off for v in cs]])
                ops.append(["N", len(frames), ["st", len(chain), t]])   # exactly the source's frames: no equilibrium tail
                stats["fold_overflow_int"] += 1
        if not flt:
            # scale-like chains on integers: each level converts to the float companion and back (truncating), non-dyadic gains
            kinds = ("scale", "scalepc") + (("mul",) if spec["gen"] else ())
            chains = [(a, b) for a in kinds for b in kinds] + [("scale",) * 3]
            for chain in chains:
                for attempt in range(40):
                    t = ["iter", g.fresh(), [g.frame() for _ in range(5)]]
                    for kd in chain:
                        t = st_level(g, kd, t)
                    op = ["N", 6, ["st", len(chain), t]]
                    if S.valid(dict(fmt=fm, bases=[], ops=[op])):
                        ops.append(op)
                        break
        stats["fold_ops"] += len(ops)
        if ops:
            items.append(st_item(fm, ops, "st_fold"))
    return items, stats


def st_cases(rng, tier):
    items, pairs, skipped = st_pair_cases(rng.fork("pairs0"))
    if tier != "quick":
        for k in range(1, 6):
            more, p2, _ = st_pair_cases(rng.fork(f"pairs{k}"))
            items += more
            pairs += p2
    fold, stats = st_fold_cases(rng.fork("fold"))
    leafc, nleaf = st_leaf_cases(rng.fork("leaf"))
    items += leafc
    dist = {"static_nesting_cases": len(items) + len(fold), "static_nesting_pair_ops": pairs, "static_nesting_leaf_ops": nleaf,
            "static_nesting_pairs_without_valid_parameters": skipped,
            "static_nesting_fold_ops": stats["fold_ops"], "static_nesting_fold_visible_float_ops": stats["fold_visible_float"],
            "static_nesting_fold_overflow_int_ops": stats["fold_overflow_int"]}
    return items + fold, dist


# ---------------------------------------------------------------------------
# delay lengths at type-width boundaries (2^8 .. 2^63, usize::MAX and neighbours, see S.boundary_counts): for EVERY such
# k one case over a borrowed finite base:
#   N m  ctx(delay k (ref 0))   m calls: equilibrium only, is_exhausted false before and after every call, no pull of the
#                               base (event log, leaf counters); the delay sits under 0-2 random adaptor levels
#   N 2  ref 0                  the base, handed back, yields its FIRST frames
#   N m  delay k (empty source), delay k (iter of 1-2 frames)     a delay over an exhausted / short source is live
#   N m  delay k (delay k' (ref 0)) / small delays around it, a clone of the stack after j calls (NC),
#        the statically typed forms leaf.delay(k).outer(p) / leaf.inner(p).delay(k) / Equilibrium|Gen|GenMut.delay(k)
#   N 3  ref 0                  still where it was left
# (one base in five is itself delay(k'') of the finite source: silence through every op of the case)
# The model receives the true k (Signal/SigRun.v normalises, see sigcases.py).

def count_cases(rng, tier):
    items = []
    ks = S.boundary_counts()
    reps = 1 if tier == "quick" else 6
    st_ops = 0
    for rep_i in range(reps):
        for i, k in enumerate(ks):
            fm = S.COUNT_FMTS[(i + rep_i) % len(S.COUNT_FMTS)]
            flt = S.FMTS[fm]["flt"]
            r = rng.fork(f"count_{rep_i}_{i}")
            for attempt in range(60):
                g = S.Gen(r, fm, maxlen=6)
                g.lens = [0, 1, 2, 3, 4, 5]
                base = ["iter", g.fresh(), [g.frame() for _ in range(r.choice([0, 1, 3, 4, 5]))]]
                if r.chance(1, 3):
                    base = g.unary(g.unary_kind(), base)
                other = r.choice([k2 for k2 in ks if k2 != k])
                if r.chance(1, 5):  # the base itself is delayed beyond the whole case: every borrow of it, in every op, yields silence
                    base = ["delay", other, base]
                m = r.range(3, 5)
                ops = [["N", m, S.count_ctx(g, ["delay", k, ["ref", 0]], r.choice([0, 1, 1, 2]))],
                       ["N", 2, ["ref", 0]],
                       ["N", r.range(2, 3), ["delay", k, r.choice([["iter", g.fresh(), []], ["samp", g.fresh(), [g.sample() for _ in range(S.FMTS[fm]["n"] - 1)]]])]],
                       ["N", 2, ["delay", k, ["iter", g.fresh(), [g.frame() for _ in range(r.choice([1, 2]))]]]],
                       ["N", 3, r.choice([["delay", k, ["delay", other, ["ref", 0]]],
                                          ["delay", r.range(1, 2), ["delay", k, ["ref", 0]]],
                                          ["delay", k, ["delay", r.range(0, 2), ["ref", 0]]]])],
                       ["NC", r.range(0, 2), 2, S.count_ctx(g, ["delay", k, g.leaf(kinds=("iter", "samp", "gen", "genmut"))], r.choice([0, 1]))]]
                if fm in ST_FMTS:
                    sg = StGen(r, fm, maxlen=6)
                    sg.ids = g.ids
                    vs = [v for v in st_variants(fm) if v != "delay"]
                    leaf = lambda: sg.leaf(kinds=("iter", "iter", "samp", "gen", "genmut"))
                    ops += [["N", 3, ["st", 2, st_level(sg, r.choice(vs), ["delay", k, leaf()])]],
                            ["N", 3, ["st", 2, ["delay", k, st_level(sg, r.choice(vs), leaf())]]],
                            ["N", 2, ["st", 1, ["delay", k, sg.leaf(kinds=(r.choice(["eq", "gen", "genmut"]),))]]]]
                ops.append(["N", 3, ["ref", 0]])
                it = dict(fmt=fm, bases=[base], ops=ops)
                if S.valid(it) and sum(S.float_cost(S.op_tree(o), fm, [base]) for o in ops) <= 60:
                    items.append(S.count_item(fm, [base], ops, "count_boundary"))
                    st_ops += sum(1 for o in ops if S.op_tree(o)[0] == "st")
                    break
            else:
                raise RuntimeError("no valid boundary-count case")
    dist = {"count_boundary_cases": len(items), "count_boundary_values": len(ks), "count_boundary_static_ops": st_ops,
            "count_boundary_histogram": S.count_hist(items)}
    return items, dist


def gen_cases(rng, tier):
    n = 1200 if tier == "quick" else 20000
    items = [gen_case(rng.fork(f"c04_{k}"), tier) for k in range(n)]
    ng = 280 if tier == "quick" else 4200
    items += [gen_case(rng.fork(f"c04_all_{k}"), tier, S.GEN_FMTS[k % len(S.GEN_FMTS)]) for k in range(ng)]
    st, st_dist = st_cases(rng.fork("c04_static_nesting"), tier)
    items += st
    dist = {"random_tree_cases": n, "all_sample_format_cases": ng,
            "wide_amplitude_cases": sum(1 for it in items if it.get("wide"))}
    dist.update(st_dist)
    cnt, cnt_dist = count_cases(rng.fork("c04_count_boundary"), tier)
    items += cnt
    dist.update(cnt_dist)
    return items, dist


def main(rep, tier, seed):
    return S.run_check(rep, PROP, tier, seed, gen_cases, RULE,
                       "theorems: pointwise/delay/pull/by_ref/composition/clip laws for every adaptor tree, frame type and closure; tie: the model's executable instances run by coqc on the same trees as the real crate, every observation compared exactly",
                       "the clip law is proved abstractly for every signed format whose < is irreflexive (so also floats, where a NaN passes through) and concretely as clamp(-t,t) for the integer instances (i16, i32, u8 via i8)")


def replay(path):
    return S.replay(PROP, path)
