"""C04 — signal adaptors are pointwise, lock-step, one source frame per output frame.
Proof: coq/props/C04.v over the deep embedding of adaptor trees (Signal/Sig.v): pointwise law per
adaptor, delay law, one-pull-per-source (by position in the tree, any nesting), by_ref resumption,
composition law, clip law.  Tie: the executable instances (Signal/SigRun.v) are run inside coqc on
random adaptor trees and compared exactly with dasp_signal driven through a local Box<dyn Signal>."""
import framework as F
import sigcases as S

PROP = "C04"
META = dict(
    technique="Coq proof by structural induction over a deep embedding of adaptor trees + coqc-evaluated model vs crate correspondence on random trees",
    text="Machine-checked (Coq 8.16.1) over a deep embedding of dasp_signal's adaptor trees whose next/is_exhausted are written after the Rust impls, parametric in the frame type and frame operations: the n-th frame of every adaptor is the frame operation applied to the n-th frame(s) of its source(s); delay(k) is k equilibrium frames then the source; every next advances every sub-signal of the tree by exactly one next (none below a delay that is still emitting silence) so a borrowed signal resumes exactly where the adaptor left it; any nesting equals the composition of the pointwise functions; clip_amp clamps the signed amplitude to [-t,t]. Tied to the crate by running the model inside coqc on random trees (depth <= 5, five formats incl. float, unsigned, multi-channel, bare-sample frames) and comparing frames, is_exhausted, the order of leaf pulls / closure calls and the leaf pull counters exactly.",
    note="Trusted: Coq kernel; the hand-written model (closures as pure functions, iterators as lists) validated only through the correspondence; Flocq-based float instance validated against rustc in the same run; harness + python generators. Axioms: none.",
    design="6/C04")

RULE = ("random adaptor trees (bases of depth <= 2 borrowed through by_ref by op trees of depth <= 3, plus owned trees of depth <= 5) over "
        "[i16;2], [u8;3], i32, f64, [f32;2] (hand instances) and I24, U24, I48, U48, i8, u16, u32, i64, u64 as bare samples and 2-3 channel arrays (instances over the C03 sample model, true equilibrium, specification-guarded conversions), source lengths <= 40, by_ref hand-backs after random numbers of next; owned stacks also cloned "
        "after j calls (clone and original must continue identically) and driven through clone / nth / skip of the returned iterators; "
        "non-trivial = some op tree (bases expanded) of depth >= 2 containing a delay with k > 0 or a binary node whose sources have different lengths, or an interleaved-sample iterator cloned mid-frame")


def gen_case(r, tier, fm=None):
    """fm given: one of the instances over the C03 sample model (all other sample formats): smaller trees,
    equilibrium-sensitive adaptors (delay, sources running dry) and float-companion operations favoured"""
    allfmt = fm is not None
    fm = fm or r.choice(["i16x2", "i16x2", "i16x2", "u8x3", "u8x3", "i32x1", "i32x1", "f64x1", "f32x2"])
    flt = S.FMTS[fm]["flt"] or allfmt
    for attempt in range(40):
        wide = r.chance(1, 6) and attempt < 20
        g = S.Gen(r, fm, wide=wide, maxlen=(6 if allfmt else 10) if flt else 40)
        owned = r.chance(1, 4)
        nb = 0 if owned else r.choice([1, 1, 2])
        bases = [g.tree(r.choice([0, 1, 2, 2])) for _ in range(nb)]
        ops = []
        nops = r.choice([1, 2]) if owned else r.choice([2, 3, 4, 5])
        if flt:
            nops = min(nops, 3)
        for _ in range(nops):
            used = set()

            def leafgen():
                free = [i for i in range(nb) if i not in used]
                if free and r.chance(1, 2):
                    i = r.choice(free)
                    used.add(i)
                    return ["ref", i]
                return g.leaf()
            d = r.choice([3, 4, 5, 5]) if owned else r.choice([0, 1, 2, 3, 3])
            if flt:
                d = min(d, 3)
            t = g.tree(d, leafgen)
            kind = r.choice(["N", "N", "N", "N", "N", "U", "T", "I"])
            if owned and r.chance(1, 2):  # an owned stack (no borrow inside) can be cloned
                kind = r.choice(["NC", "NC", "IT"])
            kmax = 8 if flt else 14
            if kind == "N":
                ops.append(["N", r.range(1, kmax), t])
            elif kind == "U":
                ops.append(["U", r.range(1, kmax), r.below(3), t])
            elif kind == "T":
                ops.append(["T", r.range(0, kmax), kmax + 2, r.below(3), t])
            elif kind == "NC":
                ops.append(["NC", r.range(0, kmax), r.range(1, kmax // 2), t])
            elif kind == "IT":
                ik = r.choice([0, 1, 2, 3])
                ops.append(["IT", ik, r.range(0, kmax), r.range(0, kmax), r.choice([1, 2, 3]), r.range(0, 4), kmax // 2, r.below(2), t])
            else:
                ops.append(["I", r.range(1, 2 * kmax), r.below(3), t])
        it = dict(fmt=fm, bases=bases, ops=ops, wide=wide)
        if S.valid(it):
            cost = sum(S.float_cost(S.op_tree(o), fm, bases) * 16 for o in ops)
            if cost <= (900 if allfmt else 1500):
                return S.build(it)
    raise RuntimeError("could not generate a valid case")


def gen_cases(rng, tier):
    n = 1200 if tier == "quick" else 20000
    items = [gen_case(rng.fork(f"c04_{k}"), tier) for k in range(n)]
    ng = 280 if tier == "quick" else 4200
    items += [gen_case(rng.fork(f"c04_all_{k}"), tier, S.GEN_FMTS[k % len(S.GEN_FMTS)]) for k in range(ng)]
    return items, {"random_tree_cases": n, "all_sample_format_cases": ng,
                   "wide_amplitude_cases": sum(1 for it in items if it.get("wide"))}


def main(rep, tier, seed):
    return S.run_check(rep, PROP, tier, seed, gen_cases, RULE,
                       "theorems: pointwise/delay/pull/by_ref/composition/clip laws for every adaptor tree, frame type and closure; tie: the model's executable instances run by coqc on the same trees as the real crate, every observation compared exactly",
                       "the clip law is proved abstractly for every signed format whose < is irreflexive (so also floats, where a NaN passes through) and concretely as clamp(-t,t) for the integer instances (i16, i32, u8 via i8)")


def replay(path):
    return S.replay(PROP, path)
