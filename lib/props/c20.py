"""C20 — windowing yields the documented window shape and chunk schedule.
Proof: coq/props/C20.v.  Real-number part (Coq R, the true cos): Hann range / symmetry / peak / ends,
rectangle = 1, the window of n >= 2 frames samples frac(i/(n-1)) and its values are hann(i/(n-1)).
Integer part (axiom-free): the Windower model (next / size_hint as written) yields exactly
(L-b)/h+1 chunks when b <= L and none otherwise, chunk k = frames[k*h .. k*h+b-1], size_hint = the
number of chunks still to come in every state; Windowed frame j = mul_amp(frame, window value j).
Tie 1 (translator): translate/window2coq.py regenerates coq/gen/WindowGen.v from
dasp_signal/src/window/mod.rs on every run (one Gallina definition per method: Window::new / next,
Windower::new / next / size_hint, Windowed::next); Signal/WindowGenEquiv.v proves every generated
definition equal to the hand model's on all inputs (c20_gen_windower_agrees, c20_gen_window_agrees), so
the schedule theorems are theorems about the regenerated model (restated on it: c20_gen_schedule,
c20_gen_size_hint, c20_gen_methods, c20_gen_chunk_scaled, c20_gen_window_hann).  TRANSLATED: the
control flow, the usize arithmetic and comparisons, the slices, the stores, the struct literals, the
order of the calls, `len as f64 - 1.0` and the calls rate / const_hz / phase.  NOT translated, called as
hand-written vocabulary (Signal/Window.v, Signal/WindowPrim.v; code outside window/mod.rs): f64 arithmetic
itself (Coq reals / IEEE binary64), Phase::next_phase, rate / const_hz / phase, from_iter and its Signal::next,
the window function (Hann via cos, Rectangle: dasp_window), Sample::to_sample, Frame::from_fn / mul_amp.
Tie 2: correspondence between the model's executable instance over IEEE binary64 / f32 / i16
(Signal/WindowRun.v, evaluated by coqc) and dasp_signal::window + dasp_window on the same cases;
libm's cos is taken from the implementation as data and validated against math.cos (same glibc)
with a 4-ulp tolerance on the cos value.
When the translator rejects the source or the equivalence no longer compiles (DESIGN 5.1/5.3) the first
broken link is named and the correspondence is the search for a failing input: hand model vs crate, then the
regenerated model (Signal/WindowGenRun.v) vs crate and vs hand model on the window/windower cases; a failing
input gives VIOLATION with a replay file, none gives a VIOLATION ending no-failing-input-found that names the
lemma / the translator error.

Harmless rewrites of the source (decided and tested, translate/test_window2coq.py --coq): the equivalence
proofs split on every test and close the leaves with lia, so `a <= b` written `b >= a`, `num_frames` for
`self.frames.len()`, a temporary more or less, comments and layout still PASS.

TESTING ONLY: DASP_WINDOW_RS=<file> makes the translator read that file instead of /repo's window/mod.rs.  The
harness is still built against /repo, so only the translator side sees the change."""
import json, math, os, re, struct, sys, time
from fractions import Fraction
import framework as F
import floatbase
sys.path.insert(0, os.path.join(F.VERIF, "translate"))
import window2coq as TW  # noqa: E402

PROP = "C20"
META = dict(
    technique="Coq proof (reals with the true cos; axiom-free integer schedule by strong induction) + chunk-schedule model regenerated from the source by a translator and proved equal to the hand model + coqc-evaluated IEEE model vs crate correspondence",
    text="Machine-checked (Coq 8.16.1): over the reals with the true cosine, Hann(p) = 0.5(1-cos 2 pi p) lies in [0,1], is symmetric about 1/2 where it is 1, is 0 at both ends, Rectangle is 1, and the window of n >= 2 frames samples the phases frac(i/(n-1)) (i/(n-1) for i < n-1; the last one wraps 1 -> 0 through `% 1.0`, where Hann takes the same value). Axiom-free, for every frame count L, bin >= 1, hop >= 1: the Windower model (next and size_hint written after the source) yields exactly (L-b)/h+1 chunks if b <= L else none, chunk k is frames[k*h .. k*h+b-1], never panics, and size_hint equals the number of chunks still to come in every state; the j-th frame of a Windowed chunk is mul_amp(frame j, window value j). Two ties to the source. (1) translate/window2coq.py, a strict translator for the Rust subset the method bodies use, regenerates coq/gen/WindowGen.v from dasp_signal/src/window/mod.rs on every run (Window::new/next, Windower::new/next/size_hint, Windowed::next: control flow, usize arithmetic, slices, stores, struct literals, order of calls; anything outside its grammar, a new/missing/overridden method, changed imports, fields or impl headers is an error) and Coq proves each generated definition equal to the hand model's on all inputs (c20_gen_windower_agrees, c20_gen_window_agrees), so the schedule theorems are about the regenerated model (restated on it: c20_gen_schedule, c20_gen_size_hint, c20_gen_methods, c20_gen_chunk_scaled, c20_gen_window_hann); float arithmetic, Phase::next_phase, from_iter, the window functions and the sample/frame operations stay hand-written vocabulary the generated code calls. (2) The model is tied to the crates by running its IEEE instance (binary64 phases, f32/f64/i16 frames) inside coqc on the same cases and comparing phases, window frames, chunk contents, size hints and chunk counts exactly; cos goes through libm and is compared against math.cos with a 4-ulp tolerance.",
    note="Chunk scaling is exercised in all 14 sample formats through the generated C03 sample operations (Sample/SampleOps.v over gen/ConvFloatGen.v, regenerated on every run) guarded by their specification values (Signal/WindowFmtGen.v), so a wrong conversion in dasp_sample shows up as a disagreement. The provided Iterator methods (last, nth, count, fold, skip, step_by, collect, by_ref) of Windower / Window / Windowed are modelled as their core::iter defaults over next, proved to give chunk count-1 / chunk k / count, and exercised in the correspondence (the cases are transported into coqc as uint63 literals, Signal/WindowWire.v). Trusted: Coq kernel; translate/window2coq.py + translate/rustmini.py and the vocabulary Signal/WindowPrim.v / Signal/Window.v the generated code is written in (slices as lists, usize as nat, Rate/ConstHz as the f64 they wrap, a Window as its phase, Phase::next_phase, from_iter, Frame::from_fn / mul_amp: code outside window/mod.rs, hand-modelled), validated through the correspondence of the (proved equal) hand model; the caller-side glue Signal/WindowGenGlue.v; Base/Float.v (validated against rustc in the same run); harness + python generators. Axioms: the standard real-number axioms for the R theorems only; the schedule theorems are closed. In floating point the last sampled phase is whatever (n-1) additions of fl(1/(n-1)) give after `% 1.0` (0 or just below 1): covered by the exact comparison of phases, not by the R theorem.",
    design="6/C20")
HEADER = "From Dasp Require Import Signal.WindowRun."
CHECK = "check"

HEADER63 = "From Dasp Require Import Signal.WindowWire.\nRequire Import Uint63."
CHECK63 = "check63"
GEN_HEADER = "From Dasp Require Import Signal.WindowRun Signal.WindowGenRun."
GEN_HEADER63 = "From Dasp Require Import Signal.WindowGenRun.\nRequire Import Uint63."
TEST_WINDOW = os.environ.get("DASP_WINDOW_RS")          # TESTING ONLY, see module docstring
WINDOW_SRC = TEST_WINDOW or os.path.join(F.REPO, "dasp_signal", "src", "window", "mod.rs")
WK = ["WHann", "WRect"]
FK = ["KF32", "KF64", "KI16"]
PI2 = math.pi * 2.0


def f32b(x):
    return struct.unpack("<I", struct.pack("<f", x))[0]


def f64b(x):
    return struct.unpack("<Q", struct.pack("<d", x))[0]


def b2f64(b):
    return struct.unpack("<d", struct.pack("<Q", b))[0]


def b2f32(b):
    return struct.unpack("<f", struct.pack("<I", b))[0]


# ---------------------------------------------------------------------------
# oracle for libm: Hann at an f64 phase, 4 ulp tolerance on the cos value


def hann_bounds(p):
    v = p * PI2
    if math.isnan(v) or math.isinf(v):
        return None
    c = math.cos(v)
    lo = hi = c
    for _ in range(4):
        lo = math.nextafter(lo, -math.inf)
        hi = math.nextafter(hi, math.inf)
    a, b = 0.5 * (1.0 - hi), 0.5 * (1.0 - lo)
    return min(a, b), max(a, b)


def hann_ok(phase_bits, value_bits):
    p, v = b2f64(phase_bits), b2f64(value_bits)
    bd = hann_bounds(p)
    if bd is None:
        return math.isnan(v)
    return bd[0] <= v <= bd[1]


# ---------------------------------------------------------------------------
# cases


def build(item, ops=None):
    it = dict(item)
    if it["kind"] == "W":
        if ops is not None:
            it["ops"] = ops
        fr = it["ops"]  # the frames
        flat = [s for f in fr for s in f]
        it["line"] = "W %d %d %d %d %d %d %d %s" % (it["wk"], it["fk"], it["nch"], it["b"], it["h"], it["maxn"],
                                                   len(fr), " ".join(map(str, flat)))
        z = F.zlit
        it["coq"] = "WCase %s %s %s %s %s %s %s" % (WK[it["wk"]], fk_coq(it["fk"]), z(it["nch"]), z(it["b"]), z(it["h"]),
                                                   z(it["maxn"]), F.zlistlist(fr))
    elif it["kind"] == "I":
        if ops is not None:
            it["ops"] = ops
        fr = it["frames"]
        flat = [s for f in fr for s in f]
        # number of window phases/values to tabulate: every index the w* ops reach
        pos, top = 0, 0
        for o in it["ops"]:
            if o[0] == "wnth":
                top = max(top, pos + o[1]); pos += o[1] + 1
            elif o[0] == "wskip":
                top = max(top, pos + o[1])
            elif o[0] == "wtakelast":
                top = max(top, pos + o[1])
            elif o[0] == "wstepby":
                top = max(top, pos + o[1] * o[2])
            elif o[0] in ("cnth", "cskip", "ctakelast"):
                top = max(top, o[1] + 2)
        it["np"] = max(top, it["b"]) + 2  # chunks are observed through bin+1 frames
        it["line"] = "I %d %d %d %d %d %d %d %s ; %s" % (
            it["wk"], it["fk"], it["nch"], it["b"], it["h"], it["np"], len(fr), " ".join(map(str, flat)),
            " , ".join(" ".join(map(str, o)) for o in it["ops"]))
        z = F.zlit
        it["coq"] = "ICase %s %s %s %s %s %s %s [%s]" % (
            WK[it["wk"]], fk_coq(it["fk"]), z(it["nch"]), z(it["b"]), z(it["h"]), z(it["np"]), F.zlistlist(fr),
            "; ".join(IOP[o[0]] + "".join(" " + z(a) for a in o[1:]) for o in it["ops"]))
    else:
        it["ops"] = []
        it["line"] = "H %d %s %d %s" % (len(it["ps"]), " ".join(map(str, it["ps"])), len(it["qs"]),
                                       " ".join(map(str, it["qs"])))
        it["coq"] = "HCase %s %s" % (F.zlist(it["ps"]), F.zlist(it["qs"]))
    return it


IOP = {"next": "INext", "nth": "INth", "last": "ILast", "lastref": "ILastRef", "count": "ICount",
       "countref": "ICountRef", "skip": "ISkip", "stepby": "IStepBy", "collect": "ICollect", "fold": "IFold",
       "wnth": "IWinNth", "wskip": "IWinSkip", "wtakelast": "IWinTakeLast", "wstepby": "IWinStepBy",
       "cnth": "IChunkNth", "cskip": "IChunkSkip", "ctakelast": "IChunkTakeLast"}


def rand_iop(r, cnt):
    k = r.below(20)
    small = lambda: r.choice([0, 0, 1, 1, 2, 3, max(0, cnt - 1), cnt, cnt + 1])
    if k < 3:
        return ["last"]
    if k < 5:
        return ["nth", small()]
    if k < 7:
        return ["skip", small()]
    if k == 7:
        return ["count"]
    if k == 8:
        return ["fold"]
    if k == 9:
        return ["next"]
    if k == 10:
        return ["stepby", r.range(1, 4), r.range(0, 4)]
    if k == 11:
        return ["collect"] if cnt <= 6 else ["count"]
    if k == 12:
        return r.choice([["lastref"], ["countref"]])
    if k == 13:
        return ["wnth", r.range(0, 4)]
    if k == 14:
        return ["wskip", r.range(0, 5)]
    if k == 15:
        return ["wtakelast", r.range(0, 5)]
    if k == 16:
        return ["wstepby", r.range(1, 3), r.range(0, 4)]
    if k == 17:
        return ["cnth", r.range(0, 4)]
    if k == 18:
        return ["cskip", r.range(0, 4)]
    return ["ctakelast", r.range(0, 5)]


def icase(r, combo, L, b, h, ops):
    wk, fk, nch = combo
    frames = [[rand_sample(r, fk) for _ in range(nch)] for _ in range(L)]
    return build(dict(kind="I", wk=wk, fk=fk, nch=nch, b=b, h=h, frames=frames, ops=ops))


FMT14 = ["i8", "i16", "I24", "i32", "I48", "i64", "u8", "u16", "U24", "u32", "U48", "u64", "f32", "f64"]
BITS14 = [8, 16, 24, 32, 48, 64, 8, 16, 24, 32, 48, 64]


def fk_coq(fk):
    return FK[fk] if fk < 100 else "(KGen %d)" % (fk - 100)


def fk_name(fk):
    return FK[fk] if fk < 100 else "gen:" + FMT14[fk - 100]


def rand_sample14(r, c):
    """a sample of format code c: at and near the rails, near equilibrium, a power of two, or anything"""
    if c == 12:
        return rand_sample(r, 0)
    if c == 13:
        return rand_sample(r, 1)
    bits = BITS14[c]
    signed = c < 6
    lo, hi = (-(1 << (bits - 1)), (1 << (bits - 1)) - 1) if signed else (0, (1 << bits) - 1)
    eq = 0 if signed else 1 << (bits - 1)
    k = r.below(10)
    d = r.choice([0, 1, 2, 3, 63, 64, 65, 100, 127, 128, 1000, 1023, 1024, 1025, 2047, 2048, 4096, r.below(1 << 12)])
    if k < 2:
        v = hi - d
    elif k < 3:
        v = lo + d
    elif k < 6:
        v = eq + r.choice([-1, 1]) * d
    elif k < 7:
        v = eq + r.choice([-1, 1]) * (1 << r.below(bits - 1))
    else:
        v = r.range(lo, hi)
    return max(lo, min(hi, v))


def rand_sample(r, fk):
    if fk >= 100:
        return rand_sample14(r, fk - 100)
    if fk == 2:
        k = r.below(10)
        if k == 0:
            return r.choice([-32768, -32767, -1, 0, 1, 32766, 32767, 16384, -16384])
        return r.range(-32768, 32767)
    k = r.below(12)
    if k == 0:
        x = r.choice([0.0, -0.0, 1.0, -1.0, 0.5, 1e-30, -1e-30, 3.0, 1e30, 5e-324 if fk == 1 else 1e-45])
    elif k == 1 and r.chance(1, 6):
        x = r.choice([math.inf, -math.inf, math.nan])
    else:
        x = (r.below(1 << 53) / float(1 << 52)) - 1.0
    return f32b(x) if fk == 0 else f64b(x)


def wcase(r, combo, L, b, h, maxn=None):
    wk, fk, nch = combo
    frames = [[rand_sample(r, fk) for _ in range(nch)] for _ in range(L)]
    return build(dict(kind="W", wk=wk, fk=fk, nch=nch, b=b, h=h, maxn=(L + 3 if maxn is None else maxn), ops=frames))


COMBOS = [(wk, fk, nch) for wk in (0, 1) for fk in (0, 1, 2) for nch in (1, 2)]


def gen_cases(rng, tier):
    items = []
    cnt = [0]

    def combo():
        cnt[0] += 1
        return COMBOS[(cnt[0] * 7) % len(COMBOS)]

    def add(L, b, h, **kw):
        items.append(wcase(rng.fork(f"w{len(items)}"), combo(), L, b, h, **kw))

    # 1. the (L, b, h) grid of the design: L = 0..40, b = 2..9, h = 1..45
    for L in range(0, 41):
        for b in range(2, 10):
            if tier == "thorough":
                hs = list(range(1, 46))
                for h in hs:
                    add(L, b, h)
                    if h <= 3 or h in (b, L - b, L):
                        add(L, b, h)  # second window/format combination
            else:
                hs = {1, b, L - b, L, L + 1, rng.range(1, 45), rng.range(2, 12)} | ({2, L - b + 1} if (L + b) % 2 == 0 else {b + 1, L - 1, 45})
                if L > 20 and L % 4 != 0:
                    hs -= {1, 2}  # the many-chunk runs are the expensive ones: every 4th L above 20
                for h in sorted(x for x in hs if 1 <= x <= 45):
                    add(L, b, h)
    n_grid = len(items)
    # 2. larger random (L, b, h)
    for k in range(40 if tier == "quick" else 600):
        r = rng.fork(f"big{k}")
        b = r.choice([2, 3, 5, 8, 16, 17, 31, 64])
        L = r.choice([b - 1, b, b + 1, 2 * b, r.range(0, 150), r.range(b, 150)])
        h = r.choice([1, b // 2 + 1, b, b + 1, r.range(1, 160), max(1, L - b), max(1, L)])
        if (L - b) // h > 30:
            h = max(h, (L - b) // 30 + 1)
        add(L, b, h)
    # 3. outside the property's domain (bin < 2, hop = 0): the model follows the code there too
    for L in range(0, 6):
        for b in (0, 1, 2, 3):
            for h in (0, 1, 2, 7):
                if b >= 2 and h >= 1:
                    continue
                add(L, b, h, maxn=min(L + 3, 5))
    # 3a. chunk scaling in ALL fourteen sample formats (generated, specification-guarded sample operations):
    #     rectangle (window value exactly 1.0 everywhere) and Hann with odd bins (exactly 1.0 at the centre),
    #     samples at/near the rails and near equilibrium, mono and multi-channel
    n_f0 = len(items)
    reps = 1 if tier == "quick" else 12
    for rep_ in range(reps):
        for c in range(14):
            for nch in (1, 2, 3):
                if tier == "quick" and nch == 3 and c % 3 != 0:
                    continue
                for wk, b in ((1, 2 + rep_ % 3), (0, 3 + 2 * (rep_ % 3)), (0, 4) if (c + nch + rep_) % 3 == 0 else (1, 5)):
                    r = rng.fork(f"f{len(items)}")
                    L = b + r.range(0, 5)
                    h = r.choice([1, 2, b, b + 1]) if tier != "quick" else r.choice([2, b, b + 1])
                    it = wcase(r, (wk, 100 + c, nch), L, b, h)
                    if c < 12 and L >= b:
                        # deterministic rail / near-equilibrium samples where the window value is exactly 1.0
                        # (every rectangle position; the centre of an odd Hann bin): first chunk, channel 0 / last
                        bits, sg = BITS14[c], c < 6
                        hi = (1 << (bits - 1)) - 1 if sg else (1 << bits) - 1
                        eq = 0 if sg else 1 << (bits - 1)
                        mid = (b - 1) // 2
                        near = eq + r.choice([-1, 1]) * r.choice([d for d in (1, 2, 100, 1000) if d < (1 << (bits - 1))])
                        fr = it["ops"]
                        fr[mid][0] = r.choice([hi, hi - r.below(64)])
                        fr[mid][nch - 1 if nch > 1 else 0] = near if nch > 1 or r.chance(1, 2) else fr[mid][0]
                        if wk == 1:
                            fr[0][0] = near
                            fr[b - 1][0] = hi - r.below(64)
                        it = build(it)
                    items.append(it)
    n_fmt = len(items) - n_f0
    n_w = len(items)
    # 3b. the provided Iterator methods (last, nth, count, skip, step_by, fold, collect, by_ref) on Windower,
    #     Window and Windowed; (L - b) % h != 0 prominent: there the last chunk does not end at the last frame
    fixed = [["last"], ["count"], ["fold"], ["skip", 1], ["nth", 1], ["last"], ["stepby", 2, 3], ["cnth", 1],
             ["lastref"], ["next"], ["last"], ["count"]]
    for L in range(0, 15 if tier == "quick" else 25):
        for b in (1, 2, 3, 4) if tier == "quick" else (1, 2, 3, 4, 5, 7):
            for h in (1, 2, 3, 5) if tier == "quick" else (1, 2, 3, 4, 5, 6, 9):
                if tier == "quick" and (L + b + h) % 2 == 1 and (L < b or (L - b) % h == 0):
                    continue
                items.append(icase(rng.fork(f"i{len(items)}"), combo(), L, b, h, fixed))
    for k in range(250 if tier == "quick" else 4000):
        r = rng.fork(f"it{k}")
        b = r.choice([1, 2, 2, 3, 3, 4, 5, 6, 7, 8, 9])
        h = r.range(1, 12)
        L = r.range(0, 30)
        if r.chance(7, 10):  # force a partial last hop with at least two chunks
            h = max(h, 2)
            L = b + h * r.range(1, 4) + r.range(1, h - 1)
        nchunks = expected_count(L, b, h)
        ops = [r.choice([["last"], ["nth", max(0, nchunks - 1)], ["skip", max(0, nchunks - 1)], ["count"]])]
        ops += [rand_iop(r, nchunks) for _ in range(r.range(3, 8))]
        items.append(icase(r, (r.below(2), 100 + r.below(14), r.range(1, 2)) if k % 5 == 0 else combo(), L, b, h, ops))
    n_i = len(items)
    # 4. dasp_window functions through the trait
    for k in range(30 if tier == "quick" else 300):
        r = rng.fork(f"h{k}")
        ps = [f32b(x) for x in (0.0, 1.0, 0.5, 0.25, 0.75, -0.0)]
        ps += [f32b(r.below(1 << 24) / float(1 << 24)) for _ in range(8)]
        ps += [f32b(r.choice([-1.0, 2.0, 1e-30, 1.0 - 2.0 ** -24, 0.5 + 2.0 ** -24, 1e9]))]
        qs = [0, 16384, -32768, 32767, 8192, 24576, -16384, 1, -1] + [r.range(-32768, 32767) for _ in range(6)]
        items.append(build(dict(kind="H", ps=ps, qs=qs)))
    # deterministic shuffle: the coqc shards take contiguous slices, so spread the expensive (large L, hop 1) cases
    n_w2 = len(items)
    sh = rng.fork("shuffle")
    for i in range(len(items) - 1, 0, -1):
        j = sh.below(i + 1)
        items[i], items[j] = items[j], items[i]
    return items, dict(grid=n_grid, big_and_offdomain=n_w - n_grid - n_fmt, all_formats=n_fmt, iterator_methods=n_i - n_w, window_fn=n_w2 - n_i)


def expected_count(L, b, h):
    return (L - b) // h + 1 if b <= L else 0


def nontrivial(it):
    if it["kind"] == "I":
        L = len(it["frames"])
        return it["b"] >= 2 and L >= it["b"] + it["h"]
    if it["kind"] != "W" or it["b"] < 2 or it["h"] < 1:
        return False
    L = len(it["ops"])
    return L >= it["b"] + it["h"] or L == it["b"]


def verdict(it, obs):
    """Property verdict on the implementation's observations alone (independent of the Coq model):
    chunk count formula, size_hint = chunks still to come, Hann values within tolerance of the oracle."""
    o = F.parse_obs_line(obs)
    by = {l[0]: l[1:] for l in o if l and l[0] >= 100}
    problems = []
    if it["kind"] == "I":
        if it["wk"] == 0:
            for p, v in zip(by.get(100, []), by.get(101, [])):
                if not hann_ok(p, v):
                    problems.append(f"Hann window value at phase {b2f64(p)!r} = {b2f64(v)!r} outside the 4-ulp oracle interval")
        # the first op runs on the fresh windower: count / size_hint against the property's formula
        L, b, h = len(it["frames"]), it["b"], it["h"]
        exp = expected_count(L, b, h)
        seq = [l for l in o if l and l[0] < 100]
        if it["ops"] and it["ops"][0][0] in ("count", "fold") and seq and seq[0] != [4, exp]:
            problems.append(f"count() on the fresh windower = {seq[0][1:]}, the property says {exp}")
        if it["ops"] and it["ops"][0][0] == "last" and seq and seq[0][0] == 2 and exp > 0 and it["wk"] == 1 and it["fk"] == 2:
            # rectangle window on i16 frames: mul_amp by 1.0 is exact, so last() must show frames (count-1)*h .. +b-1
            want = [s_ for f in it["frames"][(exp - 1) * h:(exp - 1) * h + b] for s_ in f]
            if seq[0][1:1 + len(want)] != want:
                problems.append(f"last() on the fresh windower starts with {seq[0][1:1 + len(want)]}, the last chunk "
                                f"(number {exp - 1}, frames {(exp - 1) * h}..{(exp - 1) * h + b - 1}) is {want}")
        if it["ops"] and it["ops"][0][0] == "last" and seq and (seq[0][0] == 2) != (exp > 0):
            problems.append(f"last() on the fresh windower is {'Some' if seq[0][0] == 2 else 'None'}, the property says {exp} chunks")
        return problems
    if it["kind"] == "H":
        ph = [f64b(float(b2f32(p))) for p in it["ps"]]
        for p, v in zip(ph, by.get(110, [])):
            if not hann_ok(p, v):
                problems.append(f"Hann::window::<f64>({b2f64(p)!r}) = {b2f64(v)!r} outside the 4-ulp oracle interval")
        for p, v in zip(by.get(117, []), by.get(116, [])):
            if not hann_ok(p, v):
                problems.append(f"Hann::window::<f64>({b2f64(p)!r}) = {b2f64(v)!r} outside the 4-ulp oracle interval")
        if len(by.get(110, [])) != len(ph) or len(by.get(116, [])) != len(it["qs"]):
            problems.append("missing Hann observations")
        return problems
    if it["wk"] == 0:
        if len(by.get(101, [])) != it["b"] + 2 or len(by.get(100, [])) != it["b"] + 2:
            problems.append("missing window observations")
        for p, v in zip(by.get(100, []), by.get(101, [])):
            if not hann_ok(p, v):
                problems.append(f"Hann window value at phase {b2f64(p)!r} = {b2f64(v)!r} outside the 4-ulp oracle interval")
    if it["b"] >= 2:
        # end-to-end reading of the property in floating point: the i-th sampled phase is frac(i/(b-1)) up to
        # accumulated rounding (circular distance: the last phase may land just below 1 instead of on 0), and the
        # Hann value is hann(i/(b-1)) up to 1e-12
        b = it["b"]
        for i, pb in enumerate(by.get(100, [])):
            e = Fraction(i, b - 1) % 1
            d = abs(Fraction(b2f64(pb)) - e)
            if min(d, 1 - d) > Fraction(1, 10 ** 12):
                problems.append(f"phase #{i} of a window of {b} frames = {b2f64(pb)!r}, exact arithmetic gives {float(e)!r}")
            if it["wk"] == 0 and i < len(by.get(101, [])):
                want = 0.5 * (1.0 - math.cos(2.0 * math.pi * float(e)))
                if not abs(b2f64(by[101][i]) - want) <= 1e-12:
                    problems.append(f"Hann window value #{i} of {b} = {b2f64(by[101][i])!r}, hann({i}/{b - 1}) = {want!r}")
            if it["wk"] == 1 and i < len(by.get(101, [])) and b2f64(by[101][i]) != 1.0:
                problems.append(f"Rectangle window value #{i} = {b2f64(by[101][i])!r}")
    if it["b"] >= 1 and it["h"] >= 1:
        L, b, h = len(it["ops"]), it["b"], it["h"]
        exp = expected_count(L, b, h)
        seq = [l for l in o if l and l[0] < 100]
        chunks = [l for l in seq if l[0] == 2]
        hints = [l for l in seq if l[0] == 1]
        if it["maxn"] > exp and len(chunks) != exp:
            problems.append(f"yielded {len(chunks)} chunks, the property says {exp}")
        for j, hnt in enumerate(hints):
            want = max(0, exp - j)
            if hnt != [1, want, 1, want]:
                problems.append(f"size_hint before next #{j} = {hnt[1:]}, {want} chunks still to come")
                break
    return problems


# ---------------------------------------------------------------------------
# transport into coqc: primitive 63-bit literals (Signal/WindowWire.v decodes them); parsing Z literals
# cost 2-3x more than evaluating the model

T61, T62 = 1 << 61, 1 << 62
OPCODE = {k: i for i, k in enumerate(["next", "nth", "last", "lastref", "count", "countref", "skip", "stepby", "collect",
                                      "fold", "wnth", "wskip", "wtakelast", "wstepby", "cnth", "cskip", "ctakelast"])}


def wtoks(v):
    v = int(v)
    if 0 <= v < T61:
        return [v]
    if -T61 < v < 0:
        return [T61 - v]
    if v < 0:  # large negative (i64 / I48 samples)
        m = -v
        assert m < (1 << 122)
        return [T62 + T61 + (m >> 62), m & (T62 - 1)]
    assert v < (1 << 122)
    return [T62 + (v >> 62), v & (T62 - 1)]


def wl(xs):
    return "[" + "; ".join(str(t) for x in xs for t in wtoks(x)) + "]"


def wll(xss):
    return "[" + "; ".join(wl(x) for x in xss) + "]"


def wire_term(it, obs):
    if it["kind"] == "W":
        k, hdr, data, ops = 0, [it[x] for x in ("wk", "fk", "nch", "b", "h", "maxn")], it["ops"], []
    elif it["kind"] == "H":
        k, hdr, data, ops = 1, [], [it["ps"], it["qs"]], []
    else:
        k, hdr, data = 2, [it[x] for x in ("wk", "fk", "nch", "b", "h", "np")], it["frames"]
        ops = [[OPCODE[o[0]]] + list(o[1:]) for o in it["ops"]]
    # (an empty op list is given its type: a batch of window cases alone has no op anywhere to infer it from)
    return f"(({k}, {wl(hdr)}, {wll(data)}, {wll(ops) if ops else '(@nil (list int))'}, {wll(obs)})%uint63)"


def correspond63(binpath, items, tag):
    """F.correspond with the cases transported as uint63 literals"""
    rc, outl, err = F.run_bin_parallel(binpath, [it["line"] for it in items])
    if rc != 0 or len(outl) != len(items):
        return outl, [], [("harness", f"rc={rc} lines={len(outl)}/{len(items)} stderr={err[-1500:]}")]
    terms = []
    for it, o in zip(items, outl):
        try:
            terms.append(wire_term(it, F.norm_obs_line(o)))
        except ValueError:
            return outl, [], [("harness", f"unparsable observation line {o[:200]!r} for {it['line'][:200]!r}")]
    bad, cerrs = F.coq_check_cases(tag, HEADER63, CHECK63, terms, per_file=max(40, (len(terms) + F.NCPU - 1) // F.NCPU))
    return outl, bad, cerrs


def load_corpus():
    d = os.path.join(F.VERIF, "corpus", PROP)
    items = []
    if os.path.isdir(d):
        for fn in sorted(os.listdir(d)):
            if fn.endswith(".json"):
                items.append(build(json.load(open(os.path.join(d, fn)))))
    return items


def case_dict(it):
    return {k: it[k] for k in ("kind", "wk", "fk", "nch", "b", "h", "maxn", "ops", "frames", "ps", "qs") if k in it}


# ---------------------------------------------------------------------------
# tie 1: regenerate the model from the source, build the proofs, find what broke


def regenerate():
    """coq/gen/WindowGen.v from the current source (written only if changed). -> (names, changed, error)"""
    try:
        names, changed = TW.generate(WINDOW_SRC)
        return names, changed, None
    except TW.TranslateError as e:
        return None, False, str(e)


TIE_TARGETS = ("gen/WindowGen.vo", "theories/Signal/WindowGenGlue.vo", "theories/Signal/WindowGenEquiv.vo",
               "theories/Signal/WindowGenEquivR.vo", "theories/Signal/WindowGenExamples.vo")


def broken_lemma(log):
    """every error `make` reported: file, line, enclosing lemma (files of the translator tie first)"""
    found = []
    for m in re.finditer(r'File "\./([^"]+)", line (\d+), characters[^\n]*\n((?:(?!File "|make).*\n){0,6})', log):
        path, line = m.group(1), int(m.group(2))
        lemma = None
        try:
            src = open(os.path.join(F.COQ, path)).read().split("\n")
            for l in range(min(line, len(src)) - 1, -1, -1):
                mm = re.match(r"\s*(?:Lemma|Theorem|Example|Definition|Fixpoint)\s+([\w']+)", src[l])
                if mm:
                    lemma = mm.group(1)
                    break
        except OSError:
            pass
        found.append(dict(file="coq/" + path, line=line, lemma=lemma, message=" ".join(m.group(3).split())[:400]))
    if not found:
        return dict(file=None, line=None, lemma=None, message=log[-1500:], all=[])
    rank = lambda f: 0 if "gen/WindowGen" in f["file"] else 1 if "WindowGenGlue" in f["file"] else 2 if "WindowGenEquiv" in f["file"] else 3 if "WindowGen" in f["file"] else 4  # noqa: E731
    found.sort(key=rank)
    return dict(found[0], all=[f"{f['file']}:{f['line']} {f['lemma']}" for f in found])


def proof_phase(rep, terr):
    """-> info; info['broken'] (dict) is set when the translator tie or a proof broke: the caller then runs
    the search and registers the violation"""
    t = time.time()
    info = {"coq_ok": False, "theorems": [], "axioms": [], "coq_s": None, "broken": None}
    if terr is not None:
        info["broken"] = dict(stage="translator", message="the chunk-schedule model cannot be regenerated from the source: " + terr,
                              source=WINDOW_SRC)
        info["coq_s"] = round(time.time() - t, 1)
        return info
    ok, log = F.coq_prop_build(PROP)
    info["coq_ok"] = ok
    if not ok:
        # name the FIRST thing that broke along the translator tie (make -j reports whatever failed first)
        bl = None
        for tgt in TIE_TARGETS:
            ok2, log2 = F.coq_make(tgt)
            if not ok2:
                bl = broken_lemma(log2)
                break
        if bl is None:
            bl = broken_lemma(log)
        f = bl.get("file") or ""
        if "gen/WindowGen.v" in f:
            stage, what = "generated_model", "the model regenerated from the source does not type-check in Coq (the body of a method no longer has the representation its declared Rust type needs)"
        elif "WindowGenGlue" in f:
            stage, what = "generated_model", "the iteration drivers over the regenerated methods (Signal/WindowGenGlue.v) do not type-check: a regenerated method changed its type"
        elif "WindowGenEquiv" in f:
            stage, what = "equivalence", f"the method regenerated from the source is no longer provably equal to the hand model: lemma {bl.get('lemma')}"
        elif "WindowGenExamples" in f:
            stage, what = "equivalence", f"the regenerated model no longer computes the documented example: {bl.get('lemma')}"
        else:
            stage, what = "proof", f"proof obligation no longer checks: {bl.get('lemma')}"
        info["broken"] = dict(stage=stage, message=what, broken_lemma=bl.get("lemma"), file=bl.get("file"), line=bl.get("line"),
                              coq_message=bl.get("message"), all_broken=bl.get("all", []), target="coq/props/C20.vo",
                              source=WINDOW_SRC)
        info["coq_s"] = round(time.time() - t, 1)
        return info
    problems, ainfo = F.coq_audit(PROP, log, F.AX_REALS)
    info.update(ainfo)
    info["coq_s"] = round(time.time() - t, 1)
    if problems:
        rep.violation("audit", {"kind": "audit of the Coq development failed", "problems": problems}, no_input=True)
    return info


def gen_search(rep, binpath, items, outl, broken):
    """the regenerated model (Signal/WindowGenRun.v) on the window / windower cases of the correspondence: against
    the crate's observations and against the hand model.  -> (n_cases, n_failing, n_vs_crate, n_vs_hand, note) -- the last
    two among the (at most 120) smallest failing cases -- and registers a VIOLATION with replay for the first failing input"""
    ok, log = F.coq_make("theories/Signal/WindowGenRun.vo")
    if not ok:
        return 0, None, None, None, "the regenerated model does not compile, it cannot be run: " + " ".join(log[-600:].split())
    # the window / windower cases, cheapest first (frames x bin), at most 1200 of them: every class of (L, bin, hop) of
    # the grid occurs among the small ones, and a failure run should not take many times longer than a passing one
    keep = sorted((i for i, it in enumerate(items) if it["kind"] == "W"),
                  key=lambda i: ((len(items[i]["ops"]) + 1) * (items[i]["b"] + 2) * items[i]["nch"], i))[:1200]
    items, outl = [items[i] for i in keep], [outl[i] for i in keep]
    try:
        terms = [wire_term(it, F.norm_obs_line(o)) for it, o in zip(items, outl)]
    except ValueError as e:
        return len(items), None, None, None, f"unparsable observation line: {e}"
    pf = max(40, (len(terms) + F.NCPU - 1) // F.NCPU)
    bad_any, e1 = F.coq_check_cases("c20_gen", GEN_HEADER63, "both63_gen", terms, per_file=pf)
    if e1:
        return len(items), None, None, None, "the regenerated model could not be evaluated: " + str(e1[0])[:600]
    # which of the two comparisons fails is decided on the smallest failing cases only (in the property's domain first)
    dom = lambda i: (not (items[i]["b"] >= 2 and items[i]["h"] >= 1), len(items[i]["ops"]), items[i]["b"], items[i]["h"])  # noqa: E731
    n_any = len(bad_any)
    bad_any = sorted(bad_any, key=dom)[:120]
    sub = [terms[i] for i in bad_any]
    bc, e1 = F.coq_check_cases("c20_gen_crate", GEN_HEADER63, "check63_gen", sub, per_file=pf)
    bh, e2 = F.coq_check_cases("c20_gen_hand", GEN_HEADER63, "agree63_gen", sub, per_file=pf)
    if e1 or e2:
        return len(items), None, None, None, "the regenerated model could not be evaluated: " + str((e1 + e2)[0])[:600]
    bad_crate, bad_hand = [bad_any[i] for i in bc], [bad_any[i] for i in bh]
    for tag, bad, fn, what in (("crate", bad_crate, "check63_gen", "the crate"), ("hand", bad_hand, "agree63_gen", "the hand model")):
        if not bad:
            continue
        # the smallest failing case in the property's domain (fewest frames), then shrink its frame list
        idx = min(bad, key=dom)
        it = items[idx]

        def fails(c):
            rc, o, _ = F.run_bin(binpath, [c["line"]])
            if rc != 0 or len(o) != 1:
                return False
            try:
                b, e = F.coq_check_cases("c20_gen_shrink", GEN_HEADER63, fn, [wire_term(c, F.norm_obs_line(o[0]))])
            except ValueError:
                return False
            return bool(b) and not e

        small = F.shrink_ops(it, build, fails, max_steps=10)
        rc, out, _ = F.run_bin(binpath, [small["line"]])
        obs = F.zlistlist(F.norm_obs_line(out[0]) if out else [])
        _, gmodel = F.coq_eval("c20", GEN_HEADER, f"run_case_gen ({small['coq']}) {obs}")
        _, hmodel = F.coq_eval("c20", GEN_HEADER, f"run_case ({small['coq']}) {obs}")
        rep.violation(f"generated_vs_{tag}_case{keep[idx]}", {
            "kind": f"the model regenerated from {WINDOW_SRC} disagrees with {what} on this case "
                    "(the source no longer computes what the proved model computes; or a translator fault)",
            "why": broken, "case": case_dict(small), "model": "generated", "against": tag,
            "harness_line": small["line"], "implementation_observations": out,
            "generated_model_observations": gmodel[-3000:], "hand_model_observations": hmodel[-3000:],
            "observation_format": "1 lo 1 hi = size_hint (lo, Some(hi)); 2 samples.. = the first bin+2 frames of a chunk; 3 = None; 8 k = panic; 100 = window phases, 101 = window values, 102/104 = Window iterator frames",
            "failing_cases_in_this_run": n_any, "of_the_smallest_120_failing": {"against_the_crate": len(bad_crate), "against_the_hand_model": len(bad_hand)},
            "cases_run_on_the_generated_model": len(items),
            "replay": "./check.py C20 --replay <this file>"})
        break
    return len(items), n_any, len(bad_crate), len(bad_hand), None


def main(rep, tier, seed):
    rng = F.Rng(seed)
    t0 = time.time()
    names, regenerated_w, terr_w = regenerate()
    tinfo = {"source": WINDOW_SRC, "generated_files": ["coq/gen/WindowGen.v"], "rewritten": list(regenerated_w or []),
             "definitions": list(names or []), "translate_s": round(time.time() - t0, 2), "error": terr_w}
    if terr_w is None:
        # self-test of "never silently skipped": single-token edits of the method bodies must be rejected or change the output
        try:
            sens = TW.sensitivity(open(WINDOW_SRC).read())
        except (TW.TranslateError, OSError) as e:
            sens = dict(sites=0, tried=0, rejected=0, changed=0, ignored=[f"self-test failed: {e}"])
        tinfo["sensitivity_self_test"] = dict(single_token_edits=sens["tried"], rejected=sens["rejected"],
                                              change_the_generated_model=sens["changed"], ignored=len(sens["ignored"]))
        tinfo["translate_s"] = round(time.time() - t0, 2)
        if sens["ignored"]:
            rep.violation("translator_insensitive", {"kind": "translate/window2coq.py ignores part of a method body: an edit of the source leaves the generated model unchanged",
                                                    "edits": sens["ignored"][:20]}, no_input=True)
    if TEST_WINDOW:
        rep.notes.append(f"note: DASP_WINDOW_RS={TEST_WINDOW} (testing mode: the translator reads this file instead of /repo's "
                         "window/mod.rs; the harness is still built against /repo, only the translator side sees the change)")
    # the generated sample conversions / companion table the all-formats cases run through (same helper as C03)
    try:
        from props import c03
        terr, regenerated = c03.regenerate()
    except Exception as e:  # translator crash = model cannot be regenerated
        terr, regenerated = f"{type(e).__name__}: {e}", []
    if terr:
        rep.violation("translate", {"kind": "model cannot be regenerated: the translators do not recognise the current dasp_sample sources (the committed generated model is used for the rest of this run)", "error": terr}, no_input=True)
    info = proof_phase(rep, terr_w)
    info["regenerated"] = regenerated
    info["translator"] = tinfo
    broken = info.get("broken")
    fb_n, fb_bad, fb_err = floatbase.run(rng.fork("floatbase"), 400 if tier == "quick" else 3000)
    for name, msg in fb_err:
        rep.violation("floatbase_error", {"kind": "float base validation could not be evaluated", "where": name, "log": msg}, no_input=True)
    for c, o in fb_bad[:3]:
        rep.violation("floatbase", {"kind": "Base/Float.v disagrees with rustc", "case": c, "rustc": o}, no_input=True)
    ok, blog, binpath = F.harness_build("c20")
    if not ok:
        rep.violation("harness_build", {"kind": "harness does not build against /repo", "log": blog[-4000:]}, no_input=True)
        if broken:
            rep.violation("translator_tie_broken", dict(kind=broken["message"], **broken), no_input=True)
        return finish(rep, info, 0, 0, {}, [], fb=(fb_n, len(fb_bad)))
    corpus = load_corpus()
    items, parts = gen_cases(rng, tier)
    items = corpus + items
    outl, bad, errors = correspond63(binpath, items, "c20")
    rep.extra["no_std_build"] = F.nostd_phase(rep, "c20", items, outl) if not errors and len(outl) == len(items) else {}
    rep.extra["build_profiles"] = F.profile_phase(rep, "c20", items, outl, profiles=("release",)) if not errors and len(outl) == len(items) else {}
    for name, msg in errors:
        rep.violation("correspondence_error_" + name.replace("/", "_"),
                      {"kind": "correspondence could not be evaluated", "where": name, "log": msg}, no_input=True)
    # property verdict on the implementation's own observations
    vbad = []
    if not errors:
        for i, (it, o) in enumerate(zip(items, outl)):
            pr = verdict(it, o)
            if pr:
                vbad.append((i, pr))
    for i, pr in vbad[:3]:
        it = items[i]
        rep.violation(f"verdict{i}", {
            "kind": "the implementation's observations violate the property (chunk count / size_hint / Hann value)",
            "problems": pr[:5], "case": case_dict(it), "harness_line": it["line"], "implementation_observations": outl[i],
            "replay": "./check.py C20 --replay <this file>"})
    for idx in bad[:3]:
        it = items[idx]

        def fails(c):
            o, b, e = correspond63(binpath, [c], "c20_shrink")
            return bool(b) and not e

        small = F.shrink_ops(it, build, fails, max_steps=30) if it["kind"] in ("W", "I") else it
        rc, out, _ = F.run_bin(binpath, [small["line"]])
        _, model = F.coq_eval("c20", HEADER, f"run_case ({small['coq']}) {F.zlistlist(F.norm_obs_line(out[0]) if out else [])}")
        rep.violation(f"case{idx}", {
            "kind": "model/implementation disagreement: dasp_signal::window does not behave as the proved window/windower model",
            "case": case_dict(small), **({"why": broken} if broken else {}), "harness_line": small["line"], "implementation_observations": out,
            "model_observations": model[-3000:], "original_case_index": idx,
            "poison_values": "in model_observations -2^201 marks a value where the conversion regenerated from the current dasp_sample source disagrees with its specification (amp/2^(bits-1) correctly rounded; trunc(f*2^(bits-1)) re-offset, saturating), -2^200 a panic of the generated model",
            "replay": "./check.py C20 --replay <this file>"})
    # the translator tie broke: the correspondence above was the search at implementation level (hand model and
    # property verdict against the crate); now the regenerated model itself (when there is one) on the same cases
    if broken:
        search = {"hand_model_vs_crate_failing": len(bad), "verdict_failures": len(vbad), "cases": len(items)}
        found = bool(bad) or bool(vbad)
        if broken["stage"] in ("equivalence", "proof") and not errors:
            ng, na, nc, nh, note = gen_search(rep, binpath, items, outl, broken)
            search.update(cases_run_on_the_generated_model=ng, generated_model_failing=na, of_the_smallest_120_vs_crate=nc, of_the_smallest_120_vs_hand_model=nh, note=note)
            found = found or bool(na)
        if not found:
            rep.violation("translator_tie_broken", dict(
                kind=broken["message"] + " -- and no failing input was found: the hand model still agrees with the crate on every case"
                     + (", and so does the regenerated model" if search.get("generated_model_failing") == 0 else ""),
                search=search, **broken), no_input=True)
        info["search"] = search
    elif tier == "thorough" and not errors and not bad:
        # the search tool itself is exercised while nothing is broken: the runner of the generated model must agree everywhere
        ng, na, nc, nh, note = gen_search(rep, binpath, items, outl, dict(stage="none", message="self-test of the generated-model runner: the equivalence is proved, yet the runner of the generated model disagrees (fault in Signal/WindowGenRun.v or lib/props/c20.py)"))
        info["generated_runner_self_test"] = dict(cases=ng, generated_model_failing=na, note=note)
        if note:
            rep.violation("generated_runner", {"kind": "the runner of the generated model could not be evaluated", "log": note}, no_input=True)
    # distribution
    hist = {"count": {}, "class": {}, "window": {}, "format": {}, "bin": {}}

    def bump(h, k):
        hist[h][str(k)] = hist[h].get(str(k), 0) + 1

    last_phase = {}
    for it, o in zip(items, outl):
        if it["kind"] == "I":
            L, b, h = len(it["frames"]), it["b"], it["h"]
            bump("class", "iterator_methods:" + ("L<b" if L < b else "one_chunk" if L < b + h else
                                                 "partial_last_hop" if (L - b) % h else "exact_last_hop"))
            for o_ in it["ops"]:
                hist.setdefault("iterator_ops", {})
                bump("iterator_ops", o_[0])
            continue
        if it["kind"] != "W":
            bump("class", "window_fn")
            continue
        L, b, h = len(it["ops"]), it["b"], it["h"]
        bump("window", WK[it["wk"]])
        bump("format", fk_name(it["fk"]) + "x%d" % it["nch"])
        bump("bin", b)
        if b < 2 or h < 1:
            bump("class", "off_domain(bin<2 or hop=0)")
            continue
        c = expected_count(L, b, h)
        bump("count", c if c < 10 else "10+")
        bump("class", "L<b" if L < b else "L=b" if L == b else "hop>L" if h > L else "hop=L" if h == L
             else "one_chunk" if c == 1 else "multi_chunk")
        if not errors:
            ob = F.parse_obs_line(o)
            if ob and ob[0] and ob[0][0] == 100 and b >= 2:
                last_phase[b] = b2f64(ob[0][b])  # phase of the b-th (last) window sample
    nontriv = len({it["line"] for it in items if nontrivial(it)}) if not errors else 0
    dist = {"parts": parts, "corpus_cases": len(corpus), "histograms": hist,
            "float_last_phase_by_bin(phase sampled for the last frame of the window; exact arithmetic: 0 = wrapped 1)":
                {str(k): repr(v) for k, v in sorted(last_phase.items())},
            "floatbase_cases": fb_n, "floatbase_disagreements": len(fb_bad)}
    samples = [items[i]["line"][:300] for i in (0, len(items) // 2, len(items) - 1)]
    return finish(rep, info, len(items), nontriv, dist, samples, bad, vbad, fb=(fb_n, len(fb_bad)))


def finish(rep, info, n, nontriv, dist, samples, bad=(), vbad=(), fb=(0, 0)):
    th = info.get("theorems", [])
    cov = {
        "obligations": max(1, len(th)), "discharged": len(th) if info.get("coq_ok") else 0,
        "checker_cmd": "translate/window2coq.py /repo/dasp_signal/src/window/mod.rs > coq/gen/WindowGen.v; make -f Makefile.coq props/C20.vo (coqc 8.16.1, full .vo) + Print Assumptions audit",
        "trusted_base": F.TRUSTED_COMMON + [
            "axioms: the real-number theorems use only Coq's standard real-number axioms (ClassicalDedekindReals.sig_forall_dec, sig_not_dec, functional_extensionality_dep; Classical_Prop.classic if reported); every schedule theorem is closed under the global context",
            "modelled, not verified: Rust slices as lists, usize as nat (no value near 2^64), Base/Float.v as IEEE-754 binary32/64 (validated against rustc in this run)",
            "translate/window2coq.py + translate/rustmini.py (Rust method bodies of window/mod.rs -> Gallina: evaluation order, control flow, state threading) and the vocabulary the generated code is written in, hand-modelled after code OUTSIDE window/mod.rs (Signal/WindowPrim.v, Signal/Window.v): Rate/ConstHz as the f64 they wrap, rate / const_hz / phase / Phase::next_phase, from_iter and its Signal::next, Frame::from_fn / mul_amp, Sample::to_sample and the window function as parameters, f64 arithmetic as the record [arith]; the caller-side glue Signal/WindowGenGlue.v (next until None, nth/last/count as the core::iter defaults); validated through the correspondence of the (proved equal) hand model",
            "translators translate/conv2coq.py, sampletable2coq.py (generated sample conversions used by the all-format cases; each result is additionally compared with its ConvSpec specification value)",
            "libm cos: taken from the implementation as data in the model run; validated against python math.cos (same glibc) with a 4-ulp tolerance on the cos value"],
        "theorems": th, "axioms_reported": info.get("axioms", []),
        "translator": info.get("translator", {}), "translator_tie_broken": info.get("broken"), "search": info.get("search"),
        "generated_runner_self_test": info.get("generated_runner_self_test"),
        "evaluations": n, "distinct_nontrivial": nontriv,
        "rule": "grid L=0..40 x bin=2..9 x hop (quick: structured subset {1,b,L-b,L,L+1}+{2,L-b+1} or {b+1,L-1,45}+2 random, hop 1 and 2 only for L<=20 or L%4=0; thorough: all 1..45), window and frame format rotating over {Hann,Rectangle} x {f32,f64,i16} x {1,2 channels}; plus larger random (L<=150, bin<=64), off-domain (bin<2, hop=0), window-function cases, all-format cases (each of the 14 sample formats x 1/2/3 channels x rectangle and odd-bin Hann, samples at/near the rails and near equilibrium placed where the window value is exactly 1.0; the model's sample operations are the conversions regenerated from dasp_sample, every result compared with its ConvSpec value; Window::<F,W> frames in the frame's own format) and provided-Iterator-method cases (last, nth, count, fold, skip, step_by, collect, by_ref().last()/count() on Windower with size_hint after every op; nth, skip, take(n).last(), step_by on Window and Windowed; 70% of them with (L-bin) % hop != 0 and at least two chunks); non-trivial = bin>=2, hop>=1 and (L >= bin+hop, i.e. at least two chunks, or L == bin)",
        "samples": samples, "input_distribution": dist, "disagreements": len(bad), "verdict_failures": len(vbad),
        "explanation": "theorems: window shape over R with the true cos, sampled phases, chunk count / chunk position / size_hint for all L, bin>=1, hop>=1 by induction, last()/nth(k)/count() of the model iterator (defaults of core::iter over next) = chunk count-1 / chunk k / count; tie: the model's IEEE instance run by coqc on the same cases as the real crates, every observation compared exactly except libm cos (4-ulp oracle)",
    }
    return rep.finish("proof", cov, [
        "Rust slices are modelled as lists and usize as unbounded nat",
        "the translator is faithful (validated by the correspondence, not proved); what it calls instead of translating (f64 arithmetic, Phase, FromIterator, the window functions, sample / frame operations) is hand-modelled",
        "the R theorems speak about exact arithmetic; the IEEE behaviour of the phase accumulator and of mul_amp is covered by the correspondence only",
        "libm cos is assumed deterministic (same input, same output) and within 4 ulp of glibc's cos as seen from python"])


def replay(path):
    j = json.load(open(path))
    if "case" not in j:
        print("this replay file names a broken lemma / translator error and has no input; re-run ./check.py C20")
        print(json.dumps({k: j.get(k) for k in ("kind", "stage", "broken_lemma", "file", "line", "coq_message", "message", "edits", "problems")}, indent=1))
        return 1
    it = build(j["case"])
    ok, blog, binpath = F.harness_build("c20")
    rc, out, _ = F.run_bin(binpath, [it["line"]])
    if j.get("model") == "generated":
        names, regenerated, terr = regenerate()
        if terr:
            print("translator:", terr)
            return 1
        okb, logb = F.coq_make("theories/Signal/WindowGenRun.vo")
        if not okb:
            print("the regenerated model does not compile:", logb[-1500:])
            return 1
        obs = F.zlistlist(F.norm_obs_line(out[0]) if out else [])
        _, gmodel = F.coq_eval("c20", GEN_HEADER, f"run_case_gen ({it['coq']}) {obs}")
        _, hmodel = F.coq_eval("c20", GEN_HEADER, f"run_case ({it['coq']}) {obs}")
        print("case:", it["line"])
        print("implementation:", out)
        print("generated model:", gmodel)
        print("hand model:", hmodel)
        fn = "agree63_gen" if j.get("against") == "hand" else "check63_gen"
        bad, errs = F.coq_check_cases("c20_replay", GEN_HEADER63, fn, [wire_term(it, F.norm_obs_line(out[0]) if out else [])])
        print("AGREE" if not bad and not errs else "DISAGREE")
        return 1 if bad or errs else 0
    _, model = F.coq_eval("c20", HEADER, f"run_case ({it['coq']}) {F.zlistlist(F.norm_obs_line(out[0]) if out else [])}")
    print("case:", it["line"])
    print("implementation:", out)
    print("model:", model)
    o, bad, errs = correspond63(binpath, [it], "c20_replay")
    o2, bad2, errs2 = F.correspond(binpath, [it], HEADER, CHECK, "c20_replay_z")  # the same through plain Z literals
    bad, errs = bad + bad2, errs + errs2
    pr = verdict(it, out[0]) if out else ["no output"]
    for p in pr:
        print("verdict:", p)
    print("AGREE" if not bad and not errs and not pr else "DISAGREE")
    return 1 if bad or errs or pr else 0
