"""C01 -- integer sample formats convert by exact power-of-two amplitude rescaling.

Proof: coq/props/C01.v.  The 132 functions `Sample::to_sample` dispatches to are TRANSLATED from
dasp_sample/src/conv.rs on every run (translate/conv2coq.py -> coq/gen/ConvGen.v, explicit machine-integer
semantics of coq/theories/Sample/Rint.v) and each is proved equal to the specification
(coq/theories/Sample/ConvSpec.v) by one tactic; the consequences (in range, monotone, equilibrium, extremes,
lossless widening, via-intermediate) are proved from the specification for all formats.
Tie: translator + correspondence -- the generated model, evaluated by coqc, is compared with the real crate
(public trait dispatch; debug, release AND relchk = optimised + overflow checks on + debug assertions off) on every value of 8-bit sources, boundary-structured and
random values of the wider ones, out-of-range representation values of the 24/48-bit types; an independent
i128 oracle of the specification inside the harness covers the large sweeps.
If a generated proof no longer checks (conv.rs changed) the check searches a concrete failing input
(DESIGN 5.1): model level (coqc: regenerated function vs specification) and implementation level
(harness: real function vs i128 oracle, in all three build profiles)."""
import json, os, re, sys, shutil, time
import framework as F
import conv_arms
import cov_evidence

sys.path.insert(0, os.path.join(F.VERIF, "translate"))
import conv2coq as T

PROP = "C01"
META = dict(
    technique="Coq proof over a model TRANSLATED from conv.rs on every run (one tactic closes all 132 dispatched conversions against the rescaling specification; consequences proved from the specification) + coqc-evaluated model vs crate correspondence in debug and release + i128 specification oracle sweeps",
    text="translate/conv2coq.py parses every conversions!/impl_from_sample! table of dasp_sample/src/conv.rs (and the format facts of types.rs / lib.rs) into shallow Gallina with explicit machine-integer semantics (checked arithmetic = debug build, wrapping = release, `as` and `<<` wrap, `>>` floors); Coq 8.16.1 proves, for all 132 ordered pairs and every in-range source value, that what Sample::to_sample dispatches to returns floor(amplitude * 2^(bits d - bits s)) re-offset, without overflow panic, in both build profiles; in-range, monotonicity, equilibrium, MIN/MAX, lossless widening and the via-intermediate law are proved from that formula for all formats. The 12 same-format conversions (the blanket identity impl, which no table row may overlap) return the value itself (c01_same_format). The translator is validated by running the generated model inside coqc against the real crate (every public entry point -- Sample::to_sample / from_sample, ToSample::to_sample_, FromSample::from_sample_, the same through a Duplex<_> bound only, and the module function conv::<src>::to_<dst> -- must return the same value; debug, release and relchk profiles) and the crate against an independent i128 oracle of the formula.",
    note="Trusted: Coq kernel; translate/conv2coq.py (validated only by the correspondence); Sample/Rint.v as the meaning of Rust's integer operators; harness + generators. Axioms: none. The statement's 'each extreme to the matching extreme' is false for MAX under widening (127i8 -> 32512i16 by the rescaling formula itself); proved instead: MAX -> MAX when narrowing, MAX -> MAX - (2^k - 1) when widening by k bits.",
    design="6/C01")
HEADER = "From Dasp Require Import Sample.ConvRun.\nRequire Import Uint63."
CHECK = "check"
FORMATS = T.FORMATS
BITS = T.FMT_BITS
CODE = {f: i for i, f in enumerate(FORMATS)}
SIGNED = {f: f[0] in "iI" for f in FORMATS}
REP = {"I24": "i32", "U24": "i32", "I48": "i64", "U48": "i64"}
PAIRS = [(s, d) for s in FORMATS for d in FORMATS if s != d]
# the diagonal: `x.to_sample::<Self>()` dispatches to the blanket `impl<S> FromSample<S> for S` (identity); it is what
# add_amp / to_signed_sample of every signed format run through, generic code converts "to the same format" whenever its
# two type parameters coincide, and the rescaling formula gives z itself there (c01_same_format)
IDENT = [(s, s) for s in FORMATS]
ALL_PAIRS = PAIRS + IDENT
TEST_CONV = os.environ.get("DASP_CONV_RS")  # TESTING ONLY: pretend /repo's conv.rs were this file
TEST_TYPES = os.environ.get("DASP_TYPES_RS")  # TESTING ONLY: pretend /repo's types.rs were this file
TEST_MODE = bool(TEST_CONV or TEST_TYPES)
# build profiles the crate is executed in: index -> (cargo profile, name in reports, model mode code)
# model mode code: 0 = Checked arithmetic (overflow checks on), 1 = Wrapping.  relchk = optimised build with
# overflow checks ON and debug assertions OFF: nothing in conv.rs may depend on cfg!(debug_assertions), so the
# Checked model applies unchanged (a conversion gated on debug_assertions shows up exactly here)
PROFILES = {0: ("dev", "debug", 0), 1: ("release", "release", 1),
            2: ("relchk", "relchk (optimised, overflow-checks on, debug-assertions off)", 0)}
MODES = (0, 1, 2)


def pname(mode):
    return PROFILES[mode][1]


def mcode(mode):
    return PROFILES[mode][2]


def fmin(f):
    return -(1 << (BITS[f] - 1)) if SIGNED[f] else 0


def fmax(f):
    return (1 << (BITS[f] - 1)) - 1 if SIGNED[f] else (1 << BITS[f]) - 1


def offset(f):
    return 0 if SIGNED[f] else 1 << (BITS[f] - 1)


def spec(s, d, z):
    """python copy of the specification (used only to classify cases for the evidence, never as a verdict)"""
    return (((z - offset(s)) << BITS[d]) >> BITS[s]) + offset(d)


def zt(n):
    """compact Coq term for an integer (see ConvRun.zp)"""
    n = int(n)
    a = abs(n)
    if a < (1 << 20):
        return f"({n})" if n < 0 else str(n)
    return f"({'zn' if n < 0 else 'zp'} {a >> 32} {a & 0xffffffff})"


# ---------------------------------------------------------------------------
# input values


def boundary(f):
    """MIN, MIN+1, -2^k±1, -1, 0, 1, 2^k±1, MAX-1, MAX for every k -- both on the raw value and on the amplitude"""
    lo, hi, off = fmin(f), fmax(f), offset(f)
    out = {lo, lo + 1, lo + 2, hi, hi - 1, hi - 2, off, off - 1, off + 1}
    for k in range(BITS[f] + 1):
        for sgn in (1, -1):
            for dlt in (-1, 0, 1):
                out.add(sgn * (1 << k) + dlt)          # raw value
                out.add(sgn * (1 << k) + dlt + off)    # amplitude
                out.add(hi - (1 << k) + dlt)
                out.add(lo + (1 << k) + dlt)
    return sorted(v for v in out if lo <= v <= hi)


def randoms(rng, f, n):
    lo, hi = fmin(f), fmax(f)
    out = []
    for i in range(n):
        if i % 4 == 3:  # small amplitudes of both signs with random low bits
            k = rng.range(1, BITS[f] - 1)
            v = offset(f) + rng.range(-(1 << k), (1 << k) - 1)
            out.append(min(hi, max(lo, v)))
        else:
            out.append(rng.range(lo, hi))
    return out


def malformed(rng, f, n):
    """representation values of I24/U24/I48/U48 outside [MIN, MAX] (reachable only through new_unchecked):
    nothing is claimed there, but model and crate must still agree (overflow panics in debug, wrap in release)"""
    if f not in REP:
        return []
    rb = int(REP[f][1:])
    rlo, rhi = -(1 << (rb - 1)), (1 << (rb - 1)) - 1
    lo, hi = fmin(f), fmax(f)
    out = [rlo, rlo + 1, rhi, rhi - 1, lo - 1, lo - 2, hi + 1, hi + 2, hi + (1 << (BITS[f] - 1)), lo - (1 << (BITS[f] - 1)),
           rhi - (1 << (BITS[f] - 1)) + 1, rhi - (1 << (BITS[f] - 1)), rlo + (1 << (BITS[f] - 1)) - 1]
    for _ in range(n):
        v = rng.range(rlo, rhi)
        if not (lo <= v <= hi):
            out.append(v)
    return [v for v in out if rlo <= v <= rhi and not (lo <= v <= hi)]


def chunks(xs, n):
    return [xs[i:i + n] for i in range(0, len(xs), n)]


def gen_items(rng, tier):
    """correspondence items (model in coqc vs crate); one item = one pair, one profile, a list of values"""
    n_rand = 700 if tier == "quick" else 6000
    n_mal = 40 if tier == "quick" else 400
    items = []
    for mode in MODES:  # the crate's own constants and validity check against the generated format table
        for f in FORMATS:
            items.append(dict(kind="consts", mode=mode, s=f, d=f, vals=[], line=f"consts {CODE[f]} 0"))
    for (s, d) in ALL_PAIRS:
        r = rng.fork(f"{s}>{d}")
        if BITS[s] == 8:
            vals = list(range(fmin(s), fmax(s) + 1))
            kinds = [("exhaustive", vals)]
        else:
            kinds = [("boundary", boundary(s)), ("random", randoms(r, s, n_rand if s != d else n_rand // 5))]
            if BITS[s] == 16 and tier == "thorough":
                kinds = [("boundary", boundary(s))]  # every value is covered by the digest sweep below
        mal = malformed(r, s, n_mal)
        if mal:
            kinds.append(("malformed", mal))
        for mode in MODES:
            for kind, vals in kinds:
                if mode == 2 and kind == "random":
                    if tier == "quick":
                        continue
                    vals = vals[:len(vals) // 3]
                for part in chunks(vals, 256):
                    items.append(dict(kind=kind, mode=mode, s=s, d=d, vals=part,
                                      line=f"vals {CODE[s]} {CODE[d]} " + " ".join(map(str, part))))
            if BITS[s] == 16 and tier == "thorough" and mode != 2:
                for lo in range(fmin(s), fmax(s) + 1, 4096):
                    items.append(dict(kind="range", mode=mode, s=s, d=d, lo=lo, n=4096,
                                      line=f"range {CODE[s]} {CODE[d]} {lo} 4096"))
    return items


def item_term(it, obs_line):
    obs = F.norm_obs_line(obs_line)
    if it["kind"] == "consts":
        case = f"CConsts {CODE[it['s']]}"
    elif it["kind"] == "range":
        case = f"CRange {mcode(it['mode'])} {CODE[it['s']]} {CODE[it['d']]} {zt(it['lo'])} {it['n']}%N"
    else:
        case = f"CVals {mcode(it['mode'])} {CODE[it['s']]} {CODE[it['d']]} [" + "; ".join(zt(v) for v in it["vals"]) + "]"
    return f"({case}, [" + "; ".join("[" + "; ".join(zt(x) for x in o) + "]" for o in obs) + "])"


def parse_zll(out):
    m = re.search(r"=\s*(\[.*\])\s*:\s*list \(list Z\)", out, re.S)
    if not m:
        return None
    return [[int(x) for x in re.findall(r"-?\d+", grp)] for grp in re.findall(r"\[([^\[\]]*)\]", m.group(1))]


def correspond(bins, items, tag):
    """runs the crate (profile per item) and the model; returns (obs per item, bad indices, errors)"""
    obs = [None] * len(items)
    errors = []
    for mode in MODES:
        idx = [i for i, it in enumerate(items) if it["mode"] == mode]
        if not idx:
            continue
        rc, outl, err = F.run_bin_parallel(bins[mode], [items[i]["line"] for i in idx])
        if rc != 0 or len(outl) != len(idx):
            errors.append(("harness", f"profile {pname(mode)}: rc={rc} lines={len(outl)}/{len(idx)} stderr={err[-1500:]}"))
            return obs, [], errors
        for i, o in zip(idx, outl):
            obs[i] = o
    try:
        terms = [item_term(it, o) for it, o in zip(items, obs)]
    except ValueError as e:
        return obs, [], [("harness", f"unparsable observation: {e}")]
    bad, cerrs = F.coq_check_cases(tag, HEADER, CHECK, terms, per_file=40)
    return obs, bad, errors + cerrs


def fn_name(S, s, d):
    if s == d:
        return "conv.rs `impl<S> FromSample<S> for S` (the blanket identity impl)"
    if S is None:
        return f"conv::{s.lower()}::to_{d.lower()}"
    m, fn = S.dispatch[(s, d)]
    return f"conv::{m}::{fn}"


def pinpoint(bins, it, S):
    """the individual values of a disagreeing item on which model and crate differ"""
    if it["kind"] == "consts":
        got = crate_consts(bins[it["mode"]]).get(it["s"])
        return [dict(input="n/a", format=it["s"], constant=CONST_NAMES[i], implementation=g, generated_table=e)
                for i, (g, e) in enumerate(zip(got or [], table_consts(S, it["s"]))) if g != e]
    vals = it["vals"] if it["kind"] != "range" else list(range(it["lo"], it["lo"] + it["n"]))
    out = []
    for part in chunks(vals, 512):
        rc, outl, _ = F.run_bin(bins[it["mode"]], [f"vals {CODE[it['s']]} {CODE[it['d']]} " + " ".join(map(str, part))])
        impl = F.norm_obs_line(outl[0]) if outl else []
        _, mo = F.coq_eval("c01_pin", HEADER, f"run_case (CVals {mcode(it['mode'])} {CODE[it['s']]} {CODE[it['d']]} [" + "; ".join(zt(v) for v in part) + "])")
        model = parse_zll(mo) or []
        for v, a, b in zip(part, impl, model):
            if a != b:
                out.append(dict(input=v, implementation=a, model=b, **({"note": f"{it['d']}::new({a[1]}) is not Some: the returned value is not a valid value of the target format by the crate's own validity check"} if a[:1] == [6] else {}), specification=spec(it["s"], it["d"], v) if fmin(it["s"]) <= v <= fmax(it["s"]) else "n/a (out-of-range representation value)"))
        if out:
            break
    out.sort(key=lambda r: abs(r["input"]))
    return out[:5]


CONST_NAMES = ["MIN", "MAX", "<T as Sample>::EQUILIBRIUM", "types::<mod>::EQUILIBRIUM", "T::new(MIN).is_some()", "T::new(MAX).is_some()",
               "T::new(MIN-1).is_none()", "T::new(MAX+1).is_none()"]


def crate_consts(binpath):
    rc, outl, _ = F.run_bin(binpath, [f"consts {CODE[f]} 0" for f in FORMATS])
    out = {}
    for f, o in zip(FORMATS, outl):
        t = o.split()
        if t and t[0] == "0":
            out[f] = [int(x) for x in t[1:]]
    return out


def spec_consts(f):
    return [fmin(f), fmax(f), offset(f), offset(f), 1, 1, 1, 1]


def table_consts(S, f):
    if S is None:
        return spec_consts(f)
    _, lo, hi, eq, _ = S.fmt_facts(f)
    return [lo, hi, eq, eq, 1, 1, 1, 1]


def constants_search(rep, S, bins, why):
    """the crate's own MIN / MAX / EQUILIBRIUM / validity check against 2^(bits-1) (and the values the
    translator read from the source), with the simplest conversion each difference breaks"""
    found = False
    for mode in MODES:
        got = crate_consts(bins[mode])
        for f in FORMATS:
            g, e = got.get(f), spec_consts(f)
            if g is None:
                continue
            for i in range(8):
                if g[i] == e[i] or (i == 3 and g[2] != e[2]):
                    continue
                wide = "i64" if f not in ("i64",) else "u64"
                small = "i8" if f != "i8" else "i16"
                if i in (2, 3):
                    src, v, law = small, offset(small), "equilibrium maps to equilibrium"
                elif i in (0, 4):
                    src, v, law = wide, fmin(wide), "MIN maps to MIN / every result is a valid value of the target format"
                elif i in (1, 5):
                    src, v, law = wide, fmax(wide), "MAX maps to MAX when narrowing / every result is a valid value of the target format"
                else:
                    src, v, law = None, None, "the format's validity check accepts a value outside [MIN, MAX]"
                payload = dict(kind="a format constant of the crate is not the one the property's formats have", why=why,
                               format=f, constant=CONST_NAMES[i].replace("T::", f + "::").replace("<T ", f"<{f} "),
                               value_in_crate=g[i], expected=e[i],
                               expected_meaning=("2^(bits-1) for offset-unsigned, 0 for signed" if i in (2, 3) else "-2^(bits-1) or 0" if i == 0 else "2^(bits-1)-1 or 2^bits-1" if i == 1 else "true"),
                               value_read_from_source_by_translator=(table_consts(S, f)[i] if S is not None else "n/a (translator failed)"),
                               profile=pname(mode), law_broken=law)
                if src is not None:
                    rc, outl, _ = F.run_bin(bins[mode], [f"vals {CODE[src]} {CODE[f]} {v}"])
                    ob = F.norm_obs_line(outl[0])[0] if outl else []
                    crate_target = {2: g[2], 3: g[3], 0: g[0], 4: g[0], 1: g[1], 5: g[1]}[i]
                    payload.update(function=fn_name(S, src, f), call=f"<{src} as Sample>::to_sample::<{f}>()", input=v,
                                   got=(ob[1] if ob[:1] == [0] else f"{ob[1]} returned, but {f}::new({ob[1]}) is not Some" if ob[:1] == [6] else f"observation {ob}"),
                                   expected_by_the_crates_own_constant=crate_target, expected_by_specification=spec(src, f, v),
                                   harness_line=f"vals {CODE[src]} {CODE[f]} {v}", case=dict(s=src, d=f, mode=mode, vals=[v]))
                    failing = ob[:1] != [0] or ob[1] != crate_target
                else:
                    failing = True
                payload["consts_format"] = f
                rep.violation(f"const_{f}_{i}_{PROFILES[mode][0]}", payload, no_input=not failing)
                found = found or failing
        if found:
            break
    return found


# ---------------------------------------------------------------------------
# i128 oracle sweeps inside the harness (crate vs specification, no Coq involved)


def oracle_lines(rng, tier, mode, for_search=False):
    """(line, pair, count) triples for profile `mode`"""
    out = []
    quick = tier == "quick"
    for (s, d) in ALL_PAIRS:
        b = BITS[s]
        c = f"{CODE[s]} {CODE[d]}"
        lo = fmin(s)
        total = 1 << b
        if b <= 16:
            out.append((f"sweep {c} {lo} {total} 1", (s, d), total))
            continue
        bv = boundary(s)
        out.append((f"ovals {c} " + " ".join(map(str, bv)), (s, d), len(bv)))
        if b == 24 and (not quick or for_search):
            out.append((f"sweep {c} {lo} {total} 1", (s, d), total))
            continue
        if b == 32 and not quick and mode == 1:
            for q in range(4):
                out.append((f"sweep {c} {lo + q * (total >> 2)} {total >> 2} 1", (s, d), total >> 2))
            continue
        n = (200000 if mode == 1 else 50000 if mode == 0 else 30000) if quick else (1 << 27 if mode == 1 else 1 << 24)
        out.append((f"rand {c} {rng.range(1, (1 << 62))} {n}", (s, d), n))
        # a strided sweep across the whole range (every residue of the step is hit by the random part)
        step = (total // (50000 if quick else 1 << 24)) | 1
        cnt = total // step
        out.append((f"sweep {c} {lo} {cnt} {step}", (s, d), cnt))
    return out


def run_oracle(binpath, triples):
    """-> (evaluations, failures: list of dict(pair,input,tag,got,expected,nfail))"""
    if not triples:
        return 0, [], None
    # interleave so that the contiguous shards of run_bin_parallel are balanced
    order = sorted(range(len(triples)), key=lambda i: (i % F.NCPU, i))
    rc, outl, err = F.run_bin_parallel(binpath, [triples[i][0] for i in order], timeout=3000)
    if rc != 0 or len(outl) != len(order):
        return 0, [], f"rc={rc} lines={len(outl)}/{len(order)} stderr={err[-1500:]}"
    fails, n = [], 0
    for i, o in zip(order, outl):
        t = o.split()
        if t and t[0] == "1":
            n += int(t[1])
        elif t and t[0] == "2":
            n += triples[i][2]
            fails.append(dict(pair=triples[i][1], input=int(t[1]), tag=int(t[2]), got=int(t[3]), expected=int(t[4]),
                              nfail=int(t[5]), line=triples[i][0]))
        else:
            return n, fails, f"unexpected oracle output {o[:200]!r} for {triples[i][0]!r}"
    return n, fails, None


def minimise_failure(binpath, f):
    """smallest-magnitude failing input among the structured values of the pair (a readable witness)"""
    s, d = f["pair"]
    cands = sorted(set(boundary(s)) | {f["input"]}, key=abs)
    best = f
    for part in chunks(cands, 512):
        lines = [f"sweep {CODE[s]} {CODE[d]} {v} 1 1" for v in part]
        rc, outl, _ = F.run_bin_parallel(binpath, lines)
        for v, o in zip(part, outl):
            t = o.split()
            if t and t[0] == "2":
                if abs(v) < abs(best["input"]):
                    best = dict(f, input=v, tag=int(t[2]), got=int(t[3]), expected=int(t[4]))
                return best
    return best


# ---------------------------------------------------------------------------
# validation of the translator's FLOAT emission (gen/ConvFloatGen.v) -- auxiliary: C01 is about the
# integer pairs; a disagreement here is reported as a note and in the evidence, not as a C01 violation

FHEADER = "From Dasp Require Import Sample.ConvRun Sample.ConvFloatRun.\nRequire Import Uint63."


def fbits(fw, sign, e, frac):
    mw, bias = (23, 127) if fw == 32 else (52, 1023)
    return (sign << (fw - 1)) | ((e + bias) << mw) | (frac & ((1 << mw) - 1))


def float_inputs(rng, fw, n):
    mw, ew = (23, 8) if fw == 32 else (52, 11)
    top = (1 << mw) - 1
    out = [0, 1 << (fw - 1), 1, top, fbits(fw, 0, 0, 0), fbits(fw, 1, 0, 0), fbits(fw, 0, -1, top), fbits(fw, 1, -1, top),
           fbits(fw, 0, -1, 0), fbits(fw, 1, -1, 0), fbits(fw, 0, 1, 0), fbits(fw, 1, 0, 1), fbits(fw, 1, 1, 0),
           ((1 << ew) - 1) << mw, (1 << (fw - 1)) | (((1 << ew) - 1) << mw), (((1 << ew) - 1) << mw) | (1 << (mw - 1)),
           fbits(fw, 0, 70, 5), fbits(fw, 1, 70, 5)]
    for k in (1, 2, 7, 8, 9, 15, 16, 17, 23, 24, 25, 31, 32, 33, 47, 48, 49, 52, 53, 62, 63, 64, 65):
        for sg in (0, 1):
            out += [fbits(fw, sg, -k, 0), fbits(fw, sg, -k, 1), fbits(fw, sg, -k, top)]
    for _ in range(n):
        e = -rng.choice([1, 1, 1, 2, 3, 5, 8, 13, 24, 40, 64, 100])
        out.append(fbits(fw, rng.below(2), e, rng.below(1 << mw)))
    return out


def float_items(rng, tier):
    n = 24 if tier == "quick" else 200
    items = []
    for mode in (0, 1):
        for s in FORMATS:
            r = rng.fork(f"f{s}{mode}")
            vals = boundary(s) if BITS[s] > 8 else list(range(fmin(s), fmax(s) + 1, 3))
            vals = [v for i, v in enumerate(vals) if i % (6 if tier == "quick" else 1) == 0] + randoms(r, s, n)
            for fw in (32, 64):
                for part in chunks(vals, 64):
                    items.append(dict(mode=mode, line=f"i2f {CODE[s]} {fw} " + " ".join(map(str, part)),
                                      coq=f"FI2F {mode} {CODE[s]} {fw} [" + "; ".join(zt(v) for v in part) + "]"))
                fin = float_inputs(r, fw, n)
                for part in chunks(fin, 64):
                    items.append(dict(mode=mode, line=f"f2i {fw} {CODE[s]} " + " ".join(map(str, part)),
                                      coq=f"FF2I {mode} {fw} {CODE[s]} [" + "; ".join(zt(v) for v in part) + "]"))
        for fw in (32, 64):
            for part in chunks(float_inputs(rng.fork(f"ff{fw}{mode}"), fw, 4 * n), 64):
                items.append(dict(mode=mode, line=f"f2f {fw} 0 " + " ".join(map(str, part)),
                                  coq=f"FF2F {mode} {fw} [" + "; ".join(zt(v) for v in part) + "]"))
    return items


def float_validation(rep, bins, rng, tier):
    ok, log = F.coq_make("theories/Sample/ConvFloatRun.vo")
    if not ok:
        rep.notes.append("note: float translation (gen/ConvFloatGen.v) does not compile: " + log[-300:].replace("\n", " "))
        return dict(compiled=False)
    items = float_items(rng, tier)
    obs = [None] * len(items)
    for mode in (0, 1):
        idx = [i for i, it in enumerate(items) if it["mode"] == mode]
        rc, outl, err = F.run_bin_parallel(bins[mode], [items[i]["line"] for i in idx])
        if rc != 0 or len(outl) != len(idx):
            rep.notes.append(f"note: float translation validation: harness failed rc={rc}")
            return dict(compiled=True, error="harness")
        for i, o in zip(idx, outl):
            obs[i] = o
    terms = ["(" + it["coq"] + ", [" + "; ".join("[" + "; ".join(zt(x) for x in ob) + "]" for ob in F.norm_obs_line(o)) + "])"
             for it, o in zip(items, obs)]
    bad, errs = F.coq_check_cases("c01_float", FHEADER, "fcheck", terms, per_file=20)
    nvals = sum(len(it["line"].split()) - 3 for it in items)
    for i in bad[:3]:
        rep.notes.append(f"note: float translation disagreement (model gen/ConvFloatGen.v vs crate), not a C01 violation: {items[i]['line'][:200]} -> {obs[i][:200]}")
    for name, msg in errs[:2]:
        rep.notes.append(f"note: float translation validation could not be evaluated ({name}): {msg[-200:]}")
    return dict(compiled=True, cases=len(items), values=nvals, disagreements=len(bad), errors=len(errs))


# ---------------------------------------------------------------------------
# TESTING ONLY: DASP_CONV_RS simulates an edited /repo/dasp_sample/src/conv.rs for translator AND harness


def scratch_harness():
    """a copy of dasp_sample with conv.rs replaced + a one-binary harness crate, under out/ (never touches /repo)"""
    root = F.ensure_dir(os.path.join(F.OUT, "c01_scratch"))
    ds = os.path.join(root, "dasp_sample")
    if os.path.exists(ds):
        shutil.rmtree(ds)
    shutil.copytree(os.path.join(F.REPO, "dasp_sample"), ds)
    if TEST_CONV:
        shutil.copy(TEST_CONV, os.path.join(ds, "src", "conv.rs"))
    if TEST_TYPES:
        shutil.copy(TEST_TYPES, os.path.join(ds, "src", "types.rs"))
    h = os.path.join(root, "harness")
    F.ensure_dir(os.path.join(h, "src", "bin"))
    shutil.copy(os.path.join(F.HARNESS, "src", "lib.rs"), os.path.join(h, "src", "lib.rs"))
    shutil.copy(os.path.join(F.HARNESS, "src", "bin", "c01.rs"), os.path.join(h, "src", "bin", "c01.rs"))
    shutil.copy(os.path.join(F.HARNESS, "src", "direct.rs"), os.path.join(h, "src", "direct.rs"))
    F.write_if_changed(os.path.join(h, "Cargo.toml"),
                       '[package]\nname = "dasp_verif_harness"\nversion = "0.0.0"\nedition = "2018"\npublish = false\n\n[workspace]\n\n'
                       f'[dependencies]\ndasp_sample = {{ path = "{ds}" }}\n\n'
                       '[profile.dev]\nopt-level = 1\ndebug = false\noverflow-checks = true\ndebug-assertions = true\n\n'
                       '[profile.release]\nopt-level = 2\ndebug = false\noverflow-checks = false\ndebug-assertions = false\n\n'
                       '[profile.relchk]\ninherits = "release"\noverflow-checks = true\ndebug-assertions = false\n')
    bins, logs = {}, ""
    for mode in MODES:
        prof = PROFILES[mode][0]
        cmd = ["cargo", "build", "--offline", "--quiet", "--bin", "c01"] + ([] if prof == "dev" else ["--release"] if prof == "release" else ["--profile", prof])
        env = {"RUSTFLAGS": f"--cfg {F.GUARD}", "CARGO_TARGET_DIR": os.path.join(h, "target")}
        rc, out = F.sh(cmd, cwd=h, env=env, timeout=1500)
        p = os.path.join(h, "target", "debug" if prof == "dev" else prof, "c01")
        if rc != 0 or not os.path.exists(p):
            return None, out
        bins[mode] = p
        logs += out
    return bins, logs


def build_bins():
    if TEST_MODE:
        return scratch_harness()
    bins, logs = {}, ""
    for mode in MODES:
        ok, log, path = F.harness_build("c01", profile=PROFILES[mode][0])
        if not ok:
            return None, log
        bins[mode] = path
        logs += log
    return bins, logs


# ---------------------------------------------------------------------------
# proof phase with search for a failing input (DESIGN 5.1)


def broken_theorem(log):
    """every error `make` reported: file, line, enclosing lemma; generated per-pair lemmas first"""
    found = []
    for m in re.finditer(r'File "\./([^"]+)", line (\d+), characters[^\n]*\n((?:(?!File "|make).*\n){0,4})', log):
        path, line = m.group(1), int(m.group(2))
        lemma = None
        mm = re.search(r"\(in proof ([\w']+)\)", m.group(3))
        if mm:
            lemma = mm.group(1)
        else:
            try:
                src = open(os.path.join(F.COQ, path)).read().split("\n")
                for l in range(min(line, len(src)) - 1, -1, -1):
                    mm = re.match(r"\s*(?:Lemma|Theorem|Example|Definition)\s+([\w']+)", src[l])
                    if mm:
                        lemma = mm.group(1)
                        break
            except OSError:
                pass
        found.append(dict(file="coq/" + path, line=line, lemma=lemma, message=" ".join(m.group(3).split())[:300]))
    if not found:
        return dict(file=None, lemma=None, message=log[-1500:], all=[])
    found.sort(key=lambda f: 0 if "/gen/" in f["file"] else 1)
    return dict(found[0], all=found)


def model_search(S, only_pairs=None):
    """DESIGN 5.1(a): the regenerated model against the specification, inside coqc, structured inputs"""
    ok, log = F.coq_make("theories/Sample/ConvRun.vo")
    if not ok:
        return None, "model does not build: " + log[-800:]
    exprs = []
    pairs = only_pairs or ALL_PAIRS
    for (s, d) in pairs:
        vals = boundary(s) if BITS[s] > 8 else list(range(fmin(s), fmax(s) + 1))
        exprs.append(f"(({CODE[s]}, {CODE[d]}), spec_bad 0 {CODE[s]} {CODE[d]} [" + "; ".join(zt(v) for v in vals) + "])")
    rc, out = F.coq_eval("c01_search", HEADER,
                         "filter (fun p => match snd p with [] => false | _ => true end) [" + ";\n".join(exprs) + "]")
    if rc != 0:
        return None, out[-800:]
    found = []
    for m in re.finditer(r"\((\d+), (\d+), \[(.*?)\]\)(?=;|\])", out.replace("\n", " ")):
        s, d = FORMATS[int(m.group(1))], FORMATS[int(m.group(2))]
        rows = [[int(x) for x in re.findall(r"-?\d+", g)] for g in re.findall(r"\[([^\[\]]*)\]", m.group(3))]
        rows = [r for r in rows if len(r) >= 3]
        rows.sort(key=lambda r: abs(r[0]))
        if rows:
            r = rows[0]
            found.append(dict(pair=(s, d), function=fn_name(S, s, d), input=r[0], expected=r[1],
                              model_observation=r[2:], n_failing_structured_inputs=len(rows)))
    return found, None


def search_failing_input(rep, S, bins, rng, tier, why):
    """returns True when a VIOLATION with a concrete input was registered"""
    found_any = False
    details = dict(why)
    # (b) implementation level: the real functions against the i128 oracle, both profiles
    if bins:
        for mode in MODES:
            n, fails, err = run_oracle(bins[mode], oracle_lines(rng.fork(f"search{mode}"), tier, mode, for_search=True))
            details[f"oracle_evaluations_profile{mode}"] = n
            if err:
                details[f"oracle_error_profile{mode}"] = err
            uniq = []
            for f in fails:
                if f["pair"] not in [u["pair"] for u in uniq]:
                    uniq.append(f)
            for f in uniq[:4]:
                f = minimise_failure(bins[mode], f)
                s, d = f["pair"]
                got = {0: f["got"], 7: f"entry points disagree (Sample::to_sample vs Sample::from_sample / the module function conv::<src>::to_<dst>; replay the harness_line for all seven): {f['got']}", 8: f"panic kind {f['got']}",
                       6: f"{f['got']} returned, but {d}::new({f['got']}) is not Some({f['got']}): not a valid value of the target format by the crate's own validity check"}[f["tag"]]
                rep.violation(f"{s}_to_{d}_{PROFILES[mode][0]}", dict(
                    kind=("conversion result is not a valid in-range value of the target format by the crate's own validity check (T::new)" if f["tag"] == 6
                          else "conversion does not produce the exact power-of-two rescaling"), why=why,
                    function=fn_name(S, s, d), call=f"<{s} as Sample>::to_sample::<{d}>()", profile=pname(mode),
                    input=f["input"], got=got, expected=f["expected"], failing_inputs_in_that_sweep=f["nfail"],
                    harness_line=f"vals {CODE[s]} {CODE[d]} {f['input']}", case=dict(s=s, d=d, mode=mode, vals=[f["input"]])))
                found_any = True
            if found_any:
                break
        # (b'') the crate's format constants and validity check
        if not found_any:
            found_any = constants_search(rep, S, bins, why)
    # (b') the same oracle sweep through the crate built WITHOUT its std feature (cfg-gated code paths)
    if not found_any and not TEST_MODE:
        okn, logn, npath = F.nostd_build("c01")
        if okn:
            n, fails, err = run_oracle(npath, oracle_lines(rng.fork("search_nostd"), tier, 0, for_search=True))
            details["oracle_evaluations_no_std_build"] = n
            uniq = []
            for f in fails:
                if f["pair"] not in [u["pair"] for u in uniq]:
                    uniq.append(f)
            for f in uniq[:4]:
                f = minimise_failure(npath, f)
                s, d = f["pair"]
                got = {0: f["got"], 7: f"entry points disagree (Sample::to_sample vs Sample::from_sample / the module function conv::<src>::to_<dst>; replay the harness_line for all seven): {f['got']}", 8: f"panic kind {f['got']}"}[f["tag"]]
                rep.violation(f"{s}_to_{d}_nostd", dict(
                    kind="conversion does not produce the exact power-of-two rescaling when dasp_sample is built without its std feature", why=why,
                    function=fn_name(S, s, d) if S is not None else f"conv::{s}::to_{d}", call=f"<{s} as Sample>::to_sample::<{d}>()",
                    profile="dev profile, default-features = false (harness_nightly_nostd)",
                    input=f["input"], got=got, expected=f["expected"], failing_inputs_in_that_sweep=f["nfail"],
                    harness_line=f"vals {CODE[s]} {CODE[d]} {f['input']}", case=dict(s=s, d=d, mode=0, vals=[f["input"]]),
                    replay=f"echo 'vals {CODE[s]} {CODE[d]} {f['input']}' | harness_nightly_nostd/target/debug/c01"))
                found_any = True
    # (a) model level: regenerated model against the specification in coqc
    if S is not None and not found_any:
        found, err = model_search(S)
        if err:
            details["model_search_error"] = err
        for f in (found or [])[:4]:
            s, d = f["pair"]
            ob = f["model_observation"]
            rep.violation(f"model_{s}_to_{d}", dict(
                kind="the model regenerated from conv.rs does not produce the exact power-of-two rescaling (the implementation-level search found nothing: translator and source disagree, or the harness was built from another tree)",
                why=why, function=f["function"], input=f["input"], got=(ob[1] if ob[:1] == [0] else f"panic kind {ob[1:]}"),
                expected=f["expected"], case=dict(s=s, d=d, mode=0, vals=[f["input"]])))
            found_any = True
    if not found_any:
        rep.violation("proof_broken", dict(kind="proof obligation no longer checks and no failing input was found", **details), no_input=True)
    return found_any


def proof_phase(rep, S, terr, bins, rng, tier):
    t = time.time()
    info = {"coq_ok": False, "theorems": [], "axioms": [], "coq_s": None}
    if terr is not None:
        search_failing_input(rep, None, bins, rng, tier,
                             dict(stage="translator", message="the model cannot be regenerated from the source: " + terr))
        info["coq_s"] = round(time.time() - t, 1)
        return info
    ok, log = F.coq_prop_build(PROP)
    info["coq_ok"] = ok
    if not ok:
        bt = broken_theorem(log)
        search_failing_input(rep, S, bins, rng, tier,
                             dict(stage="proof", broken_theorem=bt.get("lemma"), file=bt.get("file"), line=bt.get("line"),
                                  coq_message=bt.get("message"), target="coq/props/C01.vo",
                                  all_broken=[f"{b['file']}:{b['line']} {b['lemma']}" for b in bt.get("all", [])]))
        info["broken"] = bt
        info["coq_s"] = round(time.time() - t, 1)
        return info
    problems, ainfo = F.coq_audit(PROP, log, frozenset())
    info.update(ainfo)
    info["coq_s"] = round(time.time() - t, 1)
    if problems:
        rep.violation("audit", {"kind": "audit of the Coq development failed", "problems": problems}, no_input=True)
    return info


# ---------------------------------------------------------------------------


def main(rep, tier, seed):
    rng = F.Rng(seed)
    times = {}
    t = time.time()
    try:
        S, changed = T.generate()
        terr = None
    except T.TranslateError as e:
        S, changed, terr = None, [], str(e)
    times["translate_s"] = round(time.time() - t, 2)
    if TEST_MODE:
        rep.notes.append(f"note: DASP_CONV_RS={TEST_CONV} DASP_TYPES_RS={TEST_TYPES} (testing mode: translator and a scratch copy of dasp_sample + harness under out/ use these files instead of /repo's)")
    t = time.time()
    bins, blog = build_bins()
    times["harness_build_s"] = round(time.time() - t, 1)
    if bins is None:
        rep.violation("harness_build", {"kind": "harness does not build against /repo", "log": blog[-4000:]}, no_input=True)
    info = proof_phase(rep, S, terr, bins, rng, tier)
    info["regenerated"] = changed
    if bins is None:
        return finish(rep, info, tier, {}, times)
    stats = dict(items=0, values=0, nontrivial=0, oracle=0, hist={}, samples=[], bad=0)
    # --- correspondence: generated model (coqc) vs crate, both profiles
    t = time.time()
    if terr is None:
        ok, log = F.coq_make("theories/Sample/ConvRun.vo")
        if not ok:
            rep.violation("model_build", {"kind": "generated model does not compile", "log": log[-3000:]}, no_input=True)
        else:
            items = gen_items(rng.fork("items"), tier)
            obs, bad, errors = correspond(bins, items, "c01")
            for name, msg in errors:
                rep.violation("correspondence_error_" + name.replace("/", "_"), {"kind": "correspondence could not be evaluated", "where": name, "log": msg}, no_input=True)
            collect_stats(stats, items, obs, S)
            stats["bad"] = len(bad)
            for idx in bad[:3]:
                it = items[idx]
                rows = pinpoint(bins, it, S)
                rep.violation(f"case{idx}", dict(
                    kind="model/implementation disagreement: the function translated from conv.rs and the crate's Sample::to_sample differ (translator or semantics fault, or a harness built from another tree)",
                    function=fn_name(S, it["s"], it["d"]), profile=pname(it["mode"]),
                    disagreements=rows, **({"consts_format": it["s"]} if it["kind"] == "consts" else {}),
                    case=dict(s=it["s"], d=it["d"], mode=it["mode"], vals=[r["input"] for r in rows if r["input"] != "n/a"] or it.get("vals", [])[:8]),
                    harness_line=it["line"][:400], replay="./check.py C01 --replay <this file>"), no_input=not rows)
            # --- the same dev-profile cases through the crate built WITHOUT its std feature (cfg-gated code paths)
            dev_items = [it for it in items if it["mode"] == 0] if not TEST_MODE else []
            rc0, dev_out, _ = F.run_bin_parallel(bins[0], [it["line"] for it in dev_items]) if dev_items else (0, [], "")
            if dev_items and len(dev_out) == len(dev_items):
                rep.extra["no_std_build"] = F.nostd_phase(rep, "c01", dev_items, dev_out)
    times["correspondence_s"] = round(time.time() - t, 1)
    # --- crate vs i128 oracle of the specification (large sweeps); skipped when the search already ran it
    t = time.time()
    if info.get("coq_ok") and terr is None:
        for mode in MODES:
            triples = oracle_lines(rng.fork(f"oracle{mode}"), tier, mode)
            n, fails, err = run_oracle(bins[mode], triples)
            stats["oracle"] += n
            stats["hist"][f"oracle_profile{mode}"] = n
            if err:
                rep.violation(f"oracle_error_{mode}", {"kind": "oracle sweep could not be evaluated", "log": err}, no_input=True)
            for f in fails[:3]:
                f = minimise_failure(bins[mode], f)
                s, d = f["pair"]
                rep.violation(f"oracle_{s}_to_{d}_{mode}", dict(
                    kind="conversion does not produce the exact power-of-two rescaling (crate vs i128 oracle; the Coq proof is about the translated model: translator fault or harness built from another tree)",
                    function=fn_name(S, s, d), profile=pname(mode), input=f["input"], tag=f["tag"], got=f["got"],
                    expected=f["expected"], case=dict(s=s, d=d, mode=mode, vals=[f["input"]])))
        okn, logn, npath = F.nostd_build("c01") if not TEST_MODE else (False, "", None)
        if okn:
            triples = oracle_lines(rng.fork("oracle_nostd"), tier, 0)
            n, fails, err = run_oracle(npath, triples)
            stats["oracle"] += n
            stats["hist"]["oracle_no_std_build"] = n
            for f in fails[:3]:
                f = minimise_failure(npath, f)
                s, d = f["pair"]
                rep.violation(f"oracle_{s}_to_{d}_nostd", dict(
                    kind="conversion does not produce the exact power-of-two rescaling in the build WITHOUT the std feature (crate vs i128 oracle)",
                    function=fn_name(S, s, d), profile="dev profile, dasp_sample built with default-features = false", input=f["input"], tag=f["tag"],
                    got=f["got"], expected=f["expected"], case=dict(s=s, d=d, mode=0, vals=[f["input"]])))
    times["oracle_s"] = round(time.time() - t, 1)
    t = time.time()
    if terr is None:
        stats["float"] = float_validation(rep, bins, rng.fork("float"), tier)
    times["float_s"] = round(time.time() - t, 1)
    return finish(rep, info, tier, stats, times)


def collect_stats(stats, items, obs, S=None):
    seen_nt = set()
    hist = stats["hist"]
    # which arm of every `if` of the conversions! bodies the values fed to THAT function take (llvm coverage has no
    # regions there, see lib/conv_arms.py)
    if S is not None:
        fed = {}
        for it, o in zip(items, obs):
            if o is not None and it["kind"] not in ("consts", "range") and it["s"] != it["d"]:
                fed.setdefault(S.dispatch[(it["s"], it["d"])], set()).update(it["vals"])
        stats["arms"] = conv_arms.arm_coverage(S, fed)
    for it, o in zip(items, obs):
        if o is None:
            continue
        stats["items"] += 1
        s, d = it["s"], it["d"]
        n = it["n"] if it["kind"] == "range" else 1 if it["kind"] == "consts" else len(it["vals"])
        stats["values"] += n
        for key in (f"kind:{it['kind']}", f"profile:{PROFILES[it['mode']][0]}",
                    f"src_bits:{BITS[s]}", "dir:" + ("narrow" if BITS[d] < BITS[s] else "widen" if BITS[d] > BITS[s] else "same-format (blanket identity impl)" if s == d else "same-width"),
                    "sign:" + ("s" if SIGNED[s] else "u") + ">" + ("s" if SIGNED[d] else "u")):
            hist[key] = hist.get(key, 0) + n
        if it["kind"] != "range":
            hist["panic_observations"] = hist.get("panic_observations", 0) + sum(1 for x in o.split(";") if x.startswith("8 "))
        if BITS[d] < BITS[s]:
            k = BITS[s] - BITS[d]
            vals = it["vals"] if it["kind"] != "range" else range(it["lo"], it["lo"] + it["n"])
            for v in vals:
                a = v - offset(s)
                if a < 0 and a & ((1 << k) - 1) and fmin(s) <= v <= fmax(s):
                    seen_nt.add((s, d, v))
    stats["nontrivial"] += len(seen_nt)
    pick = [i for i in (0, len(items) // 2, len(items) - 1) if 0 <= i < len(items)]
    stats["samples"] = [f"[{PROFILES[items[i]['mode']][0]}] {items[i]['line'][:160]} -> {str(obs[i])[:160]}" for i in pick]


def finish(rep, info, tier, stats, times):
    th = info.get("theorems", [])
    n_expected = 20
    cov = {
        "obligations": max(n_expected, len(th)), "discharged": len(th) if info.get("coq_ok") else 0,
        "checker_cmd": "translate/conv2coq.py; make -f Makefile.coq props/C01.vo (coqc 8.16.1, full .vo; 132 generated per-pair lemmas in gen/ConvProofs_*.v) + Print Assumptions audit",
        "trusted_base": F.TRUSTED_COMMON + [
            "axioms: none (every theorem of props/C01.v is closed under the global context)",
            "translate/conv2coq.py (Rust expression -> Gallina; typed, evaluation order, precedence) -- validated by the model-vs-crate correspondence in both profiles",
            "coq/theories/Sample/Rint.v as the meaning of + - * / as << >> on i8..u64 in debug and release builds",
            "pinned token hashes of the macro definitions and trait glue of conv.rs; new_unchecked/inner identities checked textually in types.rs"],
        "theorems": th, "axioms_reported": info.get("axioms", []),
        "generated_pair_lemmas": 132, "regenerated_files": info.get("regenerated", []),
        "evaluations": stats.get("values", 0) + stats.get("oracle", 0),
        "model_vs_crate_evaluations": stats.get("values", 0), "crate_vs_i128_oracle_evaluations": stats.get("oracle", 0),
        "distinct_nontrivial": stats.get("nontrivial", 0),
        "rule": "entry points: every value goes through Sample::to_sample, Sample::from_sample, ToSample::to_sample_, FromSample::from_sample_, both of those again with only a `Duplex<_>` bound in scope, and the module function conv::<src>::to_<dst> (harness/src/direct.rs); the observation is `0 r` only if all seven agree (the sweeps against the i128 oracle use to_sample, from_sample and the module function). model-vs-crate: all 132 Sample::to_sample pairs + the 12 same-format conversions (blanket identity impl; model: Ok z, c01_same_format) x {debug, release, relchk = optimised with overflow checks on and debug assertions off (8-bit exhaustive, boundary and out-of-range sets; thorough: + a third of the random set; compared with the Checked model)}; every value of 8-bit sources, boundary-structured values (MIN, MIN+1, +-2^k+-1 on value and amplitude, -1, 0, 1, MAX-1, MAX, every k) plus random values of wider sources (700 per pair quick / 6000 thorough; thorough: every value of 16-bit sources by digest), out-of-range representation values of I24/U24/I48/U48; every result of a 24/48-bit target must satisfy T::new(r) == Some(r) (the crate's own validity check, observed as a flag); the crate's MIN/MAX/EQUILIBRIUM constants and T::new at the range ends against the generated format table; crate-vs-oracle: exhaustive <=16-bit (quick), <=24-bit and 32-bit in release (thorough), random + strided sweeps otherwise. non-trivial = distinct (pair, value) in the model-vs-crate set with a narrowing conversion of a negative amplitude that is not a multiple of the step (floor and truncation differ)",
        "samples": stats.get("samples", []),
        "input_distribution": dict(stats.get("hist", {}),
                                   conv_rs_if_arms=dict(stats.get("arms", {}), how="counted from the parsed source (lib/conv_arms.py): for every `if` of a conversions! body, how many of the values this run fed to that very function took each arm; llvm coverage has no regions inside the macro `$body` expressions"),
                                   source_regions_never_entered=cov_evidence.regions(PROP, "The bodies of the conversions! functions carry no llvm regions (rustc drops macro-argument spans): their branches are counted in conv_rs_if_arms on every run.")),
        "disagreements": stats.get("bad", 0),
        "timing": dict(times, coq_s=info.get("coq_s")),
        "float_translation_validation": stats.get("float", {}),
        "explanation": "theorems: what Sample::to_sample dispatches to (translated from conv.rs on this run) equals the rescaling formula for all 132 pairs and every in-range input, no overflow panic in debug, same value in release; consequences from the formula for all formats; tie: generated model run by coqc against the crate through the public trait dispatch in both profiles, plus the crate against an independent i128 oracle",
    }
    if info.get("broken"):
        cov["broken_theorem"] = info["broken"]
    return rep.finish("proof", cov, [
        "Rust integer operators mean what Sample/Rint.v says (debug: overflow panics; release: wraps; `as`/`<<` wrap; `>>` floors)",
        "the translator is faithful (validated by correspondence, not proved)",
        "the statement's 'each extreme to the matching extreme' holds for MIN always and for MAX only when not widening (proved: c01_max, c01_max_widening, c01_max_to_max_refuted)"])


def replay(path):
    j = json.load(open(path))
    c = j.get("case")
    if not c:
        print("replay file names no concrete input:", json.dumps(j, indent=1)[:3000])
        return 1
    bins, blog = build_bins()
    if bins is None:
        print("harness does not build:", blog[-2000:])
        return 1
    s, d, mode, vals = c["s"], c["d"], c["mode"], c["vals"]
    line = f"vals {CODE[s]} {CODE[d]} " + " ".join(map(str, vals))
    rc, out, _ = F.run_bin(bins[mode], [line])
    impl = F.norm_obs_line(out[0]) if out else []
    try:
        T.generate()
    except T.TranslateError as e:
        print("translator:", e)
    F.coq_make("theories/Sample/ConvRun.vo")
    _, mo = F.coq_eval("c01_replay", HEADER, f"run_case (CVals {mcode(mode)} {CODE[s]} {CODE[d]} [" + "; ".join(zt(v) for v in vals) + "])")
    model = parse_zll(mo)
    bad = 0
    print(f"{s} -> {d}, {pname(mode)} build, function {j.get('function')}")
    for i, v in enumerate(vals):
        ok_range = fmin(s) <= v <= fmax(s)
        e = spec(s, d, v) if ok_range else None
        a = impl[i] if i < len(impl) else None
        b = model[i] if model and i < len(model) else None
        verdict = "ok" if (a == b and (e is None or a == [0, e])) else "FAIL"
        bad += verdict != "ok"
        print(f"  input {v}: implementation {a}  model {b}  specification {e if ok_range else 'n/a (out of range)'}  {verdict}")
    cf = j.get("consts_format")
    if cf:
        got = crate_consts(bins[mode]).get(cf, [])
        want = spec_consts(cf)
        for name, g, e in zip(CONST_NAMES, got, want):
            verdict = "ok" if g == e else "FAIL"
            bad += verdict != "ok"
            print(f"  constant {cf} {name}: crate {g}  property's format {e}  {verdict}")
        if j.get("input") is not None and got and impl:
            tgt = j.get("expected_by_the_crates_own_constant")
            print(f"  law '{j.get('law_broken')}': conversion of {j['input']} gives {impl[0]}, the crate's own constant is {tgt}")
    print("AGREE" if not bad else "DISAGREE")
    return 1 if bad else 0
