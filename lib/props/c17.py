"""C17 — oscillators and noise sources keep phase and amplitude in range at any rate.
Proof: coq/props/C17.v (phase formula / waveform formulas / one control frame per output on exact
reals; phase, saw, square, sine, noise, simplex ranges and noise purity on IEEE binary64; simplex bound on reals too).
Tie: correspondence between the binary64 instance of the model (Signal/OscRun.v, evaluated by coqc)
and dasp_signal's Phase/Sine/Saw/Square/NoiseSimplex/Noise on the same rates, frequency sequences and seeds."""
import json, os, math, struct, subprocess, sys
import framework as F
import floatbase

PROP = "C17"
META = dict(
    technique="Coq proof over one model with two arithmetics (exact reals + Flocq IEEE binary64; Interval for the simplex bound, on reals and on the rounded evaluation) + coqc-evaluated binary64 model vs crate correspondence",
    text="Machine-checked (Coq 8.16.1, Flocq 4.1, Interval) theorems about a model of Phase/ConstHz/Hz/Sine/Saw/Square/Noise/NoiseSimplex written after dasp_signal/src/lib.rs over an abstract numeric record: on exact reals the n-th phase is frac(sum hz_k/rate), saw = 1-2*phase, square = +1 on [0,1/2) and -1 on [1/2,1), sine = sin(2*pi*phase), |simplex| <= 1, and a variable-frequency oscillator pulls exactly one control frame per output; on IEEE binary64 (x % w proved exact) every phase of every finite non-negative step sequence of any length lies in [0,1), saw/sine in [-1,1], square in {-1,+1}, noise in (-1,1] and equal to noise_1((seed+n) mod 2^64), and the simplex noise AS THE CODE EVALUATES IT (every + - * rounded to nearest even, floor and the integer casts exact, PERM lookup and gradient selection on integers) is finite and in [-1,1] for every finite argument in [-2^63, 2^63) (where `floor(x) as i64` does not saturate), hence on every frame of every run (phase < 65536). The binary64 instance is executed inside coqc and compared with the real crate: phases, saw, square, simplex, noise, pull counters bit-for-bit; sine within 4 ulp of libm's value at the model's argument. Control signals of the variable-frequency oscillator include the crate's own gen/gen_mut/from_iter sources and add_amp/mul_amp/zip_map/scale_amp/offset_amp composites run past the end of their finite part, with call counters on both parts (exactly one control frame per output frame). The same cases are diffed against the release profile and the no_std-configured build. Known class K1 (hz/rate overflows to +inf) is routed through KNOWN_FINDINGS.json.",
    note="Trusted: Coq kernel + the 4 standard real-number/classical axioms (and the primitive-integer axioms used by Interval for the two simplex bounds); Base/Float.v validated against rustc (floatbase); libm sin enters as a Section variable with |sin x| <= 1 on finite x as hypothesis; the simplex bound is proved for exact arithmetic and for the binary64 evaluation of the model (Interval 4.6.1 evaluating Flocq's round operator; margin 1e-4), the binary64 model is compared bit-for-bit with the crate on the sampled phases and the crate is range-sampled on long runs.",
    design="6/C17")
HEADER = "From Dasp Require Import Signal.OscRun."
CHECK = "check"
NAN = 0x7ff8000000000000
K1_CLASS = "KnownClass_K1"
TWO_PI = math.pi * 2.0


def bits(x):
    return struct.unpack(">Q", struct.pack(">d", x))[0]


def fl(b):
    return struct.unpack(">d", struct.pack(">Q", b))[0]


def fmod1(x):
    try:
        return math.fmod(x, 1.0)
    except ValueError:
        return float("nan")


def fsin(x):
    try:
        return math.sin(x)
    except ValueError:
        return float("nan")


def cbits(x):
    return NAN if x != x else bits(x)


def ctl_frames(it):
    """frames of a composite control signal (kind H), python floats; classification only"""
    a = [fl(x) for x in it["a"]]
    b = [fl(x) for x in it["b"]]
    t = fl(it["topv"])
    out = []
    for k in range(it["n"]):
        x = a[k] if k < len(a) else 0.0
        y = b[k] if k < len(b) else 0.0
        u, v = (y, x) if it["order"] else (x, y)
        c = {0: y, 4: x, 1: u + v, 2: u * v}.get(it["op"], u * 0.5 + v)
        out.append(c * t if it["top"] == 1 else (c + t if it["top"] == 2 else c))
    return out


def replica(it):
    """python-float replica of the phase recurrence: (phases, steps, wraps). Used for the libm oracle
    table handed to the model, for classification (K1 / non-trivial) — never as the oracle of the check."""
    rate = fl(it["rate"])
    if it["kind"] == "H":
        hz = ctl_frames(it)
        mode = 1
    else:
        hz = [fl(h) for h in it["hz"]]
        mode = it["mode"]
    nxt, phases, steps, wraps = 0.0, [], [], 0
    for k in range(it["n"]):
        phases.append(nxt)
        h = hz[0] if mode == 0 else (hz[k] if k < len(hz) else 0.0)
        st = h / rate
        steps.append(st)
        s = nxt + st
        if s >= 1.0:
            wraps += 1
        nxt = fmod1(s)
    return phases, steps, wraps


def build(item):
    it = dict(item)
    if it["kind"] == "O":
        phases, steps, wraps = replica(it)
        tab, seen = [], set()
        for p in phases:
            a = TWO_PI * p
            ab = cbits(a)
            if ab not in seen:
                seen.add(ab)
                tab.append((ab, cbits(fsin(a))))
        it["k1"] = any(math.isinf(s) or s != s for s in steps)
        it["wraps"] = wraps
        it["line"] = f"O {it['rate']} {it['mode']} {it['n']} " + " ".join(str(h) for h in it["hz"])
        tabs = "[" + "; ".join(f"({a}%Z, {b}%Z)" for a, b in tab) + "]"
        it["coq"] = f"COsc {it['rate']}%Z {it['mode']}%Z {F.zlist(it['hz'])} {it['n']}%Z {tabs}"
    elif it["kind"] == "H":
        it["a"] = it["a"][:it["n"]]
        phases, steps, wraps = replica(it)
        it["k1"] = any(math.isinf(s) or s != s for s in steps)
        it["wraps"] = wraps
        it["line"] = (f"H {it['rate']} {it['n']} {it['op']} {it['order']} {it['genkind']} {it['top']} {it['topv']} {len(it['b'])} "
                      + " ".join(str(h) for h in it["a"] + it["b"]))
        it["coq"] = (f"CHz {it['rate']}%Z {it['n']}%Z {it['op']}%Z {it['order']}%Z {it['top']}%Z {it['topv']}%Z "
                     f"{F.zlist(it['a'])} {F.zlist(it['b'])}")
    else:
        it["line"] = f"N {it['seed']} {it['n']} {it['c']}"
        it["coq"] = f"CNoise {it['seed']}%Z {it['n']}%Z {it['c']}%Z"
    return it


def rand_rate(r):
    e = r.range(-20, 40)
    return (1.0 + r.below(1 << 52) / float(1 << 52)) * 2.0 ** e


def gen_cases(rng, tier):
    items = []
    nruns = 270 if tier == "quick" else 1200
    frames = lambda r: r.choice([20, 50, 80, 100, 100, 120]) if tier == "quick" else r.choice([50, 100, 100, 150, 200])
    fixed_rates = [1e-3, 1.0, 44100.0, 1e9]
    for k in range(nruns):
        r = rng.fork(f"osc{k}")
        rate_cls = r.below(6)
        rate = fixed_rates[rate_cls] if rate_cls < 4 else rand_rate(r)
        n = frames(r)
        pat = r.choice(["zero", "quarter", "third", "above", "far_above", "tiny", "subnormal", "huge", "equal", "audio",
                        "simplex_wrap", "var_random", "var_random", "var_random", "var_zeros", "var_chirp", "var_spikes", "var_tiny"])
        u = lambda: r.below(1 << 53) / float(1 << 53)
        mode = 0
        if pat == "zero":
            hz = [0.0]
        elif pat == "quarter":
            hz = [rate / 4]
        elif pat == "third":
            hz = [rate / 3]
        elif pat == "above":
            hz = [rate * (1.0 + 3 * u())]
        elif pat == "far_above":
            hz = [rate * (1000.0 * u() + 7.37)]
        elif pat == "tiny":
            hz = [rate * 2.0 ** -r.range(30, 70) * (1 + u())]
        elif pat == "subnormal":
            hz = [5e-324 * r.range(1, 1000)]
        elif pat == "huge":
            hz = [rate * 2.0 ** r.range(60, 900) * (1 + u())]
            if math.isinf(hz[0]):
                hz = [1.7e308]
        elif pat == "equal":
            hz = [rate]
        elif pat == "audio":
            hz = [r.choice([27.5, 440.0, 1000.0, 15000.0, 22050.0])]
        elif pat == "simplex_wrap":
            hz = [rate * (3000.0 + 30000.0 * u())]
        else:
            mode = 1
            if pat == "var_random":
                hz = [rate * 2.0 * u() for _ in range(n)]
            elif pat == "var_zeros":
                hz = [0.0 if r.chance(1, 2) else rate * u() for _ in range(n)]
            elif pat == "var_chirp":
                f0, d = rate * u() * 0.1, rate * u() * 0.05
                hz = [f0 + d * i for i in range(n)]
            elif pat == "var_spikes":
                hz = [rate * (r.choice([1e3, 1e6, 65536.0, 1e15]) * u()) if r.chance(1, 6) else rate * 0.01 * u() for _ in range(n)]
            else:
                hz = [rate * 2.0 ** -r.range(20, 1000) * u() for _ in range(n)]
        items.append(build(dict(kind="O", rate=bits(rate), mode=mode, n=n, hz=[bits(h) for h in hz], pat=pat, rate_cls=rate_cls)))
    # known class K1: hz / rate overflows to +inf
    k1 = [(1e-300, [1e300], 0), (1e-3, [1.7e308], 0), (2.0 ** -30, [1.5e308], 0), (1e-300, [1.0, 1e300, 1.0, 2.0], 1),
          (0.5, [1.0, 0.1, 1.7e308, 0.2, 0.3], 1)]
    for rate, hz, mode in k1:
        n = 4 if mode == 0 else len(hz)
        items.append(build(dict(kind="O", rate=bits(rate), mode=mode, n=n, hz=[bits(h) for h in hz], pat="K1", rate_cls=6)))
    # control signals built from dasp_signal's own sources/adaptors: finite from_iter pulled past its end,
    # gen / gen_mut, and composites gen (+|*|zip) from_iter in both operand orders, optionally scaled/offset
    ncomp = 72 if tier == "quick" else 400
    for k in range(ncomp):
        r = rng.fork(f"ctl{k}")
        rate_cls = r.below(6)
        rate = fixed_rates[rate_cls] if rate_cls < 4 else rand_rate(r)
        n = r.choice([12, 24, 40, 60]) if tier == "quick" else r.choice([24, 60, 100])
        u = lambda: r.below(1 << 53) / float(1 << 53)
        op = [0, 4, 1, 2, 3, 1, 2, 3, 1][k % 9] if k < 36 else r.choice([0, 4, 1, 1, 2, 2, 3, 3])
        order = (k // 9) % 2 if k < 36 else r.below(2)
        genkind = (k // 18) % 2 if k < 36 else r.below(2)
        top = r.choice([0, 0, 1, 2])
        topv = r.choice([0.5, 2.0, 1.0 + u(), 0.25 * u()]) if top == 1 else (rate * 0.1 * u() if top == 2 else 0.0)
        # length of the finite part: empty, one frame, ends mid-run (the interesting case), exactly n, (op 4: unused)
        m = 0 if op == 4 else r.choice([0, 1, 2, n // 3, n // 2, n // 2, n - 1, n])
        scale = rate * r.choice([0.05, 0.3, 0.3, 1.7])
        a = [scale * u() for _ in range(n)]
        if op == 2:   # product: keep the finite factor O(1)
            b = [0.5 + u() for _ in range(m)]
        else:
            b = [scale * u() for _ in range(m)]
        if r.chance(1, 6) and m:
            b[r.below(m)] = 0.0
        items.append(build(dict(kind="H", rate=bits(rate), n=n, op=op, order=order, genkind=genkind, top=top, topv=bits(topv),
                                a=[bits(x) for x in a], b=[bits(x) for x in b], pat="ctl_" + ["from_iter", "add_amp", "mul_amp", "zip_map", "gen"][op]
                                + ("" if top == 0 else ("+scale_amp" if top == 1 else "+offset_amp")), rate_cls=rate_cls)))
    n_osc = len(items)
    # noise
    seeds = [0, 1, 2 ** 32, 2 ** 63, 2 ** 64 - 3, 2 ** 64 - 2, 2 ** 64 - 1]
    nnoise = 100 if tier == "quick" else 600
    for k in range(nnoise):
        r = rng.fork(f"noise{k}")
        if k < len(seeds):
            seed = seeds[k]
        elif r.chance(1, 4):
            seed = 2 ** 64 - 1 - r.below(100)
        elif r.chance(1, 4):
            seed = r.below(1 << r.range(1, 64))
        else:
            seed = r.next()
        n = r.range(20, 100) if tier == "quick" else r.range(50, 300)
        c = r.range(0, n)
        items.append(build(dict(kind="N", seed=seed, n=n, c=c)))
    return items, n_osc


def nontrivial(it):
    """the run exercises a state-dependent branch: the phase wraps at least once, or some hz > rate
    (step >= 1, multi-cycle wrap), or seed + n crosses 2^64 (wrapping seed increment)."""
    if it["kind"] == "N":
        return it["seed"] + it["n"] > 2 ** 64
    if it["kind"] == "H":   # run past the end of the finite part (exhaustion of one operand), or a phase wrap
        return (it["op"] != 4 and len(it["b"]) < it["n"]) or it["wraps"] > 0
    rate = fl(it["rate"])
    return it["wraps"] > 0 or any(fl(h) > rate for h in it["hz"][:it["n"]])


def verdict(it, obs_line):
    """property verdict on the implementation's own observations. Returns list of failure strings."""
    fails = []
    try:
        obs = F.parse_obs_line(obs_line)
    except ValueError:
        return ["unparsable observation"]
    if any(o and o[0] == 9 for o in obs):
        return ["panic observed: " + obs_line[:80]]
    if it["kind"] == "N":
        for o in obs:
            for b in o[1:]:
                v = fl(b)
                if not (-1.0 <= v <= 1.0):
                    fails.append(f"noise output {v!r} outside [-1,1]")
        if len(obs) == 3 and (obs[0][1 + it["c"]:] != obs[1][1:] or obs[0][1:1 + it["c"]] != obs[2][1:]):
            fails.append("clone/restart does not reproduce the noise sequence")
        return fails
    names = {1: "phase", 2: "saw", 3: "square", 4: "sine", 5: "simplex"}
    for o in obs:
        if not o or o[0] not in names:
            continue
        for k, b in enumerate(o[1:]):
            v = fl(b)
            if o[0] == 1:
                good = 0.0 <= v < 1.0
            elif o[0] == 3:
                good = v in (1.0, -1.0)
            else:
                good = -1.0 <= v <= 1.0
            if not good:
                fails.append(f"{names[o[0]]} frame {k} = {v!r} out of range")
                break
    if it["kind"] == "H":
        n, m = it["n"], len(it["b"])
        exp_g = [0] * n if it["op"] == 0 else list(range(1, n + 1))
        exp_i = [0] * n if it["op"] == 4 else [1 + min(k, m) for k in range(1, n + 1)]
        for tag, exp, what in ((6, exp_g, "gen closure"), (8, exp_i, "from_iter iterator")):
            tr = [o for o in obs if o and o[0] == tag]
            if tr and tr[0][1:] != exp:
                fails.append(f"{what} is not pulled exactly once per output frame (call counter trace {tr[0][1:][:12]}..., expected {exp[:12]}...)")
        for tag, exp in ((7, exp_g[-1]), (10, exp_i[-1])):
            fin = [o for o in obs if o and o[0] == tag]
            if fin and any(c != exp for c in fin[0][1:]):
                fails.append(f"final call counters {fin[0][1:]} differ from {exp}")
        return fails
    if it["mode"] == 1:
        tr = [o for o in obs if o and o[0] == 6]
        if tr and tr[0][1:] != list(range(1, it["n"] + 1)):
            fails.append("pull counter is not one control frame per output frame")
        fin = [o for o in obs if o and o[0] == 7]
        if fin and any(c != it["n"] for c in fin[0][1:]):
            fails.append("final pull counters differ from the number of output frames")
    return fails


def range_sampling(binpath, rng, tier):
    """long const_hz runs, summary only: every frame range-checked by the harness (no model)."""
    n = 500000 if tier == "quick" else 5000000
    cfgs = [(44100.0, 440.0), (44100.0, 0.001), (1.0, 2.0 ** -40), (1e9, 1.0), (48000.0, 12345.678), (1e-3, 7.0),
            (44100.0, 44100.0 * 777.77), (96000.0, 19999.99)]
    for k in range(12 if tier == "quick" else 24):
        r = rng.fork(f"range{k}")
        rate = rand_rate(r)
        cfgs.append((rate, rate * r.choice([1e-6, 1e-3, 0.1, 0.49, 1.5, 123.456, 40000.1]) * (r.below(1 << 30) / float(1 << 30))))
    lines = [f"R {bits(a)} {bits(h)} {n}" for a, h in cfgs]
    rc, outl, err = F.run_bin_parallel(binpath, lines, shards=8)
    bad = []
    if rc != 0 or len(outl) != len(lines):
        return 0, [("range harness failed", err[-500:])]
    for l, o in zip(lines, outl):
        for part in o.split(";"):
            t = [int(x) for x in part.split()]
            if t[0] == 9 or t[3] != 0 or t[4] != 0:
                bad.append((l, o))
                break
    return len(lines) * n, bad


def shrink(binpath, it):
    """smallest frame count that still disagrees (a disagreement at frame k persists for every n > k)."""
    def fails(c):
        o, b, e = F.correspond(binpath, [c], HEADER, CHECK, "c17_shrink")
        return bool(b) and not e
    lo, hi = 1, it["n"]
    while lo < hi:
        mid = (lo + hi) // 2
        c = dict(it, n=mid)
        if it["kind"] == "N":
            c["c"] = min(it["c"], mid)
        if fails(build(c)):
            hi = mid
        else:
            lo = mid + 1
    c = dict(it, n=lo)
    if it["kind"] == "N":
        c["c"] = min(it["c"], lo)
    return build(c)


CASE_KEYS = ("kind", "rate", "mode", "n", "hz", "seed", "c", "pat", "rate_cls", "op", "order", "genkind", "top", "topv", "a", "b")


def regenerate():
    sys.path.insert(0, os.path.join(F.VERIF, "translate"))
    import simplex_table
    txt = simplex_table.generate(F.REPO)
    F.write_if_changed(os.path.join(F.COQ, "gen", "SimplexTable.v"), txt)


def proof_phase(rep):
    """F.standard_proof_phase, repeated (at most 3 times) only when coqc was killed by the OS (exit 137, memory
    pressure from other jobs) — a proof that fails to check for any other reason is reported at once."""
    import time as _t
    for attempt in range(3):
        tmp = F.Report(PROP, rep.tier, rep.seed)
        info = F.standard_proof_phase(tmp, PROP, allowed_axioms=F.AX_REALS)
        killed = False
        if not info.get("coq_ok"):
            try:
                j = json.load(open(os.path.join(tmp.replay_dir, f"{PROP}_proof_broken.json")))
                killed = "Error 137" in j.get("log_tail", "") or "Killed" in j.get("log_tail", "")
            except Exception:
                killed = False
        if not killed or attempt == 2:
            rep.violations += tmp.violations
            return info
        _t.sleep(15)


def load_corpus():
    d = os.path.join(F.VERIF, "corpus", PROP)
    items = []
    if os.path.isdir(d):
        for fn in sorted(os.listdir(d)):
            if fn.endswith(".json"):
                items.append(build(json.load(open(os.path.join(d, fn)))))
    return items


def main(rep, tier, seed):
    rng = F.Rng(seed)
    try:
        regenerate()
    except SystemExit as e:
        rep.violation("translator", {"kind": "model cannot be regenerated from the source", "error": str(e)}, no_input=True)
    info = proof_phase(rep)
    ok, blog, binpath = F.harness_build("c17")
    if not ok:
        rep.violation("harness_build", {"kind": "harness does not build against /repo", "log": blog[-4000:]}, no_input=True)
        return finish(rep, info, 0, 0, {}, [], extra={})
    # float base sub-check
    fb_n, fb_bad, fb_err = floatbase.run(rng.fork("floatbase"), 600 if tier == "quick" else 3000)
    if fb_err:  # one retry: a coqc shard can die under memory pressure without a verdict
        fb_n, fb_bad, fb_err = floatbase.run(rng.fork("floatbase"), 600 if tier == "quick" else 3000)
    for name, msg in fb_err:
        rep.violation("floatbase_error", {"kind": "float base validation could not be evaluated", "where": name, "log": msg}, no_input=True)
    for c, o in fb_bad[:3]:
        rep.violation(f"floatbase_{c[0]}_{c[1]}", {"kind": "Base/Float.v disagrees with rustc", "case": c, "rustc": o}, no_input=True)
    corpus = load_corpus()
    items, n_osc = gen_cases(rng, tier)
    items = corpus + items
    outl, bad, errors = F.correspond(binpath, items, HEADER, CHECK, "c17")
    rep.extra["no_std_build"] = F.nostd_phase(rep, "c17", items, outl) if not errors and len(outl) == len(items) else {}
    rep.extra["build_profiles"] = F.profile_phase(rep, "c17", items, outl, profiles=("release",)) if not errors and len(outl) == len(items) else {}
    for name, msg in errors:
        rep.violation("correspondence_error_" + name.replace("/", "_"),
                      {"kind": "correspondence could not be evaluated", "where": name, "log": msg}, no_input=True)
    known = {e.get("class") for e in F.known_findings(PROP) if e.get("kind") == "known"}
    k1_seen, verdict_fail = 0, []
    if not errors:
        for idx, (it, o) in enumerate(zip(items, outl)):
            fails = verdict(it, o)
            if not fails:
                continue
            if it["kind"] in ("O", "H") and it.get("k1"):
                k1_seen += 1
                if K1_CLASS in known:
                    continue
            verdict_fail.append((idx, fails))
    if k1_seen and K1_CLASS in known:
        rep.known_finding(f"K1 class={K1_CLASS}: hz/rate overflows to +inf in f64 (finite non-negative hz, positive rate), "
                          f"the phase becomes NaN and every oscillator output leaves [-1,1] ({k1_seen} generated inputs, "
                          "e.g. rate(1e-300).const_hz(1e300).phase(): second frame NaN)")
    for idx, fails in verdict_fail[:3]:
        it = items[idx]
        rep.violation(f"verdict{idx}", {
            "kind": "the implementation's own observations violate the property", "failures": fails[:5],
            "case": {k: it[k] for k in CASE_KEYS if k in it}, "harness_line": it["line"], "implementation_observations": outl[idx][:3000],
            "in_known_class_K1_but_not_listed": bool(it.get("k1")), "replay": "./check.py C17 --replay <this file>"})
    for idx in bad[:3]:
        small = shrink(binpath, items[idx])
        rc, out, _ = F.run_bin(binpath, [small["line"]])
        _, model = F.coq_eval("c17", HEADER, f"run_case ({small['coq']})")
        rep.violation(f"case{idx}", {
            "kind": "model/implementation disagreement: dasp_signal's oscillator/noise output differs from the proved binary64 model",
            "case": {k: small[k] for k in CASE_KEYS if k in small}, "harness_line": small["line"],
            "implementation_observations": out, "model_observations": model[-3000:], "original_case_index": idx,
            "replay": "./check.py C17 --replay <this file>"})
    n_range, range_bad = range_sampling(binpath, rng.fork("range"), tier)
    for l, o in range_bad[:3]:
        rep.violation("range_sample", {"kind": "long-run range sampling found an out-of-range or NaN frame", "harness_line": l,
                                       "summary": o}, no_input=False)
    hist = {"pattern": {}, "rate_class": {}, "frames": {}, "noise_seed_class": {}}
    rate_names = ["1e-3", "1", "44100", "1e9", "random", "random", "K1"]
    for it in items:
        if it["kind"] in ("O", "H"):
            hist["pattern"][it["pat"]] = hist["pattern"].get(it["pat"], 0) + 1
            rn = rate_names[it.get("rate_cls", 4)]
            hist["rate_class"][rn] = hist["rate_class"].get(rn, 0) + 1
            fk = str(it["n"] // 50 * 50) + "+"
            hist["frames"][fk] = hist["frames"].get(fk, 0) + 1
        else:
            s = it["seed"]
            cls = "crosses_2^64" if s + it["n"] > 2 ** 64 else ("small" if s < 2 ** 32 else "large")
            hist["noise_seed_class"][cls] = hist["noise_seed_class"].get(cls, 0) + 1
    nontriv = len({it["line"] for it in items if nontrivial(it)}) if not errors else 0
    dist = dict(hist, osc_runs=n_osc, composite_control_runs=sum(1 for it in items if it["kind"] == "H"), noise_runs=len(items) - n_osc - len(corpus), corpus_cases=len(corpus),
                k1_inputs=sum(1 for it in items if it.get("k1")),
                frames_total=sum(it["n"] * {"O": 5, "H": 3}.get(it["kind"], 1) for it in items),
                control_runs_past_finite_end=sum(1 for it in items if it["kind"] == "H" and it["op"] != 4 and len(it["b"]) < it["n"]),
                phase_wraps_total=sum(it.get("wraps", 0) for it in items))
    samples = [items[i]["line"][:300] for i in (len(corpus), len(corpus) + n_osc // 2, len(items) - 1)]
    extra = {"floatbase_cases": fb_n, "floatbase_disagreements": len(fb_bad), "range_sampled_frames_per_signal": n_range,
             "range_sampling_failures": len(range_bad), "verdict_failures_outside_known_classes": len(verdict_fail),
             "known_class_inputs_violating": k1_seen}
    return finish(rep, info, len(items), nontriv, dist, samples, bad, extra)


def finish(rep, info, n, nontriv, dist, samples, bad=(), extra=None):
    th = info.get("theorems", [])
    cov = {
        "obligations": max(1, len(th)), "discharged": len(th) if info.get("coq_ok") else 0,
        "checker_cmd": "make -f Makefile.coq props/C17.vo (coqc 8.16.1, full .vo) + Print Assumptions audit",
        "trusted_base": F.TRUSTED_COMMON + [
            "axioms: Coq's real-number axioms (ClassicalDedekindReals.sig_forall_dec, sig_not_dec, functional_extensionality_dep) and Classical_Prop.classic via Reals/Flocq; for c17_simplex_real, c17_simplex_ieee and c17_simplex_range additionally the primitive 63-bit integer operations and their specification axioms used by Interval (vm_compute)",
            "Flocq 4.1.0 BinarySingleNaN as the meaning of f64 + - * / % floor compare (Base/Float.v, validated against rustc by lib/floatbase.py in this run)",
            "libm sin: a Section variable with hypothesis 'finite x -> sin x finite and |sin x| <= 1'; compared with a 4-ulp tolerance, never proved",
            "translate/simplex_table.py (copies PERM and the literals of noise_1/simplex_noise_1d from the source)",
            "modelled, not verified: i64 `i0 + 1` in simplex_noise_1d as unbounded Z (unreachable overflow: |phase| < 65536); u64 wrapping ops as Z mod 2^64",
        ],
        "theorems": th, "axioms_reported": info.get("axioms", []),
        "evaluations": n, "distinct_nontrivial": nontriv,
        "rule": "each evaluation = one run: (rate, const or per-frame frequency sequence, n frames) through phase+saw+square+sine+noise_simplex, or (seed, n, clone point) through noise with clone and restart; non-trivial = the phase wraps at least once, or some hz > rate, or seed+n crosses 2^64, or (composite/finite control) the run continues past the end of the finite from_iter part",
        "samples": samples, "input_distribution": dist, "disagreements": len(bad),
        "explanation": "theorems: exact-real formulas for phase/saw/square/sine/simplex bound, pull-counter theorem, IEEE binary64 range theorems for phase/saw/square/sine/noise/simplex and noise purity for every step sequence/seed/length; tie: the binary64 instance of the same model run by coqc on the same cases as the crate, compared bit-for-bit (sine: 4 ulp to libm at the model's argument). The simplex bound for the ROUNDED evaluation is proved for the binary64 instance of the model (c17_simplex_ieee, c17_simplex_range); that this instance is what the crate computes is the bit-exact agreement on the generated phases (+ range sampling of long runs of the crate).",
    }
    cov.update(extra or {})
    return rep.finish("proof", cov, [
        "sin is an oracle (libm) assumed finite with |sin x| <= 1 on finite arguments",
        "simplex bound proved on exact reals and on the binary64 model (margin 1e-4 left after rounding); i64 `i0 + 1` modelled on unbounded Z (no overflow for x in [-2^63, 2^63))",
        "steps are assumed finite (class K1 excluded: hz/rate overflowing to +inf is a listed known finding)",
        "the harness observes through the public API only"])


def replay(path):
    j = json.load(open(path))
    regenerate()
    it = build(j["case"])
    ok, blog, binpath = F.harness_build("c17")
    rc, out, _ = F.run_bin(binpath, [it["line"]])
    _, model = F.coq_eval("c17", HEADER, f"run_case ({it['coq']})")
    print("case:", it["line"])
    print("implementation:", out)
    print("model:", model)
    o, bad, errs = F.correspond(binpath, [it], HEADER, CHECK, "c17_replay")
    vf = verdict(it, out[0]) if out else ["no output"]
    print("verdict failures:", vf)
    print("AGREE" if not bad and not errs else "DISAGREE")
    listed = K1_CLASS in {e.get("class") for e in F.known_findings(PROP) if e.get("kind") == "known"}
    if vf and it.get("k1"):
        print("input is in known class K1 (a step is not finite);", "listed in KNOWN_FINDINGS.json" if listed else "NOT listed -> violation")
    return 1 if bad or errs or (vf and not (it.get("k1") and listed)) else 0
