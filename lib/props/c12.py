"""C12 — Fork gives both branches the identical stream under every pull interleaving.
Proof: coq/props/C12.v (refinement of the Fork model -- source with pull counter + Bounded ring
buffer + pending flag, written after dasp_signal/src/lib.rs -- to two positions (pa, pb) in the
source stream, for every capacity >= 1, every ring-buffer start, every schedule whose lead never
exceeds the capacity).  Tie: correspondence between the model's executable definitions
(Signal/ForkRun.v, evaluated by coqc) and the real Signal::fork / by_ref / by_rc branches on the same
schedules; plus the property verdict evaluated directly on the implementation's observations.
Tie 2 (translator, lib/siggen_util.py): on every run translate/ring2coq.py regenerates coq/gen/RingGen.v from
dasp_ring_buffer/src/lib.rs and translate/sig2coq.py regenerates coq/gen/ForkGen.v from dasp_signal/src/lib.rs
(Signal::fork, Fork::A / B / by_rc / by_ref, the macro define_branch! expanded for its two invocations: next /
pending_frames of the four branch types, which inherit trait Signal's default is_exhausted; ring-buffer calls are the
generated ring methods, the source signal is abstract, RefCell / Rc sharing is state threading);
Signal/ForkGenEquiv.v proves every generated definition equal to the hand model's on all inputs (c12_gen_agrees), so
the schedule theorems are about the regenerated model (c12_gen_schedule).  When the translator rejects the source or a
link of the chain no longer compiles (DESIGN 5.1/5.3) the first broken link is named and the correspondence is the
search for a failing input: hand model vs crate, the property verdict, then the regenerated model (Signal/ForkGenRun.v)
vs crate and vs hand model; a failing input gives VIOLATION with a replay file, none gives a VIOLATION ending
no-failing-input-found that names the lemma / the translator error.
TESTING ONLY: DASP_SIGNAL_RS / DASP_RING_RS / DASP_SIGNAL_HARNESS=scratch, see lib/siggen_util.py."""
import json, os, itertools
import framework as F
import siggen_util as G

PROP = "C12"
META = dict(
    technique="Coq refinement proof (Fork model -> two stream positions) + model regenerated from the source by a translator (macro define_branch! expanded, on top of the regenerated ring buffer) and proved equal to the hand model + coqc-evaluated model vs crate correspondence",
    text="Machine-checked (Coq 8.16.1) refinement of a model of dasp_signal's Fork (shared source with a pull counter, the Bounded ring-buffer model of C06 as the queue, the pending flag; next/pending_frames/by_ref/by_rc written after the source) to a pair of positions in the source stream: for every capacity >= 1, every ring-buffer start index and every finite schedule of operations whose lead never exceeds the capacity, each next() on branch X returns source frame p_X, the pull counter equals max(pa,pb), pending_frames(X) = max(pa,pb) - p_X and the queue holds source frames [min,max); re-splitting is the identity on the shared state; a step that exceeds the lead silently loses the oldest frame (proved, no panic). The model is tied to the crate by running its executable definitions inside coqc on the same schedules (all interleavings to length 12 for capacities 1..3, random 1000-step schedules with sign-flipping leads, by_ref / re-split / by_rc, finite sources, overrunning and malformed cases) and comparing every observation exactly. Second tie: translate/sig2coq.py, a strict translator for the Rust subset the adaptor's methods use, regenerates coq/gen/ForkGen.v from dasp_signal/src/lib.rs on every run (Signal::fork, Fork::A / B / by_rc / by_ref, the macro define_branch! expanded for its two invocations into next / pending_frames of the four branch types, trait Signal's default is_exhausted; ring-buffer calls go to the ring methods regenerated from dasp_ring_buffer/src/lib.rs, the source signal is abstract; anything outside its grammar, a new / missing / overridden method or impl, another item touching the adaptor's types is an error) and Coq proves each generated definition equal to the hand model's on all inputs (c12_gen_agrees), so the schedule theorems are about the regenerated model (c12_gen_schedule); a broken link of the chain is named and the correspondence becomes the search for a failing input.",
    note="Trusted: Coq kernel; translate/sig2coq.py + translate/ring2coq.py and the vocabularies Signal/SigGenPrim.v, Ring/RingPrim.v (RefCell / Rc / & sharing as state threading: every handle is the one shared state, the borrow flag is not modelled; the source signal as an abstract total state machine), the caller-side glue Signal/ForkGenGlue.v; the hand-written model (RefCell/Rc sharing as one functional state, the source signal as a function nat -> frame with a counter, usize as nat) validated only through the correspondence; harness + python generators. Axioms: none.",
    design="6/C12")
HEADER = "From Dasp Require Import Signal.ForkRun."
GEN_HEADER = "From Dasp Require Import Signal.ForkRun Signal.ForkGenRun."
GEN_SAMPLE = 4000      # cases kept for the search on the regenerated model when the translator tie is broken
CHECK = "check"
BIN = "c12"

COQ_OP = {"na": "ZNext 1", "nb": "ZNext 0", "pa": "ZPend 1", "pb": "ZPend 0", "ea": "ZExh 1", "eb": "ZExh 0",
          "ref": "ZByRef", "rc": "ZByRc"}
KEYS = ("nch", "store", "cap", "start", "len0", "src", "fin", "ops", "kind")


def build(item, ops=None):
    it = dict(item)
    if ops is not None:
        it["ops"] = ops
    z = F.zlit
    it["line"] = (f"{it['nch']} {it['store']} {it['cap']} {it['start']} {it['len0']} {it['src']} {it['fin']} ; "
                  + " , ".join(it["ops"]))
    it["coq"] = (f"FCase {z(it['nch'])} {z(it['cap'])} {z(it['start'])} {z(it['len0'])} {z(it['fin'])} ["
                 + "; ".join(COQ_OP[o] for o in it["ops"]) + "]")
    return it


def simulate(item):
    """Positions (pa, pb) along the schedule, by the SPEC (not the code).  Returns dict:
    valid (lead never exceeds cap), max_lead, flips (number of times the leading branch changes /
    hand-overs of the queue: the lagging branch catches up and then gets ahead), positions."""
    cap = item["cap"]
    pa = pb = 0
    valid, max_lead, flips, last_sign = True, 0, 0, 0
    for o in item["ops"]:
        if o == "na":
            pa += 1
        elif o == "nb":
            pb += 1
        else:
            continue
        d = pa - pb
        if abs(d) > cap:
            valid = False
        max_lead = max(max_lead, abs(d))
        s = (d > 0) - (d < 0)
        if s != 0:
            if last_sign != 0 and s != last_sign:
                flips += 1
            last_sign = s
    return dict(valid=valid, max_lead=max_lead, flips=flips, pa=pa, pb=pb)


def code_flag_flips(item):
    """number of times the code's `pending` flag flips along the schedule (a branch finds the queue
    it owns empty), by the rule of the source; used only to classify cases."""
    cap = item["cap"]
    pend, qlen, flips = "b", 0, 0
    for o in item["ops"]:
        if o not in ("na", "nb"):
            continue
        me = o[1]
        if pend == me:
            if qlen > 0:
                qlen -= 1
                continue
            pend = "a" if me == "b" else "b"
            flips += 1
        qlen = min(cap, qlen + 1)
    return flips


def src_val(item, i):
    return 0 if (item["fin"] >= 0 and i >= item["fin"]) else i + 1


def verdict(item, obs):
    """The property's verdict evaluated directly on the implementation's observations of a
    well-formed case whose schedule respects the lead: frames, pull counter, pending counts."""
    if len(obs) != len(item["ops"]) + 1:
        return f"{len(obs)} observations for {len(item['ops'])} operations"
    pa = pb = 0
    if obs[0] != [0, 0, 0, 0]:
        return f"construction observed {obs[0]}"
    for k, (o, ob) in enumerate(zip(item["ops"], obs[1:])):
        tail = None
        if o in ("na", "nb"):
            p = pa if o == "na" else pb
            v = src_val(item, p)
            fr = [v] if item["nch"] == 1 else [v, -v]
            if ob[0] != 1 or ob[1:1 + len(fr)] != fr:
                return f"op {k} {o}: branch at position {p} observed {ob}, expected frame {fr}"
            if o == "na":
                pa += 1
            else:
                pb += 1
            tail = ob[1 + len(fr):]
        elif o in ("pa", "pb"):
            want = max(pa, pb) - (pa if o == "pa" else pb)
            if ob[0] != 2 or ob[1] != want:
                return f"op {k} {o}: pending {ob}, expected {want}"
            tail = ob[2:]
        elif o in ("ea", "eb"):
            tail = ob[2:]
        else:
            if ob[0] != (3 if o == "ref" else 4):
                return f"op {k} {o}: observed {ob}"
            tail = ob[1:]
        m = max(pa, pb)
        if tail != [m, m - pa, m - pb]:
            return f"op {k} {o}: (pulls, pending A, pending B) = {tail}, expected {[m, m - pa, m - pb]} at positions {(pa, pb)}"
    return None


def walk(r, cap, steps, overrun=False):
    """random schedule whose lead d = pa - pb moves between targets in [-cap, cap] (sign flips,
    extremes preferred); with `overrun` the targets may exceed the capacity."""
    ops, d = [], 0
    lim = cap + (r.range(1, 3) if overrun else 0)
    target = 0
    while len(ops) < steps:
        if d == target:
            target = r.choice([-lim, lim, -lim, lim, 0, r.range(-lim, lim), -cap, cap])
            if r.chance(1, 3):  # both branches advance in lock-step for a while
                for _ in range(r.range(1, 6)):
                    ops += ["na", "nb"] if r.chance(1, 2) else ["nb", "na"]
            continue
        if d < target:
            ops.append("na")
            d += 1
        else:
            ops.append("nb")
            d -= 1
        if r.chance(1, 12):
            ops.append(r.choice(["pa", "pb", "pa", "pb", "ea", "eb"]))
    return ops[:steps]


# Capacities with every residue structure an index shortcut could depend on (1, 2, powers of two and their
# neighbours, even non-powers of two, odd composites, primes, multiples of 3 and of 10), next to the small
# exhaustive range: `& (cap - 1)` instead of `% cap` is right for powers of two only, `if i >= cap {i - cap}`
# only for one wrap, and so on.  (S-C12 / round 3: a mask guarded by `cap % 2 == 0` went unnoticed because no
# generated capacity was even without being a power of two.)
CAPSET = (1, 2, 3, 4, 5, 6, 7, 8, 9, 10, 12, 15, 16, 17, 24, 31, 32, 33, 48, 63, 64, 65, 96, 100, 127, 128, 129,
          255, 256, 257)


def cap_leads(cap):
    """leads held in the capset family: every value 0..cap for the small capacities, the corners for the others"""
    if cap <= 10:
        return list(range(cap + 1))
    return sorted({0, 1, 2, 3, cap // 2, cap - 2, cap - 1, cap})


def lead_phase(x, y, lead, cap, resplit):
    """branch x gets `lead` frames ahead of y (then, with `resplit`, the pair is dropped and the fork split again
    by reference: at lead == cap the queue is full at that moment); the lead is held at exactly `lead` while
    cap + 2 further frames pass through the queue, so the ring's write and read indices go once round the whole
    storage; y catches up completely and pulls once more (the queue changes hands with nothing in it), x draws
    level.  The lead never exceeds max(lead, 1) <= cap."""
    nx, ny = "n" + x, "n" + y
    ops = [nx] * lead
    if resplit:
        ops.append("ref")
    for _ in range(cap + 2):
        ops += [ny, nx] if lead >= 1 else [nx, ny]
    ops += [ny] * lead
    if resplit:
        ops.append("ref")
    ops += [ny, nx]
    return ops


def capset_cases(idx0):
    """deterministic: every capacity of CAPSET x every lead of cap_leads x split mode (by reference throughout with
    re-splits at the lead and at level / by_rc from the start / by_rc between the phases) with A leading in one
    phase and B in the other; each case pushes >= 2 cap + 4 frames: the ring indices wrap at least twice.
    Capacities <= 10: all six (mode, first leader) combinations per lead; above: one per lead, rotated, so that every
    capacity meets all six and every (capacity, lead) meets both leaders and a by_ref or by_rc pair (mostly both)."""
    combos = [(m, x) for x in ("a", "b") for m in ("ref", "rc", "mid")]
    out, idx = [], idx0
    for cap in CAPSET:
        for j, lead in enumerate(cap_leads(cap)):
            for mode, x in (combos if cap <= 10 else [combos[(j + cap) % 6]]):
                y = "b" if x == "a" else "a"
                ops = (["rc"] if mode == "rc" else []) + lead_phase(x, y, lead, cap, mode != "rc")
                ops += (["rc"] if mode == "mid" else []) + lead_phase(y, x, lead, cap, mode == "ref")
                start = (0, cap - 1, cap // 2, 1 % cap, (2 * cap) // 3)[idx % 5]
                out.append(build(dict(kind="capset", nch=1 + (idx // 7) % 2, store=idx % 4, cap=cap, start=start,
                                      len0=0, src=(0, 1, 3)[idx % 3], fin=-1, ops=ops)))
                idx += 1
    return out


def sprinkle_splits(r, ops, by_rc):
    """insert re-splits by reference at random points and, optionally, one by_rc after them"""
    ops = list(ops)
    n = len(ops)
    cut = r.range(0, n) if by_rc else n
    k = r.choice([0, 1, 2, 5])
    pts = sorted(r.range(0, cut) for _ in range(k))
    out, j = [], 0
    for i in range(n + 1):
        while j < len(pts) and pts[j] == i:
            out.append("ref")
            j += 1
        if by_rc and i == cut:
            out.append("rc")
        if i < n:
            out.append(ops[i])
    return out


def gen_cases(rng, tier):
    items = []
    # 1. every interleaving of next_A / next_B: all 2^L sequences for capacities 1..3 (those that
    #    exceed the lead are the malformed stream: the model says which frames are lost)
    L = 12
    idx = 0
    for cap in (1, 2, 3):
        for seq in itertools.product(("na", "nb"), repeat=L):
            items.append(build(dict(kind="exh", nch=1 + (idx // 5) % 2, store=idx % 4, cap=cap, start=idx % cap,
                                    len0=0, src=(0, 1, 3)[idx % 3], fin=-1, ops=list(seq))))
            idx += 1
    if tier == "thorough":
        # all lead-respecting interleavings of length 16, capacities 1..3
        for cap in (1, 2, 3):
            def rec(prefix, d):
                if len(prefix) == 16:
                    yield list(prefix)
                    return
                if d + 1 <= cap:
                    yield from rec(prefix + ["na"], d + 1)
                if -(d - 1) <= cap:
                    yield from rec(prefix + ["nb"], d - 1)
            for seq in rec([], 0):
                items.append(build(dict(kind="exh16", nch=1 + (idx // 5) % 2, store=idx % 4, cap=cap, start=idx % cap,
                                        len0=0, src=(0, 1, 3)[idx % 3], fin=-1, ops=seq)))
                idx += 1
    n_exh = len(items)
    # 2. re-split / by_rc at every point of short schedules (capacities 1..2, every start)
    for cap in (1, 2):
        for start in range(cap):
            for seq in itertools.product(("na", "nb"), repeat=5):
                if not simulate(dict(cap=cap, ops=seq))["valid"]:
                    continue
                for cut in range(6):
                    for split in ("ref", "rc"):
                        ops = list(seq[:cut]) + [split] + list(seq[cut:])
                        items.append(build(dict(kind="split", nch=1, store=idx % 4, cap=cap, start=start, len0=0,
                                                src=idx % 2, fin=-1, ops=ops)))
                        idx += 1
    # 2b. every capacity of CAPSET, every lead (corner leads for the large ones), both branches leading, by_ref and
    #     by_rc, re-split with the queue full, ring indices wrapping at least twice
    items += capset_cases(idx)
    # 3. random long schedules with sign-flipping leads up to the capacity
    n_rand = 130 if tier == "quick" else 500
    steps = 1000 if tier == "quick" else 1500
    for k in range(n_rand):
        r = rng.fork(f"walk{k}")
        cap = r.choice([1, 1, 2, 2, 3, 3, 4, 5, 7, 8, 16, 33, 64, 6, 10, 12, 24, 100])
        ops = walk(r, cap, steps if not r.chance(1, 4) else r.range(20, 200))
        ops = sprinkle_splits(r, ops, by_rc=r.chance(1, 2))
        items.append(build(dict(kind="walk", nch=r.choice([1, 1, 2]), store=r.below(4), cap=cap, start=r.below(cap),
                                len0=0, src=r.choice([0, 1, 3]), fin=-1, ops=ops)))
    # 4. finite sources (signal::from_iter): schedules that run past the end
    for k in range(60 if tier == "quick" else 300):
        r = rng.fork(f"fin{k}")
        cap = r.choice([1, 2, 3, 4, 8, 6, 12])
        fin = r.range(0, 30)
        ops = walk(r, cap, r.range(10, 90))
        ops = sprinkle_splits(r, ops, by_rc=r.chance(1, 2))
        items.append(build(dict(kind="finite", nch=r.choice([1, 2]), store=r.below(4), cap=cap, start=r.below(cap),
                                len0=0, src=r.choice([0, 1, 2, 2, 3]), fin=fin, ops=ops)))
    # 5. malformed stream: leads beyond the capacity (frames are lost), non-empty / invalid ring buffers
    for k in range(120 if tier == "quick" else 600):
        r = rng.fork(f"over{k}")
        cap = r.choice([1, 1, 2, 3, 4, 8, 6, 12, 10, 15])
        ops = walk(r, cap, r.range(10, 120), overrun=True)
        ops = sprinkle_splits(r, ops, by_rc=r.chance(1, 2))
        items.append(build(dict(kind="overrun", nch=r.choice([1, 2]), store=r.below(4), cap=cap, start=r.below(cap),
                                len0=0, src=r.choice([0, 1, 3]), fin=-1, ops=ops)))
    for cap in range(0, 5):
        for start in range(0, cap + 2):
            for len0 in range(0, cap + 2):
                if start < cap and len0 == 0:
                    continue
                items.append(build(dict(kind="ctor", nch=1 + (start + len0) % 2, store=(cap + start + len0) % 4, cap=cap,
                                        start=start, len0=len0, src=0, fin=-1, ops=["na", "nb"])))
    return items, n_exh


def find_abort(binpath, items):
    """index of a case on which the harness process dies (abort = a non-unwinding panic, e.g. one of
    std's unsafe-precondition checks firing inside the crate), by bisection; None if none does"""
    def dies(lo, hi):
        rc, _, _ = F.run_bin(binpath, [it["line"] for it in items[lo:hi]])
        return rc != 0
    lo, hi = 0, len(items)
    if not dies(lo, hi):
        return None
    while hi - lo > 1:
        mid = (lo + hi) // 2
        if dies(lo, mid):
            hi = mid
        else:
            lo = mid
    return lo


def load_corpus():
    d = os.path.join(F.VERIF, "corpus", PROP)
    items = []
    if os.path.isdir(d):
        for fn in sorted(os.listdir(d)):
            if fn.endswith(".json"):
                items.append(build(json.load(open(os.path.join(d, fn)))))
    return items


def main(rep, tier, seed):
    rng = F.Rng(seed)
    info = G.tie_start(rep, PROP, "fork")       # regenerate RingGen.v + ForkGen.v, self-test, proofs, audit
    broken = info.get("broken")
    # the executable model is not in the closure of props/C12.v: build it on its own so that it
    # still runs (and the failing input can be searched for) when a proof is broken
    mok, mlog = F.coq_make("theories/Signal/ForkRun.vo")
    if not mok:
        rep.violation("model_build", {"kind": "the executable model does not compile", "log": mlog[-4000:]}, no_input=True)
        return finish(rep, info, 0, 0, {}, [])
    ok, blog, binpath = G.harness_build(BIN)
    if not ok:
        rep.violation("harness_build", {"kind": "harness does not build against /repo", "log": blog[-4000:]}, no_input=True)
        tie_broken_without_input(rep, info, None)
        return finish(rep, info, 0, 0, {}, [])
    corpus = load_corpus()
    items, n_exh = gen_cases(rng, tier)
    items = corpus + items
    # the long schedules are generated as one block; spread them over the coqc shards
    K = 61
    items = [items[j] for i in range(K) for j in range(i, len(items), K)]
    outl, bad, errors = F.correspond(binpath, items, HEADER, CHECK, "c12")
    rep.extra["build_profiles"] = F.profile_phase(rep, "c12", items, outl, profiles=("release",)) if not errors and len(outl) == len(items) and not G.TEST_HARNESS else {}
    if any(name == "harness" for name, _ in errors):
        idx = find_abort(binpath, items)
        if idx is not None:
            small = F.shrink_ops(items[idx], build, lambda c: F.run_bin(binpath, [c["line"]])[0] != 0)
            rc, out, err = F.run_bin(binpath, [small["line"]])
            rep.violation(f"abort{idx}", {
                "kind": "the implementation aborts the process on this case (non-unwinding panic: an unsafe-precondition check or a panic during unwinding inside the crate) where the proved model returns normally",
                "case": {k: small[k] for k in KEYS if k in small}, "harness_line": small["line"],
                "exit_code": rc, "stderr": err[-1500:], "lead_respected": simulate(small)["valid"],
                "original_case_index": idx, "replay": "./check.py C12 --replay <this file>"})
            errors = [e for e in errors if e[0] != "harness"] + [("harness", "aborted, see the abort replay file")]
            return finish(rep, info, 0, 0, {"harness_aborted_on_case": small["line"]}, [small["line"]], [idx])
    for name, msg in errors:
        rep.violation("correspondence_error_" + name.replace("/", "_"),
                      {"kind": "correspondence could not be evaluated", "where": name, "log": msg}, no_input=True)
    # classification + the property verdict on the implementation's own observations
    hist_kind, hist_cap, hist_ops, hist_flips = {}, {}, {}, {}
    nontriv, n_valid, n_reach, n_flip2, verdict_bad, lost = set(), 0, 0, 0, [], 0
    for i, (it, o) in enumerate(zip(items, outl if not errors else [])):
        sim = simulate(it)
        flips = code_flag_flips(it)
        hist_kind[it["kind"]] = hist_kind.get(it["kind"], 0) + 1
        hist_cap[str(it["cap"])] = hist_cap.get(str(it["cap"]), 0) + 1
        fb = str(min(flips, 8)) + ("+" if flips >= 8 else "")
        hist_flips[fb] = hist_flips.get(fb, 0) + 1
        for op in it["ops"]:
            hist_ops[op] = hist_ops.get(op, 0) + 1
        wellformed = it["len0"] == 0 and it["start"] < it["cap"]
        if wellformed and sim["valid"]:
            n_valid += 1
            reach = sim["max_lead"] == it["cap"]
            n_reach += reach
            n_flip2 += flips >= 2
            if reach or flips >= 2:
                nontriv.add(it["line"])
            why = verdict(it, F.norm_obs_line(o))
            if why:
                verdict_bad.append((i, why))
        elif wellformed:
            lost += 1
    for idx in bad[:3]:
        it = items[idx]

        def fails(c):
            o, b, e = F.correspond(binpath, [c], HEADER, CHECK, "c12_shrink")
            return bool(b) and not e

        small = F.shrink_ops(it, build, fails)
        rc, out, _ = F.run_bin(binpath, [small["line"]])
        _, model = F.coq_eval("c12", HEADER, f"run_case ({small['coq']})")
        rep.violation(f"case{idx}", {
            "kind": "model/implementation disagreement: dasp_signal's Fork does not behave as the model proved to give both branches the identical stream",
            "case": {k: small[k] for k in KEYS if k in small}, **({"why": broken} if broken else {}),
            "harness_line": small["line"], "implementation_observations": out, "model_observations": model[-3000:],
            "lead_respected": simulate(small)["valid"],
            "original_case_index": idx, "replay": "./check.py C12 --replay <this file>"})
    for idx, why in verdict_bad[:3]:
        if idx in bad[:3]:
            continue
        it = items[idx]

        def vfails(c):
            rc, out, _ = F.run_bin(binpath, [c["line"]])
            return simulate(c)["valid"] and bool(out) and verdict(c, F.norm_obs_line(out[0])) is not None

        small = F.shrink_ops(it, build, vfails)
        rc, out, _ = F.run_bin(binpath, [small["line"]])
        rep.violation(f"verdict{idx}", {
            "kind": "property verdict fails on the implementation's observations (schedule respects the lead)",
            "why": verdict(small, F.norm_obs_line(out[0])) if out else why,
            "case": {k: small[k] for k in KEYS if k in small},
            "harness_line": small["line"], "implementation_observations": out,
            "original_case_index": idx, "replay": "./check.py C12 --replay <this file>"})
    if broken:
        search = {"hand_model_vs_crate_failing": len(bad), "property_verdict_failing": len(verdict_bad), "cases": len(items)}
        found = bool(bad) or bool(verdict_bad)
        if broken["stage"] not in ("translator", "generated_ring_model") and not errors:
            def run_one(line):
                rc, o, _ = F.run_bin(binpath, [line])
                return o[0] if rc == 0 and len(o) == 1 else None
            order = sorted(range(len(items)), key=lambda i: (i not in set(bad[:50]), len(items[i]["ops"]) > 400, i % 7, i))[:GEN_SAMPLE]
            nc, nh, note = G.gen_search(rep, PROP, "fork", GEN_HEADER, [items[i] for i in order], [outl[i] for i in order],
                                        broken, build, run_one, KEYS)
            search.update(generated_vs_crate_failing=nc, generated_vs_hand_failing=nh, cases_on_the_generated_model=len(order), note=note)
            found = found or bool(nc) or bool(nh)
        info["search"] = search
        if not found:
            tie_broken_without_input(rep, info, search)
    dist = {"case_kinds": hist_kind, "capacity_histogram": hist_cap, "ops_histogram": hist_ops,
            "pending_flag_flips_per_case": hist_flips,
            "lead_respecting_wellformed_cases": n_valid, "of_which_lead_reaches_capacity": n_reach,
            "of_which_flag_flips_at_least_twice": n_flip2, "overrunning_schedules": lost,
            "all_interleavings_cases": n_exh, "capset_capacities": list(CAPSET),
            "capset_cases_lead_equals_capacity": sum(1 for it in items if it["kind"] == "capset" and simulate(it)["max_lead"] == it["cap"]), "corpus_cases": len(corpus),
            "total_operations": sum(hist_ops.values())}
    samples = []
    for kind in ("exh", "split", "capset", "walk", "finite", "overrun", "ctor"):
        samples += [it["line"][:240] for it in items if it["kind"] == kind][:1]
    return finish(rep, info, len(items), len(nontriv), dist, samples, bad, len(verdict_bad))


def tie_broken_without_input(rep, info, search):
    broken = info.get("broken")
    if broken:
        rep.violation("translator_tie_broken", dict(
            kind=broken["message"] + " -- and no failing input was found"
                 + (": the hand model still agrees with the crate on every case" if search else " (the harness could not be built)")
                 + (", and so does the regenerated model" if search and search.get("generated_vs_crate_failing") == 0 else ""),
            search=search, **broken), no_input=True)


def finish(rep, info, n, nontriv, dist, samples, bad=(), verdict_bad=0):
    th = info.get("theorems", [])
    cov = {
        "obligations": max(1, len(th)), "discharged": len(th) if info.get("coq_ok") else 0,
        "checker_cmd": "translate/ring2coq.py /repo/dasp_ring_buffer/src/lib.rs > coq/gen/RingGen.v; translate/sig2coq.py fork /repo/dasp_signal/src/lib.rs > coq/gen/ForkGen.v; make -f Makefile.coq props/C12.vo (coqc 8.16.1, full .vo) + Print Assumptions audit",
        "translator": info.get("translator", {}), "translator_tie_broken": info.get("broken"), "search": info.get("search"),
        "trusted_base": F.TRUSTED_COMMON + [
            "axioms: none (every theorem of props/C12.v is closed under the global context)",
            "modelled, not verified: RefCell/Rc/& sharing of ForkShared as one functional state threaded through the branch operations; the source signal as a function nat -> frame with a pull counter; usize as nat; the Bounded model of Ring/Bounded.v (tied by C06)"] + G.TRUSTED,
        "theorems": th, "axioms_reported": info.get("axioms", []),
        "evaluations": n, "distinct_nontrivial": nontriv,
        "rule": "all 2^12 next_A/next_B interleavings for capacities 1..3 (ring-buffer start, storage kind, source kind, mono/stereo rotated), re-split/by_rc at every cut of all valid length-5 schedules, the capset family (30 capacities 1..257 covering powers of two and their neighbours, even non-powers of two, odd composites and primes x every lead 0..cap for cap <= 10, leads {0,1,2,3,cap/2,cap-2,cap-1,cap} above x A leading then B leading x by_ref with re-splits at the lead and at level / by_rc / by_rc between the phases; every case wraps the ring indices at least twice), 130 random 1000-step lead walks between +-capacity (capacities 1..100) with re-splits and by_rc, finite sources, overrunning and malformed-constructor cases (thorough: plus every lead-respecting interleaving of length 16 for capacities 1..3 and 500 walks of 1500 steps); non-trivial = a well-formed lead-respecting schedule in which the lead reaches the capacity or the pending flag flips at least twice",
        "samples": samples, "input_distribution": dist, "disagreements": len(bad),
        "property_verdict_failures_on_implementation": verdict_bad,
        "explanation": "theorems: refinement of the Fork model to two stream positions for all capacities, ring-buffer starts and lead-respecting schedules (frames, pull counter, pending counts, queue contents), re-split identity, behaviour on overrun; tie: the model's executable definitions run by coqc on the same cases as the real crate, all observations compared exactly, and the property's verdict re-evaluated on the implementation's observations",
    }
    return rep.finish("proof", cov, ["the shared RefCell state is modelled as one functional state; by_ref/by_rc are the identity on it (validated by the correspondence on re-split schedules)",
                                    "the source is any function nat -> frame with a pull counter; the harness observes through the public API only"])


def replay(path):
    j = json.load(open(path))
    if "case" not in j:
        print("this replay file names a broken lemma / translator error and has no input; re-run ./check.py C12")
        print(json.dumps({k: j.get(k) for k in ("kind", "stage", "broken_lemma", "file", "line", "coq_message", "message")}, indent=1))
        return 1
    it = build(j["case"])
    ok, blog, binpath = G.harness_build(BIN)
    if j.get("model") == "generated":
        tinfo, terr = G.regenerate("fork")
        if terr:
            print("translator:", terr)
            return 1
        F.coq_make(G.GROUPS["fork"]["run"])
        rc, out, _ = F.run_bin(binpath, [it["line"]])
        _, gmodel = F.coq_eval("c12", GEN_HEADER, f"gen_run_case ({it['coq']})")
        _, hmodel = F.coq_eval("c12", GEN_HEADER, f"run_case ({it['coq']})")
        print("case:", it["line"])
        print("implementation:", out)
        print("generated model:", gmodel)
        print("hand model:", hmodel)
        fn = "agree_gen" if j.get("against") == "hand" else "check_gen"
        bad, errs = F.coq_check_cases("c12_replay", GEN_HEADER, fn, [f"({it['coq']}, {F.zlistlist(F.norm_obs_line(out[0]))})"])
        print("AGREE" if not bad and not errs else "DISAGREE")
        return 1 if bad or errs else 0
    rc, out, err = F.run_bin(binpath, [it["line"]])
    _, model = F.coq_eval("c12", HEADER, f"run_case ({it['coq']})")
    print("case:", it["line"])
    print("implementation:", out if rc == 0 else f"process died rc={rc}: {err[-300:]}")
    print("model:", model)
    o, bad, errs = F.correspond(binpath, [it], HEADER, CHECK, "c12_replay")
    sim = simulate(it)
    why = verdict(it, F.norm_obs_line(out[0])) if (out and sim["valid"] and it["len0"] == 0 and it["start"] < it["cap"]) else None
    if why:
        print("property verdict:", why)
    print("AGREE" if not bad and not errs and not why else "DISAGREE")
    return 1 if bad or errs or why else 0
