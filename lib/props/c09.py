"""C09 — graph processing runs exactly the upstream subgraph, once each, inputs first.
Proof: coq/props/C09.v (petgraph-0.5.1 DfsPostOrder as a stack machine over the reversed multigraph,
process loop, inputs, functional evaluation, reuse, sources/sinks; every multigraph, every output node).
Tie: correspondence between the model's executable definitions (Graph/GraphRun.v, evaluated by coqc)
and dasp_graph::Processor over petgraph Graph / StableGraph on the same build-and-process scripts."""
import json, os, itertools
import framework as F
import cov_regions

PROP = "C09"
META = dict(
    technique="Coq proof about a model of petgraph's DfsPostOrder + dasp_graph::process (all multigraphs) + coqc-evaluated model vs crate correspondence",
    text="Machine-checked (Coq 8.16.1): a model of petgraph-0.5.1's DfsPostOrder (stack, discovered, finished; as implemented) run over the edge-reversed multigraph (node slots with vacancies, edge list, newest-edge-first neighbours) and of dasp_graph::process on top of it. Proved for every multigraph (cycles, self-loops, parallel edges, vacancies) and output node: termination without panic, invoked set = nodes with a path to the output, each once, inputs = one per incoming edge from another node carrying that node's current buffers, post-order and equality with the functional evaluation when the upstream subgraph is acyclic, independence from the processor's history, sources/sinks = live nodes without incoming/outgoing edges; the NodeData constructors (new, new1, new2, boxed, boxed1, boxed2) store the given node with the given buffers resp. one / two silent buffers, so a node built by them presents exactly those to its neighbours (c09_node_data_constructors, c09_constructed_node_in_graph). The model is tied to the crate by running its executable definitions inside coqc on the same scripts (build a Graph/StableGraph, remove nodes, nodes built by every NodeData constructor, several process calls on one Processor, sources/sinks) and comparing the invocation log (order, input identities in order, values seen), final buffers, call counts, sources and sinks exactly.",
    note="Trusted: Coq kernel; the hand-written model of petgraph's containers (adjacency order, vacancies, free list, FixedBitSet length) and of the DFS, validated only through the correspondence; harness + python generators. Axioms: none.",
    design="6/C09")
HEADER = "From Dasp Require Import Graph.GraphRun."
CHECK = "check"


def coq_op(o):
    k, a = o[0], o[1:]
    z = F.zlit
    return {"N": lambda: f"ZN {z(a[0])} {z(a[1])}", "E": lambda: f"ZE {z(a[0])} {z(a[1])}", "R": lambda: f"ZR {z(a[0])}",
            "P": lambda: f"ZP {z(a[0])}", "B": lambda: "ZB", "Q": lambda: "ZQ", "A": lambda: f"ZA {z(a[0])}",
            "C": lambda: f"ZC {z(a[0])} {z(a[1])}"}[k]()


def build(item, ops=None):
    it = dict(item)
    if ops is not None:
        it["ops"] = ops
    it["line"] = it["kind"] + " ; " + " , ".join(" ".join(str(t) for t in o) for o in it["ops"])
    it["coq"] = "[" + "; ".join(coq_op(o) for o in it["ops"]) + "]"
    return it


# ---------------------------------------------------------------------------
# a python mirror of the container bookkeeping, used only to GENERATE valid scripts and to
# classify cases (never as an oracle)


class Shape:
    def __init__(self):
        self.live = []      # per slot: bool
        self.nbuf = []      # per slot: number of output buffers of the node living there
        self.free = []
        self.edges = []
        self.vacated = False

    def add_node(self, nbuf=1):
        if self.free:
            i = self.free.pop(0)
            self.live[i] = True
            self.nbuf[i] = nbuf
        else:
            i = len(self.live)
            self.live.append(True)
            self.nbuf.append(nbuf)
        return i

    def add_edge(self, a, b):
        self.edges.append((a, b))

    def remove(self, a):
        if a < len(self.live) and self.live[a]:
            self.live[a] = False
            self.free.insert(0, a)
            self.edges = [e for e in self.edges if a not in e]
            self.vacated = True

    def live_nodes(self):
        return [i for i, l in enumerate(self.live) if l]

    def upstream(self, out):
        preds = {}
        for a, b in self.edges:
            preds.setdefault(b, []).append(a)
        seen, todo = {out}, [out]
        while todo:
            x = todo.pop()
            for u in preds.get(x, []):
                if u not in seen:
                    seen.add(u)
                    todo.append(u)
        return seen

    def features(self, out):
        """state-dependent branches the call with this output exercises"""
        f = set()
        if out >= len(self.live) or not self.live[out]:
            return {"invalid_output"}
        U = self.upstream(out)
        sub = [(a, b) for a, b in self.edges if a in U and b in U]
        if any(a == b for a, b in sub):
            f.add("self_loop")
        if len(set(sub)) < len(sub):
            f.add("parallel_edge")
        if any(not l for l in self.live):
            f.add("vacancy")
        if any(self.nbuf[u] == 0 for u in U):
            f.add("zero_buffer_node_upstream")
        if self.nbuf[out] == 0:
            f.add("zero_buffer_output_node")
        if any(self.nbuf[a] == 0 for a, b in sub if a != b):
            f.add("input_without_buffers")
        if any(self.nbuf[u] == 2 for u in U):
            f.add("two_buffer_node_upstream")
        outdeg = {}
        for a, b in set(sub):
            if a != b:
                outdeg[a] = outdeg.get(a, 0) + 1
        if any(d >= 2 for d in outdeg.values()):
            f.add("two_paths")
        # cycle among upstream nodes (ignoring self loops, counted separately)
        succ = {}
        for a, b in set(sub):
            if a != b:
                succ.setdefault(a, []).append(b)
        color = {}

        def cyc(x):
            st = [(x, iter(succ.get(x, [])))]
            color[x] = 1
            while st:
                n, it = st[-1]
                for y in it:
                    c = color.get(y, 0)
                    if c == 1:
                        return True
                    if c == 0:
                        color[y] = 1
                        st.append((y, iter(succ.get(y, []))))
                        break
                else:
                    color[n] = 2
                    st.pop()
            return False

        if any(color.get(x, 0) == 0 and cyc(x) for x in U):
            f.add("cycle")
        if len(U) < len(self.live_nodes()):
            f.add("not_all_upstream")
        return f


def replay_shape(ops):
    """features of every P call of a script"""
    sh, feats = Shape(), []
    for o in ops:
        if o[0] == "N":
            sh.add_node(o[2])
        elif o[0] == "C":
            sh.add_node(CTOR_NBUF[o[1]])
        elif o[0] == "E":
            if o[1] < len(sh.live) and o[2] < len(sh.live) and sh.live[o[1]] and sh.live[o[2]]:
                sh.add_edge(o[1], o[2])
            else:
                break
        elif o[0] == "R":
            sh.remove(o[1])
        elif o[0] == "P":
            fs = sh.features(o[1])
            feats.append(fs)
            if "invalid_output" in fs:
                break
    return sh, feats


NONTRIVIAL = {"self_loop", "parallel_edge", "vacancy", "two_paths", "cycle", "zero_buffer_node_upstream"}


# the short-hand constructors of NodeData (script op `C c k`) and the number of buffers each documents
CTOR_NAMES = {1: "NodeData::new1", 2: "NodeData::new2", 3: "NodeData::boxed1", 4: "NodeData::boxed2"}
CTOR_NBUF = {1: 1, 2: 2, 3: 1, 4: 2}


def node_op(rc, k, nb):
    """the script operation that adds a node of kind k with nb buffers: `N k nb` (NodeData::boxed with an explicit
    buffer list) or, for half of the nodes with one or two buffers, one of the two short-hand constructors that
    document this buffer count (new1 / boxed1, new2 / boxed2).  rc: a PRNG stream used for nothing else, so that
    the shapes drawn from the other streams are what they were before this family existed."""
    if nb in (1, 2) and rc.chance(1, 2):
        return ["C", nb + (2 if rc.chance(1, 2) else 0), k]
    return ["N", k, nb]


def pick_nbuf(r):
    """1 node in 6 has no output buffer (meter/recorder style), 1 in 6 has two"""
    x = r.below(6)
    return 0 if x == 0 else 2 if x == 1 else 1


def gen_exhaustive(rng, tier):
    """all directed multigraphs (edge SEQUENCES, the insertion order matters) with <= 3 nodes and
    <= 4 edges, every output node (consecutively on one processor, then each from a fresh one for
    the graphs with <= 3 edges), Graph and StableGraph; StableGraph also with one vacant slot."""
    items = []
    rb = rng.fork("exh_nbuf")
    rc = rng.fork("exh_ctor")
    for nn in (1, 2, 3):
        pairs = [(a, b) for a in range(nn) for b in range(nn)]
        for ne in range(0, 5):
            for seq in itertools.product(pairs, repeat=ne):
                edges = [["E", a, b] for a, b in seq]
                allp = []
                for o in range(nn):
                    allp += [["P", o], ["B"]]
                for kind in ("G", "S"):
                    # buffer counts drawn per case (1 node in 6 without buffers, 1 in 6 with two)
                    base = [node_op(rc, 0, pick_nbuf(rb)) for _ in range(nn)] + edges
                    items.append(build(dict(kind=kind, fam="exh", ops=base + allp + [["Q"]])))
                if ne <= 2 or (tier == "thorough" and ne <= 3):
                    base = [["N", 0, 1]] * nn + edges
                    for o in range(1, nn):
                        for kind in ("G", "S"):
                            items.append(build(dict(kind=kind, fam="exh1", ops=base + [["P", o], ["B"]])))
                # every position of a node without buffers (the others alternate 1 / 2 buffers),
                # every output node (also the one without buffers), from a fresh processor each
                if ne <= 2 or (tier == "thorough" and ne <= 3):
                    for z in range(nn):
                        for kind in ("G", "S"):
                            base = [node_op(rc, 0, 0 if j == z else 1 + (j + ne) % 2) for j in range(nn)] + edges
                            items.append(build(dict(kind=kind, fam="exh0", ops=base + allp + [["Q"]])))
    # a node that panics once inside Node::process (the host catches the unwinding and keeps using the
    # same processor): every graph (<= 2 edges quick, <= 3 thorough) x every armed node x every output
    # node of the aborted call, then a call for every output node on the same processor
    for nn in (1, 2, 3):
        pairs = [(a, b) for a in range(nn) for b in range(nn)]
        for ne in range(0, 3 if tier == "quick" else 4):
            for seq in itertools.product(pairs, repeat=ne):
                for arm in range(nn):
                    for o1 in range(nn):
                        base = [node_op(rc, 0, 1 + (j + ne) % 2) for j in range(nn)] + [["E", a, b] for a, b in seq]
                        ops = base + [["A", arm], ["P", o1], ["B"]]
                        for o in range(nn):
                            ops += [["P", o], ["B"]]
                        for kind in ("G", "S"):
                            items.append(build(dict(kind=kind, fam="exhpanic", ops=ops)))
    # every short-hand constructor at every position of every graph with <= 2 edges over <= 3 nodes (the other nodes
    # alternate between the remaining constructors and explicit buffer lists), every output node, sources/sinks;
    # on a StableGraph also a node built by the constructor into a re-used vacant slot
    nctor = 0
    for nn in (1, 2, 3):
        pairs = [(a, b) for a in range(nn) for b in range(nn)]
        for ne in range(0, 3):
            for seq in itertools.product(pairs, repeat=ne):
                for c in (1, 2, 3, 4):
                    for pos in range(nn):
                        nodes = [["C", c, (j + ne) % 2] if j == pos else
                                 (["C", 1 + (c + j) % 4, 0] if (j + ne) % 2 else ["N", (j + c) % 2, (c + j + ne) % 3]) for j in range(nn)]
                        ops = nodes + [["E", a, b] for a, b in seq]
                        for o in range(nn):
                            ops += [["P", o], ["B"]]
                        nctor += 1
                        kind = "GS"[nctor % 2]
                        if kind == "S" and (nctor // 2) % 2 == 0:
                            ops += [["R", pos], ["C", c, 1], ["B"], ["P", pos], ["B"]]
                        items.append(build(dict(kind=kind, fam="exhctor", ops=ops + [["Q"]])))
    # StableGraph with a vacancy: nn live nodes + one removed slot at each position, <= 3 edges
    for nn in (1, 2, 3):
        for vac in range(nn + 1):
            livei = [i for i in range(nn + 1) if i != vac]
            pairs = [(a, b) for a in livei for b in livei]
            for ne in range(0, 4 if nn < 3 else 3):
                for seq in itertools.product(pairs, repeat=ne):
                    # half of the edges before the removal (one of them touching the removed node)
                    pre = [["E", vac, livei[0]], ["E", livei[-1], vac], ["E", vac, vac]]
                    ops = [node_op(rc, 0, pick_nbuf(rb)) for _ in range(nn + 1)] + pre + [["E", a, b] for a, b in seq[:ne // 2]] + [["R", vac]] \
                        + [["E", a, b] for a, b in seq[ne // 2:]]
                    for o in livei:
                        ops += [["P", o], ["B"]]
                    ops += [["Q"], ["P", vac]]
                    items.append(build(dict(kind="S", fam="exhvac", ops=ops)))
    return items


def gen_random(rng, tier):
    items = []
    n_rand = 700 if tier == "quick" else 12000
    for k in range(n_rand):
        r = rng.fork(f"g{k}")
        rc = r.fork("ctor")
        kind = "S" if r.chance(3, 5) else "G"
        nn = r.choice([2, 3, 4, 5, 6, 8, 10, 12, 16, 20, 25, 30, 40])
        dag = r.chance(1, 2)
        dens = r.choice([1, 1, 2, 3])
        ne = min(120, r.range(0, dens * nn))
        sh = Shape()
        ops = []
        for _ in range(nn):
            nb = pick_nbuf(r)
            ops.append(node_op(rc, 1 if r.chance(1, 3) else 0, nb))
            sh.add_node(nb)
        perm = list(range(nn))
        for i in range(nn - 1, 0, -1):          # a random topological order for the DAG family
            j = r.below(i + 1)
            perm[i], perm[j] = perm[j], perm[i]
        rank = {v: i for i, v in enumerate(perm)}
        nrem = r.range(0, 5) if kind == "S" else 0
        rem_at = sorted(r.below(ne + 1) for _ in range(nrem))
        readd = kind == "S" and r.chance(1, 3)
        last = None
        for e in range(ne + 1):
            while rem_at and rem_at[0] == e:
                rem_at.pop(0)
                lv = sh.live_nodes()
                if len(lv) > 1:
                    a = r.choice(lv) if not r.chance(1, 12) else r.below(nn + 2)
                    ops.append(["R", a])
                    sh.remove(a)
                    if readd and r.chance(1, 2):
                        nb = pick_nbuf(r)
                        ops.append(node_op(rc, 1 if r.chance(1, 3) else 0, nb))
                        sh.add_node(nb)
            if e == ne:
                break
            lv = sh.live_nodes()
            if last and last[0] in lv and last[1] in lv and r.chance(1, 8):
                a, b = last                                  # parallel edge
            elif r.chance(1, 15) and not dag:
                a = r.choice(lv)
                b = a                                        # self loop
            else:
                a, b = r.choice(lv), r.choice(lv)
                if dag:
                    if a == b:
                        continue
                    if rank.get(a, a) > rank.get(b, b):
                        a, b = b, a
            ops.append(["E", a, b])
            sh.add_edge(a, b)
            last = (a, b)
        # three consecutive process calls with different output nodes on one processor
        lv = sh.live_nodes()
        sinks = [v for v in lv if not any(a == v for a, b in sh.edges)] or lv
        outs = []
        arming = r.chance(1, 3)
        for c in range(3 + (1 if arming else 0)):
            if arming and c < 2 and lv:
                for _ in range(r.range(1, 2) if c == 0 else r.below(2)):
                    ops.append(["A", r.choice(lv) if not r.chance(1, 15) else r.below(nn + 2)])
            o = r.choice(sinks) if r.chance(1, 2) else r.choice(lv)
            outs.append(o)
            ops += [["P", o], ["B"]]
            if c == 0 and kind == "S" and r.chance(1, 6) and len(sh.live_nodes()) > 1:
                # the graph changes shape between calls
                a = r.choice(sh.live_nodes())
                ops.append(["R", a])
                sh.remove(a)
                lv = sh.live_nodes()
                sinks = [v for v in lv if not any(a == v for a, b in sh.edges)] or lv
        ops.append(["Q"])
        if r.chance(1, 10):
            dead = [i for i, l in enumerate(sh.live) if not l]
            bad = r.choice(dead) if dead and r.chance(1, 2) else len(sh.live) + r.below(3)
            ops.append(["P", bad])
        items.append(build(dict(kind=kind, fam="rand_dag" if dag else "rand_cyc", ops=ops)))
    return items


def load_corpus():
    d = os.path.join(F.VERIF, "corpus", PROP)
    items = []
    if os.path.isdir(d):
        for fn in sorted(os.listdir(d)):
            if fn.endswith(".json"):
                items.append(build(json.load(open(os.path.join(d, fn)))))
    return items


def main(rep, tier, seed):
    rng = F.Rng(seed)
    info = F.standard_proof_phase(rep, PROP)
    okr, rlog = F.coq_make("theories/Graph/GraphRun.vo")
    if not okr:
        rep.violation("model_build", {"kind": "executable model does not compile", "log": rlog[-4000:]}, no_input=True)
        return finish(rep, info, 0, 0, {}, [])
    ok, blog, binpath = F.harness_build("c09")
    if not ok:
        rep.violation("harness_build", {"kind": "harness does not build against /repo", "log": blog[-4000:]}, no_input=True)
        return finish(rep, info, 0, 0, {}, [])
    corpus = load_corpus()
    exh = gen_exhaustive(rng, tier)
    rnd = gen_random(rng, tier)
    items = corpus + exh + rnd
    outl, bad, errors = F.correspond(binpath, items, HEADER, CHECK, "c09", per_file=400)
    rep.extra["build_profiles"] = F.profile_phase(rep, "c09", items, outl, profiles=("release",)) if not errors and len(outl) == len(items) else {}
    for name, msg in errors:
        rep.violation("correspondence_error_" + name.replace("/", "_"), {"kind": "correspondence could not be evaluated", "where": name, "log": msg}, no_input=True)
    feat_hist, fam_hist, size_hist = {}, {}, {}
    nontriv = set()
    calls = 0
    for it in items:
        sh, feats = replay_shape(it["ops"])
        fam_hist[it.get("fam", "corpus") + ":" + it["kind"]] = fam_hist.get(it.get("fam", "corpus") + ":" + it["kind"], 0) + 1
        nb = len(sh.live)
        key = "nodes<=3" if nb <= 3 else "nodes<=10" if nb <= 10 else "nodes<=25" if nb <= 25 else "nodes<=45"
        size_hist[key] = size_hist.get(key, 0) + 1
        allf = set()
        for fs in feats:
            calls += 1
            allf |= fs
            for f in fs:
                feat_hist[f] = feat_hist.get(f, 0) + 1
        if allf & NONTRIVIAL:
            nontriv.add(it["line"])
    ctor_hist, ctor_feeding = {}, 0
    for it in items:
        cslots = set()
        sh2 = Shape()
        for o in it["ops"]:
            if o[0] == "C":
                ctor_hist[CTOR_NAMES[o[1]]] = ctor_hist.get(CTOR_NAMES[o[1]], 0) + 1
                cslots.add(sh2.add_node(CTOR_NBUF[o[1]]))
            elif o[0] == "N":
                ctor_hist["NodeData::boxed (explicit buffer list)"] = ctor_hist.get("NodeData::boxed (explicit buffer list)", 0) + 1
                cslots.discard(sh2.add_node(o[2]))
            elif o[0] == "E":
                if o[1] in cslots and o[1] != o[2]:
                    ctor_feeding += 1      # a node made by a short-hand constructor is presented as an input
                sh2.add_edge(o[1], o[2])
            elif o[0] == "R":
                sh2.remove(o[1])
                cslots.discard(o[1])
    invocations = sum(o.count(";11 ") for o in outl)
    aborted_calls, calls_after_abort = 0, 0
    for it, o in zip(items, outl):
        parts = o.split(";")
        seen17 = False
        for q in parts:
            if q.startswith("17 "):
                aborted_calls += 1
                seen17 = True
            elif q.startswith("10 ") and seen17:
                calls_after_abort += 1
        if seen17 and not errors:
            # reuse of the processor after a call aborted by a node panic
            idx17 = min(i for i, q in enumerate(parts) if q.startswith("17 "))
            if any(q.startswith("10 ") for q in parts[idx17:]):
                nontriv.add(it["line"])
    panics = sum(1 for o in outl if o.endswith(";8 3") or o.endswith(";8 4") or o in ("8 3", "8 4"))
    for idx in bad[:3]:
        it = items[idx]

        def fails(c):
            o, b, e = F.correspond(binpath, [c], HEADER, CHECK, "c09_shrink")
            return bool(b) and not e

        small = F.shrink_ops(it, build, fails)
        rc, out, _ = F.run_bin(binpath, [small["line"]])
        _, model = F.coq_eval("c09", HEADER, f"run_case ({small['coq']})")
        rep.violation(f"case{idx}", {
            "kind": "model/implementation disagreement: dasp_graph::Processor::process / sources / sinks / the NodeData constructors do not behave as the proved model (invocation order, inputs, buffers, what a constructor made, sources or sinks differ)",
            "case": {"kind": small["kind"], "ops": small["ops"]},
            "harness_line": small["line"], "implementation_observations": out, "model_observations": model[-3000:],
            "original_case_index": idx, "replay": "./check.py C09 --replay <this file>"})
    dist = {"families": fam_hist, "sizes": size_hist, "process_call_features": feat_hist, "process_calls": calls,
            "node_invocations_observed": invocations, "calls_aborted_by_node_panic": aborted_calls,
            "process_calls_after_an_aborted_call_same_processor": calls_after_abort, "panicking_calls_observed": panics,
            "exhaustive_cases": len(exh), "random_cases": len(rnd), "corpus_cases": len(corpus),
            "nodes_by_constructor": ctor_hist, "edges_out_of_a_short_hand_constructed_node": ctor_feeding,
            "source_regions_never_entered": cov_regions.load(PROP)}
    samples = [items[i]["line"] for i in (len(corpus), len(corpus) + len(exh) // 2, len(items) - 1)] if items else []
    return finish(rep, info, len(items), len(nontriv) if not errors else 0, dist, samples, bad)


def finish(rep, info, n, nontriv, dist, samples, bad=()):
    th = info.get("theorems", [])
    cov = {
        "obligations": max(1, len(th)), "discharged": len(th) if info.get("coq_ok") else 0,
        "checker_cmd": "make -f Makefile.coq props/C09.vo (coqc 8.16.1, full .vo) + Print Assumptions audit",
        "trusted_base": F.TRUSTED_COMMON + ["axioms: none (every theorem of props/C09.v is closed under the global context)",
                                           "modelled, not verified: petgraph 0.5.1 Graph/StableGraph containers (adjacency lists as an edge list read newest-first, vacancies, free list, node_bound), FixedBitSet as a set plus a length, the DfsPostOrder loop transcribed from visit/traversal.rs:199-220; raw-pointer Inputs as the neighbour's buffers at call time"],
        "theorems": th, "axioms_reported": info.get("axioms", []),
        "evaluations": n, "distinct_nontrivial": nontriv,
        "rule": "exhaustive: every edge sequence over <= 3 nodes with <= 4 edges (self-loops, doubled edges) x every output node, Graph and StableGraph, plus StableGraph with one vacant slot at every position, plus (<= 2 edges quick, <= 3 thorough) a node WITHOUT output buffers at every position (also as the output node); nodes have 0, 1 or 2 output buffers (1 in 6 none, 1 in 6 two) in every family; half of the nodes with 1 or 2 buffers are built by the short-hand constructors NodeData::new1 / new2 / boxed1 / boxed2 (what the constructor made -- number of buffers, all samples silent -- is observed before the harness writes into the buffers, and the model computes both from its definition of the constructor), the others by NodeData::boxed with an explicit buffer list; exhaustive (<= 2 edges): every short-hand constructor at every node position x every output node, on StableGraph also into a re-used vacant slot; random: graphs to 40 nodes / 120 edges, DAG and cyclic, 0-5 removed nodes (slots re-used by later add_node), three consecutive process calls on one Processor, occasional invalid output node, in 1 of 3 random cases one or two nodes armed to panic once inside Node::process (unwinding caught, same Processor used again); exhaustive (<= 2 edges quick, <= 3 thorough): every armed node x every output node of the aborted call x a further call for every output node; non-trivial = some process call whose upstream subgraph has a cycle, a parallel edge, a self-loop or a node with two paths to the output, or whose graph has a vacancy, or whose upstream subgraph contains a node without buffers, or a process call made on a processor whose previous call was aborted by a node panic",
        "samples": samples, "input_distribution": dist, "disagreements": len(bad),
        "explanation": "theorems: for all multigraphs and output nodes (see props/C09.v); tie: the model's executable definitions run by coqc on the same scripts as the real crate; invocation order (logged inside Node::process), number of buffers each input shows, input identities in order, values seen, final buffers, call counts, buffer counts, what each short-hand NodeData constructor made, sources and sinks compared exactly",
    }
    return rep.finish("proof", cov, ["petgraph's containers are modelled (edge order, vacancies, free list), not verified",
                                    "node identities are read from a sentinel each instrumented node keeps in its buffer; usize as unbounded nat"])


def replay(path):
    j = json.load(open(path))
    it = build(j["case"])
    ok, blog, binpath = F.harness_build("c09")
    rc, out, _ = F.run_bin(binpath, [it["line"]])
    _, model = F.coq_eval("c09", HEADER, f"run_case ({it['coq']})")
    print("case:", it["line"])
    print("implementation:", out)
    print("model:", model)
    o, bad, errs = F.correspond(binpath, [it], HEADER, CHECK, "c09_replay")
    print("AGREE" if not bad and not errs else "DISAGREE")
    return 1 if bad or errs else 0
