"""C13 — Bus feeds every output a gap-free stream and retains only what laggards need.
Proof: coq/props/C13.v (model of dasp_signal::bus::SharedNode written after the source; invariant for
every reachable state; per-output stream, pending count, pull-once, backlog = slowest lag, for every
finite send/next/pending/drop schedule).  Tie: the model's executable definitions (Signal/BusRun.v,
evaluated by coqc) against the real `signal.bus()` on the same schedules, observing returned frames,
the pull counter of an instrumented source, pending_frames of every live output and the backlog
length through the hook Bus::verif_backlog_len()."""
import json, os
import framework as F

PROP = "C13"
META = dict(
    technique="Coq refinement proof (SharedNode model -> per-output stream positions, all schedules) + coqc-evaluated model vs crate correspondence incl. backlog hook",
    text="Machine-checked (Coq 8.16.1, no axioms) proof over a model of dasp_signal::bus written after the source (VecDeque backlog, BTreeMap of read offsets, next_key): for every finite schedule of send/next/pending_frames/drop on any number of outputs, no panic unless a dropped/unknown key is used, each output receives source frames attach, attach+1, ... (attach = source pull count at send), pending = pulled - position, the set of source frames pulled equals the set delivered (one pull per distinct frame, only on demand), and the backlog is exactly the pulled frames the slowest live output still lacks (empty when all caught up or none live). The model is tied to the crate by running it inside coqc on the same schedules (all to depth 7 over <=3 live outputs, random 500-op schedules over <=6) and comparing every frame, the source pull counter, every pending count and the hooked backlog length after every operation. A long-lag family (a leader pulls 65535..200000 frames, thorough 2^20+3, while a laggard pulls nothing) is too long for the list-based model inside coqc; there the verdict is theorem-derived: the observations are computed in closed form from c13_stream / c13_pending / c13_pull_once / c13_backlog and compared exactly with the crate (reduced instances run through both the model and the closed form). Sources: endless gen_mut, finite from_iter (look-ahead exhaustion) and gen.add_amp(from_iter) which keeps producing after it reports exhaustion; operations also include Output::is_exhausted (modelled after the source in Signal/BusExh.v, theorem c13_exhausted) and dropping the Bus handle while outputs live on; every output is pulled well past the end of the source.",
    note="Trusted: Coq kernel; the hand-written model (VecDeque as list, BTreeMap as association list, usize as nat: next_key wrap-around after 2^64 sends and frames_read+1 overflow are outside the model; source = function nat -> frame with a pull counter) validated only through the correspondence; harness + python generators; hook Bus::verif_backlog_len (cfg rustaudio_dasp_verif). Axioms: none.",
    design="6/C13")
HEADER = "From Dasp Require Import Signal.BusRun."
CHECK = "check"
TAG = "c13"


PER_FILE = 100  # cases per coqc process: the 500-op cases are large terms; keeps each coqc below ~300 MB


def correspond(binpath, items, tag):
    """F.correspond with smaller coqc shards (same helpers: run_bin_parallel + coq_check_cases)."""
    rc, outl, err = F.run_bin_parallel(binpath, [it["line"] for it in items])
    errors = []
    if rc != 0 or len(outl) != len(items):
        errors.append(("harness", f"rc={rc} lines={len(outl)}/{len(items)} stderr={err[-1500:]}"))
        return outl, [], errors
    terms = []
    for it, o in zip(items, outl):
        try:
            terms.append(f"({it['coq']}, {F.zlistlist(F.norm_obs_line(o))})")
        except ValueError:
            errors.append(("harness", f"unparsable observation line {o[:200]!r} for {it['line'][:200]!r}"))
            return outl, [], errors
    bad, cerrs = F.coq_check_cases(tag, HEADER, CHECK, terms, per_file=PER_FILE)
    return outl, bad, errors + cerrs


def coq_op(o):
    return {"s": lambda: "ZSend", "n": lambda: f"ZNext {F.zlit(o[1])}", "p": lambda: f"ZPending {F.zlit(o[1])}",
            "d": lambda: f"ZDrop {F.zlit(o[1])}", "R": lambda: f"ZRun {F.zlit(o[1])} {F.zlit(o[2])}",
            "e": lambda: f"ZExh {F.zlit(o[1])}", "b": lambda: "ZDropBus"}[o[0]]()


def build(item, ops=None):
    """item: kind (family name), ops, optional src = [source kind, L] (default [0, 0]: endless gen_mut)"""
    it = dict(item)
    if ops is not None:
        it["ops"] = ops
    sk, sl = it.get("src", [0, 0])
    body = " , ".join(" ".join(str(t) for t in o) for o in it["ops"])
    ops_coq = "[" + "; ".join(coq_op(o) for o in it["ops"]) + "]"
    if sk == 0:
        it["line"] = body
        it["coq"] = f"BusCase {ops_coq}"
    else:
        it["line"] = f"K {sk} {sl} ; {body}"
        it["coq"] = f"BusCaseX {F.zlit(sk)} {F.zlit(sl)} {ops_coq}"
    return it


def src_frame(src, j):
    sk, sl = src
    if sk == 0:
        return 1000 + j
    if sk == 1:
        return 1000 + j if j < sl else 0
    return 5000 + 7 * j + (100 + j if j < sl else 0)


def src_exhausted(src, pulled):
    return src[0] != 0 and pulled >= src[1]


# ---------------------------------------------------------------------------------------------
# a tiny abstract simulator used ONLY by the generator to aim at scenarios (slowest / fastest
# output, caught-up states); it is not an oracle: observations are compared with the Coq model.
class Sim:
    def __init__(self):
        self.pulled = 0
        self.pos = []  # per slot: position or None
        self.bus = True

    def live(self):
        return [i for i, p in enumerate(self.pos) if p is not None]

    def apply(self, o):
        if o[0] == "s":
            if self.bus:
                self.pos.append(self.pulled)
        elif o[0] == "b":
            self.bus = False
        elif o[0] == "n":
            i = o[1]
            if i < len(self.pos) and self.pos[i] is not None:
                self.pos[i] += 1
                self.pulled = max(self.pulled, self.pos[i])
        elif o[0] == "d":
            i = o[1]
            if i < len(self.pos):
                self.pos[i] = None

        elif o[0] == "R":
            i = o[1]
            if i < len(self.pos) and self.pos[i] is not None:
                self.pos[i] += o[2]
                self.pulled = max(self.pulled, self.pos[i])

    def slowest(self):
        l = self.live()
        return min(l, key=lambda i: (self.pos[i], i)) if l else None

    def fastest(self):
        l = self.live()
        return max(l, key=lambda i: (self.pos[i], -i)) if l else None


# ---------------------------------------------------------------------------------------------
# THEOREM-DERIVED verdict (used for the long-lag family, whose 10^5..10^6-op schedules are too long
# to run the list-based Coq model inside coqc).  For a schedule that only addresses live outputs the
# proved theorems determine every observation in closed form:
#   c13_stream / c13_attach : the i-th frame output k receives is source frame attach_k + i, where
#                             attach_k = source pull count at its send  (source frame j = 1000 + j);
#   c13_pending             : pending_k = pulled - (attach_k + received_k);
#   c13_pull_once / c13_next: pulled = max over outputs ever attached of attach_k + received_k
#                             (a next at position p pulls iff p = pulled);
#   c13_backlog             : backlog = pulled - min over live k of (attach_k + received_k), 0 if none live;
#   c13_no_panic            : no panic.
# position_k = attach_k + received_k is what Sim.pos tracks.  The same closed form is also compared
# with the harness on EVERY case of the check, including all those run through the Coq model, which
# ties the closed form to the model on the regular and the reduced long-lag (bridge) instances.
def theorem_observations(ops, src=(0, 0)):
    sim = Sim()
    out = []
    for o in ops:
        i = o[1] if len(o) > 1 else 0
        live = i < len(sim.pos) and sim.pos[i] is not None
        if o[0] == "s":
            head = [1, len(sim.pos)] if sim.bus else [9]
        elif o[0] == "b":
            head = [7] if sim.bus else [9]
        elif not live:
            head = [9]
        elif o[0] == "n":
            head = [2, src_frame(src, sim.pos[i])]
        elif o[0] == "p":
            head = [3, sim.pulled - sim.pos[i]]
        elif o[0] == "e":
            # c13_exhausted: received everything pulled so far and the source reports exhaustion
            head = [6, int(sim.pulled == sim.pos[i] and src_exhausted(src, sim.pulled))]
        elif o[0] == "d":
            head = [4]
        elif o[0] == "R":
            if o[2] == 0:
                head = [5, -1, -1, 0]
            elif src[0] == 0:
                head = [5, 1000 + sim.pos[i], 1000 + sim.pos[i] + o[2] - 1, 0]
            else:
                fs = [src_frame(src, sim.pos[i] + k) for k in range(o[2])]
                head = [5, fs[0], fs[-1], sum(1 for a, b in zip(fs, fs[1:]) if b != a + 1)]
        sim.apply(o)
        lv = sim.live()
        backlog = (sim.pulled - min(sim.pos[k] for k in lv) if lv else 0) if sim.bus else -3
        snap = [sim.pulled, backlog] + [(-1 if p is None else sim.pulled - p) for p in sim.pos]
        if src[0] != 0:
            snap += [(-1 if p is None else int(sim.pulled == p and src_exhausted(src, sim.pulled))) for p in sim.pos]
        out.append(head + snap)
    return out


def theorem_mismatch(item, obs_line):
    """index of the first op whose observation differs from the closed form, or None."""
    try:
        got = F.norm_obs_line(obs_line)
    except ValueError:
        return 0
    exp = theorem_observations(item["ops"], tuple(item.get("src", [0, 0])))
    if got == exp:
        return None
    for k, (g, e) in enumerate(zip(got, exp)):
        if g != e:
            return k
    return min(len(got), len(exp))


def long_lag_cases(tier):
    """leader A (slot 0), laggard B (slot 1, not pulled during the lead phase), optionally C attached mid-way;
    A pulls N frames in one compact run; observe; B pulls its first 3 frames (for some N everything);
    the laggard is dropped: the backlog must fall to the next-slowest lag."""
    ns = [65535, 65536, 65537, 70001, 200000] + ([2 ** 20 + 3] if tier == "thorough" else [])
    cases = []
    for n in ns:
        # two outputs
        cases.append([["s"], ["s"], ["R", 0, n], ["p", 0], ["p", 1], ["R", 1, 3], ["p", 1], ["d", 1], ["n", 0]])
        # C attached mid-way, pulls a little; laggard dropped -> backlog = lag of C
        h = n // 2
        cases.append([["s"], ["s"], ["R", 0, h], ["s"], ["R", 0, n - h], ["R", 2, 5], ["p", 1], ["p", 2],
                      ["R", 1, 3], ["d", 1], ["p", 2], ["R", 2, 4], ["d", 0], ["n", 2]])
    # crossing the 65536 / 65537 boundary frame by frame, B having pulled a few frames first
    cases.append([["s"], ["s"], ["n", 1], ["n", 1], ["R", 0, 65535], ["n", 0], ["n", 0], ["n", 0], ["n", 0], ["n", 0],
                  ["p", 1], ["n", 1], ["n", 1], ["n", 1], ["d", 1]])
    # the laggard drains everything (all frames must be the contiguous run), then both in step
    for n in ([70001] if tier == "quick" else [70001, 2 ** 20 + 3]):
        cases.append([["s"], ["s"], ["R", 0, n], ["R", 1, 3], ["R", 1, n - 3], ["p", 1], ["n", 1], ["n", 0], ["R", 0, 10], ["R", 1, 10]])
    # the leader is dropped while the laggard is far behind: nothing may be trimmed
    cases.append([["s"], ["s"], ["R", 0, 65537], ["d", 0], ["p", 1], ["R", 1, 65537], ["n", 1]])
    return [build(dict(kind="longlag", ops=ops)) for ops in cases]


def bridge_cases():
    """reduced instances of the long-lag family, run through the Coq model AND the closed form"""
    cases = []
    for n in (300, 2500):
        h = n // 2
        cases.append([["s"], ["s"], ["R", 0, n], ["p", 0], ["p", 1], ["R", 1, 3], ["p", 1], ["d", 1], ["n", 0]])
        cases.append([["s"], ["s"], ["R", 0, h], ["s"], ["R", 0, n - h], ["R", 2, 5], ["p", 1], ["p", 2],
                      ["R", 1, 3], ["d", 1], ["p", 2], ["R", 2, 4], ["d", 0], ["n", 2]])
        cases.append([["s"], ["s"], ["R", 0, n], ["R", 1, 3], ["R", 1, n - 3], ["p", 1], ["n", 1], ["n", 0], ["R", 0, 10], ["R", 1, 10], ["R", 1, 0], ["R", 5, 2]])
    return [build(dict(kind="bridge", ops=ops)) for ops in cases]


def exhaustive(depth, maxlive):
    """every maximal valid schedule of exactly `depth` ops (send while < maxlive outputs are live;
    next/drop on every live output); observations after every op make every prefix a checked case."""
    out = []

    def go(ops, live, sends):
        if len(ops) == depth:
            out.append(list(ops))
            return
        if len(live) < maxlive:
            ops.append(["s"])
            go(ops, live + [sends], sends + 1)
            ops.pop()
        for i in live:
            ops.append(["n", i])
            go(ops, live, sends)
            ops.pop()
            ops.append(["d", i])
            go(ops, [j for j in live if j != i], sends)
            ops.pop()

    go([], [], 0)
    return out


def exhaustive_x(depth, maxlive):
    """as `exhaustive`, plus `b` (drop the Bus handle, once, after at least one send; no send afterwards);
    is_exhausted of every live output is part of the observation after every op for finite sources."""
    out = []

    def go(ops, live, sends, bus):
        if len(ops) == depth:
            out.append(list(ops))
            return
        moved = False
        if bus and len(live) < maxlive:
            ops.append(["s"])
            go(ops, live + [sends], sends + 1, bus)
            ops.pop()
            moved = True
        if bus and sends > 0:
            ops.append(["b"])
            go(ops, live, sends, False)
            ops.pop()
            moved = True
        for i in live:
            moved = True
            ops.append(["n", i])
            go(ops, live, sends, bus)
            ops.pop()
            ops.append(["d", i])
            go(ops, [j for j in live if j != i], sends, bus)
            ops.pop()
        if not moved:
            out.append(list(ops))

    go([], [], 0, True)
    return out


def exhaustive_x_families(tier):
    """(source, depth, maxlive): finite from_iter sources (L = 0: exhausted from the start), the composite that
    keeps producing after it reports exhaustion, and the endless source with the Bus handle dropped"""
    if tier == "quick":
        return [([1, 1], 6, 3), ([2, 1], 6, 3), ([0, 0], 6, 2), ([1, 0], 6, 2), ([1, 2], 6, 2)]
    return [(src, 7, 3) for src in ([0, 0], [1, 0], [1, 1], [1, 2], [1, 3], [2, 0], [2, 1], [2, 3])]


PROFILES = ["mixed", "lockstep", "never_pulled", "drop_slowest", "drop_fastest", "reattach", "monitor", "dead_slots"]


def random_schedule(r, profile, nops, maxlive, maxsends, exh=False, bus_drop_at=None):
    """exh: sprinkle is_exhausted queries; bus_drop_at: op index at which the Bus handle is dropped"""
    sim = Sim()
    ops = []

    def emit(o):
        if bus_drop_at is not None and sim.bus and len(ops) >= bus_drop_at and o[0] != "b":
            ops.append(["b"])
            sim.apply(["b"])
            if o[0] == "s":
                return
        if exh and r.chance(1, 12) and sim.pos:
            q = ["e", r.below(len(sim.pos) + (1 if r.chance(1, 10) else 0))]
            ops.append(q)
        ops.append(o)
        sim.apply(o)

    idle = set()  # outputs that never pull
    emit(["s"])
    while len(ops) < nops:
        live = sim.live()
        can_send = sim.bus and len(live) < maxlive and len(sim.pos) < maxsends
        if not live:
            if can_send:
                emit(["s"])
                continue
            # nothing can be attached any more: only dead-slot ops remain
            emit([r.choice(["n", "p", "d"]), r.below(len(sim.pos) + 1)])
            continue
        pullers = [i for i in live if i not in idle] or live
        x = r.below(100)
        if profile == "lockstep":
            if x < 6 and can_send:
                emit(["s"])
            elif x < 9 and len(live) > 1:
                emit(["d", r.choice(live)])
            else:
                blk = r.range(1, 4)
                for i in live:
                    for _ in range(blk):
                        emit(["n", i])
        elif profile == "never_pulled":
            if x < 8 and can_send:
                emit(["s"])
                if r.chance(1, 2):
                    idle.add(len(sim.pos) - 1)
            elif x < 12:
                emit(["d", r.choice(live)])
            elif x < 20:
                emit(["p", r.choice(live)])
            else:
                emit(["n", r.choice(pullers)])
        elif profile == "drop_slowest":
            if x < 10 and can_send:
                emit(["s"])
            elif x < 20:
                emit(["d", sim.slowest()])
            else:
                # bias pulls to the fast ones so that a laggard builds up
                f = sim.fastest()
                emit(["n", f if r.chance(2, 3) else r.choice(live)])
        elif profile == "drop_fastest":
            if x < 10 and can_send:
                emit(["s"])
            elif x < 20 and len(live) > 1:
                emit(["d", sim.fastest()])
            else:
                f = sim.fastest()
                emit(["n", f if r.chance(1, 2) else r.choice(live)])
        elif profile == "reattach":
            if x < 10 and can_send:
                emit(["s"])
            elif x < 16:
                for i in live:  # drop everything, then attach again
                    emit(["d", i])
                if sim.bus and len(sim.pos) < maxsends:
                    emit(["s"])
            elif x < 22:
                emit(["d", r.choice(live)])
            else:
                emit(["n", r.choice(live)])
        elif profile == "monitor":
            # one output drains only what is pending (the doc example's monitor)
            if x < 8 and can_send:
                emit(["s"])
            elif x < 12 and len(live) > 1:
                emit(["d", r.choice(live)])
            elif x < 40:
                m = live[-1]
                emit(["p", m])
                lag = sim.pulled - sim.pos[m]
                for _ in range(min(lag, r.range(0, 5))):
                    emit(["n", m])
            else:
                emit(["n", r.choice(live[:-1] or live)])
        elif profile == "dead_slots":
            if x < 10 and can_send:
                emit(["s"])
            elif x < 25:
                emit(["d", r.below(len(sim.pos) + 1)])
            elif x < 40:
                emit([r.choice(["n", "p"]), r.below(len(sim.pos) + 2)])
            else:
                emit(["n", r.choice(live)])
        else:  # mixed
            if x < 10 and can_send:
                emit(["s"])
            elif x < 18:
                emit(["d", r.choice(live)])
            elif x < 28:
                emit(["p", r.choice(live)])
            else:
                emit(["n", r.choice(live)])
    return ops[:nops]


def gen_cases(rng, tier):
    items = []
    depth = 7 if tier == "quick" else 9
    for ops in exhaustive(depth, 3):
        items.append(build(dict(kind=f"exh{depth}", ops=ops)))
    for src, d, ml in exhaustive_x_families(tier):
        for ops in exhaustive_x(d, ml):
            items.append(build(dict(kind=f"exhx{d}_src{src[0]}_{src[1]}", ops=ops, src=src)))
    n_exh = len(items)
    n_rand = 160 if tier == "quick" else 2000
    rand = []
    for k in range(n_rand):
        r = rng.fork(f"sched{k}")
        profile = PROFILES[k % len(PROFILES)]
        nops = 500 if k % 4 else r.choice([20, 60, 150, 500])
        maxlive = r.choice([2, 3, 4, 5, 6, 6])
        maxsends = r.choice([6, 10, 16, 24])
        # every second schedule: a finite / composite source that gets exhausted, is_exhausted queries, and
        # (every fourth) the Bus handle dropped somewhere in the first half
        src, exh, bda = [0, 0], False, None
        if (k // len(PROFILES)) % 2 == 1:
            src = [r.choice([1, 1, 2]), r.choice([0, 1, 3, 10, 40, 120])]
            exh = True
        if (k // len(PROFILES)) % 4 >= 2:
            bda = r.range(2, max(3, nops // 2))
        rand.append(build(dict(kind=profile + ("_fin" if src[0] else "") + ("_busdrop" if bda is not None else ""), src=src,
                               ops=random_schedule(r, profile, nops, maxlive, maxsends, exh, bda))))
    # the long schedules are spread evenly among the short ones (the coqc shards are contiguous slices)
    merged, stride = [], max(1, len(items) // max(1, len(rand)))
    ri = 0
    for i, it in enumerate(items):
        if i % stride == 0 and ri < len(rand):
            merged.append(rand[ri])
            ri += 1
        merged.append(it)
    merged += rand[ri:]
    return bridge_cases() + merged, n_exh


HEAD_LEN = {1: 2, 2: 2, 3: 2, 4: 1, 9: 1, 8: 2, 5: 4, 6: 2, 7: 1}


def analyse(item, obs_line):
    """From the implementation's observations: which state-dependent situations occurred.
    lag2: a next() by one output while another live output has >= 2 pending frames;
    dropslow: a live output whose pending equals the (non-empty) backlog is dropped;
    also: pop branch (backlog shrinks on next), read-from-backlog (next without a pull)."""
    flags = set()
    prev = None
    for o, ob in zip(item["ops"], obs_line.split(";")):
        t = [int(x) for x in ob.split()]
        if not t:
            continue
        hl = HEAD_LEN.get(t[0], 1)
        pulls, backlog, pend = t[hl], t[hl + 1], t[hl + 2:]
        if item.get("src", [0, 0])[0] != 0:
            exh_flags = pend[len(pend) // 2:]
            pend = pend[:len(pend) // 2]
            if backlog > 0 and any(e == 1 for e in exh_flags):
                flags.add("exhausted_while_sibling_lags")
            if src_exhausted(item["src"], pulls):
                flags.add("source_exhausted")
                if t[0] in (2, 5) and prev is not None and pulls > prev[0]:
                    flags.add("pull_after_exhaustion")
        if backlog == -3:
            flags.add("bus_dropped")
            backlog = max([p for p in pend if p >= 0] or [0])
        if t[0] in (2, 5):
            i = o[1]
            if any(p >= 2 for j, p in enumerate(pend) if j != i):
                flags.add("lag2")
            if prev is not None:
                if prev[0] == pulls:
                    flags.add("read_backlog")
                if backlog < prev[1] or (backlog == prev[1] and pulls > prev[0] and backlog > 0):
                    flags.add("pop_front")
        if t[0] == 4 and prev is not None:
            i = o[1]
            if prev[1] > 0 and i < len(prev[2]) and prev[2][i] == prev[1]:
                flags.add("dropslow")
                if backlog < prev[1]:
                    flags.add("drop_trims")
        if t[0] == 9:
            flags.add("dead_slot_op")
        if t[0] == 8:
            flags.add("panic")
        prev = (pulls, backlog, pend)
    return flags


def nontrivial(flags):
    return "lag2" in flags or "dropslow" in flags


def load_corpus():
    d = os.path.join(F.VERIF, "corpus", PROP)
    items = []
    if os.path.isdir(d):
        for fn in sorted(os.listdir(d)):
            if fn.endswith(".json"):
                items.append(build(json.load(open(os.path.join(d, fn)))))
    return items


def main(rep, tier, seed):
    rng = F.Rng(seed)
    info = F.standard_proof_phase(rep, PROP)
    ok, blog, binpath = F.harness_build("c13")
    if not ok:
        rep.violation("harness_build", {"kind": "harness does not build against /repo (is the hook Bus::verif_backlog_len present?)",
                                        "log": blog[-4000:]}, no_input=True)
        return finish(rep, info, 0, 0, {}, [])
    corpus = load_corpus()
    items, n_exh = gen_cases(rng, tier)
    items = corpus + items
    outl, bad, errors = correspond(binpath, items, TAG)
    rep.extra["build_profiles"] = F.profile_phase(rep, "c13", items, outl, profiles=("release",)) if not errors and len(outl) == len(items) else {}
    for name, msg in errors:
        rep.violation("correspondence_error_" + name.replace("/", "_"),
                      {"kind": "correspondence could not be evaluated", "where": name, "log": msg}, no_input=True)
    hist, kinds, flagc = {}, {}, {}
    nontriv = set()
    nops = 0
    if not errors:
        for it, o in zip(items, outl):
            kinds[it["kind"]] = kinds.get(it["kind"], 0) + 1
            for op in it["ops"]:
                hist[op[0]] = hist.get(op[0], 0) + 1
            nops += len(it["ops"])
            fl = analyse(it, o)
            for f_ in fl:
                flagc[f_] = flagc.get(f_, 0) + 1
            if nontrivial(fl):
                nontriv.add(it["line"])
    for idx in bad[:3]:
        it = items[idx]

        def fails(c):
            o, b, e = correspond(binpath, [c], TAG + "_shrink")
            return bool(b) and not e

        small = F.shrink_ops(it, build, fails)
        rc, out, _ = F.run_bin(binpath, [small["line"]])
        _, model = F.coq_eval(TAG, HEADER, f"run_case ({small['coq']})")
        rep.violation(f"case{idx}", {
            "kind": "model/implementation disagreement: dasp_signal::bus does not behave as the model proved to feed every output a gap-free stream with backlog = slowest lag",
            "case": {"kind": small["kind"], "ops": small["ops"], "src": small.get("src", [0, 0])},
            "harness_line": small["line"], "implementation_observations": out, "model_observations": model[-3000:],
            "observation_format": "per op: tag payload | source pulls | backlog (hook) | pending of every slot (-1 dropped); tags 1 send 2 next 3 pending 4 drop 9 slot empty 8 panic",
            "original_case_index": idx, "replay": "./check.py C13 --replay <this file>"})
    # --- closed form (theorem-derived) against the implementation: on every model-run case, and as the
    #     only verdict on the long-lag family
    ll = long_lag_cases(tier)
    ll_info = long_lag_phase(rep, binpath, ll)
    cf_checked, cf_bad = 0, []
    if not errors:
        badset = set(bad)
        for idx, (it, o) in enumerate(zip(items, outl)):
            if idx in badset:
                continue
            cf_checked += 1
            if theorem_mismatch(it, o) is not None:
                cf_bad.append(idx)
        for idx in cf_bad[:2]:
            it = items[idx]
            report_closed_form(rep, binpath, it, f"closedform{idx}")
    if ll_info["ran"]:
        for it, o in zip(ll, ll_info["out"]):
            kinds[it["kind"]] = kinds.get(it["kind"], 0) + 1
            for op in it["ops"]:
                hist[op[0]] = hist.get(op[0], 0) + 1
            nops += sum(op[2] if op[0] == "R" else 1 for op in it["ops"])
            fl = analyse(it, o)
            for f_ in fl:
                flagc[f_ + "_longlag"] = flagc.get(f_ + "_longlag", 0) + 1
            if nontrivial(fl):
                nontriv.add(it["line"])
    dist = {"long_lag": {"cases": len(ll), "lead_lengths": sorted({op[2] for it in ll for op in it["ops"] if op[0] == "R" and op[2] > 1000}),
                         "verdict": "theorem-derived closed form (c13_stream, c13_attach, c13_pending, c13_pull_once, c13_next, c13_backlog, c13_no_panic), NOT a model run",
                         "disagreements": ll_info["bad"], "max_backlog_observed": ll_info["max_backlog"]},
            "closed_form_also_checked_on_model_run_cases": cf_checked, "closed_form_disagreements_there": len(cf_bad),
            "bridge_cases_model_and_closed_form": kinds.get("bridge", 0),
            "ops_histogram": hist, "case_kinds": kinds, "exhaustive_schedules": n_exh,
            "random_schedules": len(items) - n_exh - len(corpus) - kinds.get("bridge", 0), "corpus_cases": len(corpus),
            "operations_total": nops, "cases_reaching": flagc}
    samples = [items[i]["line"][:400] for i in (len(corpus), len(corpus) + 1, len(items) - 1)] if items else []
    samples.append(ll[0]["line"])
    return finish(rep, info, len(items) + (len(ll) if ll_info["ran"] else 0), len(nontriv), dist, samples,
                  list(bad) + cf_bad + [0] * ll_info["bad"], tier)


def closed_form_fails(binpath):
    def fails(c):
        rc, out, _ = F.run_bin(binpath, [c["line"]])
        return rc == 0 and len(out) == 1 and theorem_mismatch(c, out[0]) is not None
    return fails


def report_closed_form(rep, binpath, it, name):
    small = F.shrink_ops(it, build, closed_form_fails(binpath))
    rc, out, _ = F.run_bin(binpath, [small["line"]])
    exp = theorem_observations(small["ops"], tuple(small.get("src", [0, 0])))
    k = theorem_mismatch(small, out[0]) if out else 0
    rep.violation(name, {
        "kind": "dasp_signal::bus contradicts the proved C13 theorems: an observation differs from the value c13_stream / c13_pending / c13_pull_once / c13_backlog determine (gap-free stream from the attach position, pending = pulled - position, backlog = pulled - slowest position)",
        "case": {"kind": small["kind"], "ops": small["ops"], "src": small.get("src", [0, 0])}, "harness_line": small["line"],
        "first_differing_op_index": k, "first_differing_op": small["ops"][k] if k is not None and k < len(small["ops"]) else None,
        "implementation_observations": out,
        "theorem_derived_observations": ";".join(" ".join(map(str, e)) for e in exp),
        "observation_format": "per op: tag payload | source pulls | backlog (hook) | pending of every slot (-1 dropped); tags 1 send 2 next(frame) 3 pending 4 drop 5 run(first last breaks) 9 slot empty 8 panic",
        "replay": "./check.py C13 --replay <this file>"})


def long_lag_phase(rep, binpath, ll):
    rc, out, err = F.run_bin_parallel(binpath, [it["line"] for it in ll])
    if rc != 0 or len(out) != len(ll):
        rep.violation("long_lag_harness", {"kind": "harness failed on the long-lag family", "log": f"rc={rc} lines={len(out)}/{len(ll)} {err[-1500:]}"}, no_input=True)
        return {"ran": False, "out": [], "bad": 0, "max_backlog": 0}
    badk = [k for k, (it, o) in enumerate(zip(ll, out)) if theorem_mismatch(it, o) is not None]
    for k in badk[:3]:
        report_closed_form(rep, binpath, ll[k], f"longlag{k}")
    mb = 0
    for o in out:
        try:
            for ob in F.norm_obs_line(o):
                hl = HEAD_LEN.get(ob[0], 1)
                mb = max(mb, ob[hl + 1])
        except (ValueError, IndexError):
            pass
    return {"ran": True, "out": out, "bad": len(badk), "max_backlog": mb}


def finish(rep, info, n, nontriv, dist, samples, bad=(), tier="quick"):
    th = info.get("theorems", [])
    depth = 7 if tier == "quick" else 9
    cov = {
        "obligations": max(1, len(th)), "discharged": len(th) if info.get("coq_ok") else 0,
        "checker_cmd": "make -f Makefile.coq props/C13.vo (coqc 8.16.1, full .vo) + Print Assumptions audit",
        "trusted_base": F.TRUSTED_COMMON + [
            "axioms: none (every theorem of props/C13.v is closed under the global context)",
            "modelled, not verified: VecDeque as list, BTreeMap as association list with unique keys, usize as nat (next_key wrap-around after 2^64 sends and frames_read + 1 overflow outside the model), Rc<RefCell> sharing as a single state, the source as a function nat -> frame with a pull counter",
            "hook Bus::verif_backlog_len() (cfg rustaudio_dasp_verif) reports buffer.len(); it lives on Bus, so after the Bus handle is dropped the backlog is observed only through the pending counts",
            "the source's is_exhausted is modelled as a function of its pull count (true for from_iter and the composites used); harness sources are wrapped in a counting Signal that forwards is_exhausted"],
        "theorems": th, "axioms_reported": info.get("axioms", []),
        "evaluations": n, "distinct_nontrivial": nontriv,
        "rule": f"every valid schedule of exactly {depth} send/next/drop operations over <= 3 simultaneously live outputs (all prefixes observed), plus random 500-operation schedules over <= 6 live outputs in 8 profiles (lock-step, never-pulling output, drop slowest, drop fastest, re-attach after all dropped, monitor, dead slots, mixed); after every operation: frame, source pull counter, backlog length (hook), pending_frames of every live output; additionally every schedule of 6 send/next/drop/drop-the-Bus-handle operations over finite from_iter sources (0, 1, 2 frames), the composite gen.add_amp(from_iter) and the endless source, with is_exhausted of every live output observed after every operation; every second random schedule runs on a finite/composite source with is_exhausted queries, every second pair drops the Bus handle in its first half; non-trivial = some output has >= 2 pending frames while another one pulls, or the slowest live output is dropped while the backlog is non-empty. Long-lag family (leader pulls 65535..200000 frames, thorough 2^20+3, while a laggard pulls nothing; mid-way attach; laggard reads 3 / all; laggard or leader dropped): verdict is THEOREM-DERIVED, not a model run: the observations are computed in closed form from c13_stream/c13_attach/c13_pending/c13_pull_once/c13_backlog and compared exactly; reduced instances (300, 2500 frames) go through both the Coq model and the closed form, and the closed form is also compared on every model-run case",
        "samples": samples, "input_distribution": dist, "disagreements": len(bad),
        "explanation": "theorems: invariant in every reachable state, per-output stream = source frames from the attach position, pending = pulled - position, source pulled once per distinct frame, backlog = slowest lag, no panic on well-formed schedules; tie: the model's executable definitions run by coqc on the same schedules as the real bus, all observations compared exactly",
    }
    return rep.finish("proof", cov, ["VecDeque/BTreeMap modelled as list/association list, usize as unbounded nat (key wrap-around after 2^64 sends outside the model)",
                                    "the source is a pure function of the pull index (instrumented gen_mut closure in the harness)",
                                    "operations on a dropped output cannot be issued through the public API (drop consumes the Output); the model's panic on an unknown key is checked against the harness's slot bookkeeping only"])


def replay(path):
    j = json.load(open(path))
    it = build(j["case"])
    ok, blog, binpath = F.harness_build("c13")
    rc, out, _ = F.run_bin(binpath, [it["line"]])
    print("case:", it["line"])
    print("implementation:", out)
    exp = theorem_observations(it["ops"], tuple(it.get("src", [0, 0])))
    print("theorem-derived:", ";".join(" ".join(map(str, e)) for e in exp))
    k = theorem_mismatch(it, out[0]) if out else 0
    print("closed form:", "AGREE" if k is None else f"DISAGREE at op {k} {it['ops'][k] if k < len(it['ops']) else ''}")
    bad, errs = [], []
    if sum(op[2] if op[0] == "R" else 1 for op in it["ops"]) <= 6000:
        _, model = F.coq_eval(TAG, HEADER, f"run_case ({it['coq']})")
        print("model:", model)
        o, bad, errs = correspond(binpath, [it], TAG + "_replay")
        print("model:", "AGREE" if not bad and not errs else "DISAGREE")
    else:
        print("model: not run (schedule too long for the list-based model inside coqc; verdict is theorem-derived)")
    return 1 if bad or errs or k is not None else 0
