"""C13 — Bus feeds every output a gap-free stream and retains only what laggards need.
Proof: coq/props/C13.v (model of dasp_signal::bus::SharedNode written after the source; invariant for
every reachable state; per-output stream, pending count, pull-once, backlog = slowest lag, for every
finite send/next/pending/drop schedule).  Tie: the model's executable definitions (Signal/BusRun.v,
evaluated by coqc) against the real `signal.bus()` on the same schedules, observing returned frames,
the pull counter of an instrumented source, pending_frames of every live output and the backlog
length through the hook Bus::verif_backlog_len()."""
import json, os
import framework as F

PROP = "C13"
META = dict(
    technique="Coq refinement proof (SharedNode model -> per-output stream positions, all schedules) + coqc-evaluated model vs crate correspondence incl. backlog hook",
    text="Machine-checked (Coq 8.16.1, no axioms) proof over a model of dasp_signal::bus written after the source (VecDeque backlog, BTreeMap of read offsets, next_key): for every finite schedule of send/next/pending_frames/drop on any number of outputs, no panic unless a dropped/unknown key is used, each output receives source frames attach, attach+1, ... (attach = source pull count at send), pending = pulled - position, the set of source frames pulled equals the set delivered (one pull per distinct frame, only on demand), and the backlog is exactly the pulled frames the slowest live output still lacks (empty when all caught up or none live). The model is tied to the crate by running it inside coqc on the same schedules (all to depth 7 over <=3 live outputs, random 500-op schedules over <=6) and comparing every frame, the source pull counter, every pending count and the hooked backlog length after every operation.",
    note="Trusted: Coq kernel; the hand-written model (VecDeque as list, BTreeMap as association list, usize as nat: next_key wrap-around after 2^64 sends and frames_read+1 overflow are outside the model; source = function nat -> frame with a pull counter) validated only through the correspondence; harness + python generators; hook Bus::verif_backlog_len (cfg rustaudio_dasp_verif). Axioms: none.",
    design="6/C13")
HEADER = "From Dasp Require Import Signal.BusRun."
CHECK = "check"
TAG = "c13"


PER_FILE = 100  # cases per coqc process: the 500-op cases are large terms; keeps each coqc below ~300 MB


def correspond(binpath, items, tag):
    """F.correspond with smaller coqc shards (same helpers: run_bin_parallel + coq_check_cases)."""
    rc, outl, err = F.run_bin_parallel(binpath, [it["line"] for it in items])
    errors = []
    if rc != 0 or len(outl) != len(items):
        errors.append(("harness", f"rc={rc} lines={len(outl)}/{len(items)} stderr={err[-1500:]}"))
        return outl, [], errors
    terms = []
    for it, o in zip(items, outl):
        try:
            terms.append(f"({it['coq']}, {F.zlistlist(F.norm_obs_line(o))})")
        except ValueError:
            errors.append(("harness", f"unparsable observation line {o[:200]!r} for {it['line'][:200]!r}"))
            return outl, [], errors
    bad, cerrs = F.coq_check_cases(tag, HEADER, CHECK, terms, per_file=PER_FILE)
    return outl, bad, errors + cerrs


def coq_op(o):
    return {"s": lambda: "ZSend", "n": lambda: f"ZNext {F.zlit(o[1])}", "p": lambda: f"ZPending {F.zlit(o[1])}",
            "d": lambda: f"ZDrop {F.zlit(o[1])}"}[o[0]]()


def build(item, ops=None):
    it = dict(item)
    if ops is not None:
        it["ops"] = ops
    it["line"] = " , ".join(" ".join(str(t) for t in o) for o in it["ops"])
    it["coq"] = "BusCase [" + "; ".join(coq_op(o) for o in it["ops"]) + "]"
    return it


# ---------------------------------------------------------------------------------------------
# a tiny abstract simulator used ONLY by the generator to aim at scenarios (slowest / fastest
# output, caught-up states); it is not an oracle: observations are compared with the Coq model.
class Sim:
    def __init__(self):
        self.pulled = 0
        self.pos = []  # per slot: position or None

    def live(self):
        return [i for i, p in enumerate(self.pos) if p is not None]

    def apply(self, o):
        if o[0] == "s":
            self.pos.append(self.pulled)
        elif o[0] == "n":
            i = o[1]
            if i < len(self.pos) and self.pos[i] is not None:
                self.pos[i] += 1
                self.pulled = max(self.pulled, self.pos[i])
        elif o[0] == "d":
            i = o[1]
            if i < len(self.pos):
                self.pos[i] = None

    def slowest(self):
        l = self.live()
        return min(l, key=lambda i: (self.pos[i], i)) if l else None

    def fastest(self):
        l = self.live()
        return max(l, key=lambda i: (self.pos[i], -i)) if l else None


def exhaustive(depth, maxlive):
    """every maximal valid schedule of exactly `depth` ops (send while < maxlive outputs are live;
    next/drop on every live output); observations after every op make every prefix a checked case."""
    out = []

    def go(ops, live, sends):
        if len(ops) == depth:
            out.append(list(ops))
            return
        if len(live) < maxlive:
            ops.append(["s"])
            go(ops, live + [sends], sends + 1)
            ops.pop()
        for i in live:
            ops.append(["n", i])
            go(ops, live, sends)
            ops.pop()
            ops.append(["d", i])
            go(ops, [j for j in live if j != i], sends)
            ops.pop()

    go([], [], 0)
    return out


PROFILES = ["mixed", "lockstep", "never_pulled", "drop_slowest", "drop_fastest", "reattach", "monitor", "dead_slots"]


def random_schedule(r, profile, nops, maxlive, maxsends):
    sim = Sim()
    ops = []

    def emit(o):
        ops.append(o)
        sim.apply(o)

    idle = set()  # outputs that never pull
    emit(["s"])
    while len(ops) < nops:
        live = sim.live()
        can_send = len(live) < maxlive and len(sim.pos) < maxsends
        if not live:
            if can_send:
                emit(["s"])
                continue
            # nothing can be attached any more: only dead-slot ops remain
            emit([r.choice(["n", "p", "d"]), r.below(len(sim.pos) + 1)])
            continue
        pullers = [i for i in live if i not in idle] or live
        x = r.below(100)
        if profile == "lockstep":
            if x < 6 and can_send:
                emit(["s"])
            elif x < 9 and len(live) > 1:
                emit(["d", r.choice(live)])
            else:
                blk = r.range(1, 4)
                for i in live:
                    for _ in range(blk):
                        emit(["n", i])
        elif profile == "never_pulled":
            if x < 8 and can_send:
                emit(["s"])
                if r.chance(1, 2):
                    idle.add(len(sim.pos) - 1)
            elif x < 12:
                emit(["d", r.choice(live)])
            elif x < 20:
                emit(["p", r.choice(live)])
            else:
                emit(["n", r.choice(pullers)])
        elif profile == "drop_slowest":
            if x < 10 and can_send:
                emit(["s"])
            elif x < 20:
                emit(["d", sim.slowest()])
            else:
                # bias pulls to the fast ones so that a laggard builds up
                f = sim.fastest()
                emit(["n", f if r.chance(2, 3) else r.choice(live)])
        elif profile == "drop_fastest":
            if x < 10 and can_send:
                emit(["s"])
            elif x < 20 and len(live) > 1:
                emit(["d", sim.fastest()])
            else:
                f = sim.fastest()
                emit(["n", f if r.chance(1, 2) else r.choice(live)])
        elif profile == "reattach":
            if x < 10 and can_send:
                emit(["s"])
            elif x < 16:
                for i in live:  # drop everything, then attach again
                    emit(["d", i])
                if len(sim.pos) < maxsends:
                    emit(["s"])
            elif x < 22:
                emit(["d", r.choice(live)])
            else:
                emit(["n", r.choice(live)])
        elif profile == "monitor":
            # one output drains only what is pending (the doc example's monitor)
            if x < 8 and can_send:
                emit(["s"])
            elif x < 12 and len(live) > 1:
                emit(["d", r.choice(live)])
            elif x < 40:
                m = live[-1]
                emit(["p", m])
                lag = sim.pulled - sim.pos[m]
                for _ in range(min(lag, r.range(0, 5))):
                    emit(["n", m])
            else:
                emit(["n", r.choice(live[:-1] or live)])
        elif profile == "dead_slots":
            if x < 10 and can_send:
                emit(["s"])
            elif x < 25:
                emit(["d", r.below(len(sim.pos) + 1)])
            elif x < 40:
                emit([r.choice(["n", "p"]), r.below(len(sim.pos) + 2)])
            else:
                emit(["n", r.choice(live)])
        else:  # mixed
            if x < 10 and can_send:
                emit(["s"])
            elif x < 18:
                emit(["d", r.choice(live)])
            elif x < 28:
                emit(["p", r.choice(live)])
            else:
                emit(["n", r.choice(live)])
    return ops[:nops]


def gen_cases(rng, tier):
    items = []
    depth = 7 if tier == "quick" else 9
    for ops in exhaustive(depth, 3):
        items.append(build(dict(kind=f"exh{depth}", ops=ops)))
    n_exh = len(items)
    n_rand = 160 if tier == "quick" else 2000
    rand = []
    for k in range(n_rand):
        r = rng.fork(f"sched{k}")
        profile = PROFILES[k % len(PROFILES)]
        nops = 500 if k % 4 else r.choice([20, 60, 150, 500])
        maxlive = r.choice([2, 3, 4, 5, 6, 6])
        maxsends = r.choice([6, 10, 16, 24])
        rand.append(build(dict(kind=profile, ops=random_schedule(r, profile, nops, maxlive, maxsends))))
    # the long schedules are spread evenly among the short ones (the coqc shards are contiguous slices)
    merged, stride = [], max(1, len(items) // max(1, len(rand)))
    ri = 0
    for i, it in enumerate(items):
        if i % stride == 0 and ri < len(rand):
            merged.append(rand[ri])
            ri += 1
        merged.append(it)
    merged += rand[ri:]
    return merged, n_exh


def analyse(item, obs_line):
    """From the implementation's observations: which state-dependent situations occurred.
    lag2: a next() by one output while another live output has >= 2 pending frames;
    dropslow: a live output whose pending equals the (non-empty) backlog is dropped;
    also: pop branch (backlog shrinks on next), read-from-backlog (next without a pull)."""
    flags = set()
    prev = None
    for o, ob in zip(item["ops"], obs_line.split(";")):
        t = [int(x) for x in ob.split()]
        if not t:
            continue
        hl = {1: 2, 2: 2, 3: 2, 4: 1, 9: 1, 8: 2}.get(t[0], 1)
        pulls, backlog, pend = t[hl], t[hl + 1], t[hl + 2:]
        if t[0] == 2:
            i = o[1]
            if any(p >= 2 for j, p in enumerate(pend) if j != i):
                flags.add("lag2")
            if prev is not None:
                if prev[0] == pulls:
                    flags.add("read_backlog")
                if backlog < prev[1] or (backlog == prev[1] and pulls > prev[0] and backlog > 0):
                    flags.add("pop_front")
        if t[0] == 4 and prev is not None:
            i = o[1]
            if prev[1] > 0 and i < len(prev[2]) and prev[2][i] == prev[1]:
                flags.add("dropslow")
                if backlog < prev[1]:
                    flags.add("drop_trims")
        if t[0] == 9:
            flags.add("dead_slot_op")
        if t[0] == 8:
            flags.add("panic")
        prev = (pulls, backlog, pend)
    return flags


def nontrivial(flags):
    return "lag2" in flags or "dropslow" in flags


def load_corpus():
    d = os.path.join(F.VERIF, "corpus", PROP)
    items = []
    if os.path.isdir(d):
        for fn in sorted(os.listdir(d)):
            if fn.endswith(".json"):
                items.append(build(json.load(open(os.path.join(d, fn)))))
    return items


def main(rep, tier, seed):
    rng = F.Rng(seed)
    info = F.standard_proof_phase(rep, PROP)
    ok, blog, binpath = F.harness_build("c13")
    if not ok:
        rep.violation("harness_build", {"kind": "harness does not build against /repo (is the hook Bus::verif_backlog_len present?)",
                                        "log": blog[-4000:]}, no_input=True)
        return finish(rep, info, 0, 0, {}, [])
    corpus = load_corpus()
    items, n_exh = gen_cases(rng, tier)
    items = corpus + items
    outl, bad, errors = correspond(binpath, items, TAG)
    rep.extra["build_profiles"] = F.profile_phase(rep, "c13", items, outl, profiles=("release",)) if not errors and len(outl) == len(items) else {}
    for name, msg in errors:
        rep.violation("correspondence_error_" + name.replace("/", "_"),
                      {"kind": "correspondence could not be evaluated", "where": name, "log": msg}, no_input=True)
    hist, kinds, flagc = {}, {}, {}
    nontriv = set()
    nops = 0
    if not errors:
        for it, o in zip(items, outl):
            kinds[it["kind"]] = kinds.get(it["kind"], 0) + 1
            for op in it["ops"]:
                hist[op[0]] = hist.get(op[0], 0) + 1
            nops += len(it["ops"])
            fl = analyse(it, o)
            for f_ in fl:
                flagc[f_] = flagc.get(f_, 0) + 1
            if nontrivial(fl):
                nontriv.add(it["line"])
    for idx in bad[:3]:
        it = items[idx]

        def fails(c):
            o, b, e = correspond(binpath, [c], TAG + "_shrink")
            return bool(b) and not e

        small = F.shrink_ops(it, build, fails)
        rc, out, _ = F.run_bin(binpath, [small["line"]])
        _, model = F.coq_eval(TAG, HEADER, f"run_case ({small['coq']})")
        rep.violation(f"case{idx}", {
            "kind": "model/implementation disagreement: dasp_signal::bus does not behave as the model proved to feed every output a gap-free stream with backlog = slowest lag",
            "case": {"kind": small["kind"], "ops": small["ops"]},
            "harness_line": small["line"], "implementation_observations": out, "model_observations": model[-3000:],
            "observation_format": "per op: tag payload | source pulls | backlog (hook) | pending of every slot (-1 dropped); tags 1 send 2 next 3 pending 4 drop 9 slot empty 8 panic",
            "original_case_index": idx, "replay": "./check.py C13 --replay <this file>"})
    dist = {"ops_histogram": hist, "case_kinds": kinds, "exhaustive_schedules": n_exh,
            "random_schedules": len(items) - n_exh - len(corpus), "corpus_cases": len(corpus),
            "operations_total": nops, "cases_reaching": flagc}
    samples = [items[i]["line"][:400] for i in (len(corpus), len(corpus) + 1, len(items) - 1)] if items else []
    return finish(rep, info, len(items), len(nontriv), dist, samples, bad, tier)


def finish(rep, info, n, nontriv, dist, samples, bad=(), tier="quick"):
    th = info.get("theorems", [])
    depth = 7 if tier == "quick" else 9
    cov = {
        "obligations": max(1, len(th)), "discharged": len(th) if info.get("coq_ok") else 0,
        "checker_cmd": "make -f Makefile.coq props/C13.vo (coqc 8.16.1, full .vo) + Print Assumptions audit",
        "trusted_base": F.TRUSTED_COMMON + [
            "axioms: none (every theorem of props/C13.v is closed under the global context)",
            "modelled, not verified: VecDeque as list, BTreeMap as association list with unique keys, usize as nat (next_key wrap-around after 2^64 sends and frames_read + 1 overflow outside the model), Rc<RefCell> sharing as a single state, the source as a function nat -> frame with a pull counter",
            "hook Bus::verif_backlog_len() (cfg rustaudio_dasp_verif) reports buffer.len()"],
        "theorems": th, "axioms_reported": info.get("axioms", []),
        "evaluations": n, "distinct_nontrivial": nontriv,
        "rule": f"every valid schedule of exactly {depth} send/next/drop operations over <= 3 simultaneously live outputs (all prefixes observed), plus random 500-operation schedules over <= 6 live outputs in 8 profiles (lock-step, never-pulling output, drop slowest, drop fastest, re-attach after all dropped, monitor, dead slots, mixed); after every operation: frame, source pull counter, backlog length (hook), pending_frames of every live output; non-trivial = some output has >= 2 pending frames while another one pulls, or the slowest live output is dropped while the backlog is non-empty",
        "samples": samples, "input_distribution": dist, "disagreements": len(bad),
        "explanation": "theorems: invariant in every reachable state, per-output stream = source frames from the attach position, pending = pulled - position, source pulled once per distinct frame, backlog = slowest lag, no panic on well-formed schedules; tie: the model's executable definitions run by coqc on the same schedules as the real bus, all observations compared exactly",
    }
    return rep.finish("proof", cov, ["VecDeque/BTreeMap modelled as list/association list, usize as unbounded nat (key wrap-around after 2^64 sends outside the model)",
                                    "the source is a pure function of the pull index (instrumented gen_mut closure in the harness)",
                                    "operations on a dropped output cannot be issued through the public API (drop consumes the Output); the model's panic on an unknown key is checked against the harness's slot bookkeeping only"])


def replay(path):
    j = json.load(open(path))
    it = build(j["case"])
    ok, blog, binpath = F.harness_build("c13")
    rc, out, _ = F.run_bin(binpath, [it["line"]])
    _, model = F.coq_eval(TAG, HEADER, f"run_case ({it['coq']})")
    print("case:", it["line"])
    print("implementation:", out)
    print("model:", model)
    o, bad, errs = correspond(binpath, [it], TAG + "_replay")
    print("AGREE" if not bad and not errs else "DISAGREE")
    return 1 if bad or errs else 0
