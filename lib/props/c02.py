"""C02 -- float <-> integer sample conversion is exact scaling, truncating, within [-1, 1].

Proof: coq/props/C02.v.  The 50 float conversions `Sample::to_sample` dispatches to (12 integer formats x
{f32, f64} in both directions, f32 <-> f64) are TRANSLATED from dasp_sample/src/conv.rs on every run
(translate/conv2coq.py -> coq/gen/ConvFloatGen.v, operations of coq/theories/Base/Float.v = Flocq
BinarySingleNaN); translate/convfloat_proofs.py emits one lemma per dispatched function
(coq/gen/ConvFloatProofs_*.v), each closed by one tactic from the generic Flocq lemmas of
coq/theories/Base/FloatLemmas.v; the consequences (range, monotone, equilibrium, exactness, round trip)
are proved from those in coq/theories/Sample/ConvFloatTheorems.v.
Tie: translator + correspondence -- the generated model, evaluated by coqc, is compared bit-for-bit with the
real crate (public trait dispatch, debug AND release builds) on every value of the 8-bit formats (thorough:
16-bit), boundary/rounding-structured and random integers, structured and random float bit patterns of the
documented domain [-1, 1), and a separate stream outside the domain (>= 1, < -1, NaN, inf: saturating casts;
nothing is claimed there but model and crate must agree); an independent exact-integer oracle of the
specification inside the harness (i128 arithmetic on the bit patterns, no float operation) covers the large
sweeps.  If a generated proof no longer checks (conv.rs changed) the check searches a concrete failing input
(DESIGN 5.1): implementation level (real function vs oracle) then model level (regenerated function vs a
hand-written executable reference, in coqc)."""
import json, os, re, sys, shutil, time
from fractions import Fraction
import framework as F
import floatbase
import cov_evidence

sys.path.insert(0, os.path.join(F.VERIF, "translate"))
import conv2coq as T
import convfloat_proofs as TP

PROP = "C02"
META = dict(
    technique="Coq/Flocq proof over a model TRANSLATED from conv.rs on every run (one generated lemma per dispatched float conversion, closed by one tactic from generic Flocq lemmas; consequences proved from those) + coqc-evaluated model vs crate correspondence in debug and release + exact-integer specification oracle sweeps (all f32 bit patterns of the domain in the thorough tier)",
    text="translate/conv2coq.py parses every conversions!/impl_from_sample! table of dasp_sample/src/conv.rs into shallow Gallina over Flocq's IEEE-754 binary32/binary64 (`int as f` = round-to-nearest-even binary_normalize, `/` `*` = Bdiv/Bmult, `f as int` = truncating saturating cast, `f32 as f64`/`f64 as f32` = renormalisation in the target format); Coq 8.16.1 proves, for every integer format x {f32,f64} and every in-range integer, that what Sample::to_sample dispatches to returns the finite float round_NE(amplitude)/2^(bits-1) = round_NE(amplitude/2^(bits-1)) (one rounding, exact scaling), within [-1,1], monotone, equilibrium -> +0.0, exact when bits <= mantissa width; for every finite float in [-1,1) that the float -> integer conversion returns trunc(f*2^(bits-1)) re-offset for unsigned targets, without panic in either build profile, in range, monotone, 0.0 -> equilibrium, -1.0 -> MIN, and inverts the integer -> float conversion wherever that is exact; f32 -> f64 is exact and f64 -> f32 is Flocq's round-to-nearest-even of the value into binary32 (overflow to the infinity of the same sign, NaN/inf/zero structurally). f32 -> f32 and f64 -> f64 (the blanket identity impl) return the value itself (c02_same_format). The translator and Base/Float.v are validated by running the generated model inside coqc against the real crate (every public entry point: the four trait methods, the same through a Duplex<_> bound only, and the module functions conv::<src>::to_<dst>, all required to agree; both profiles, inside and outside the documented domain) and the crate against an independent exact-integer oracle.",
    note="Trusted: Coq kernel; Flocq 4.1.0 as the meaning of IEEE-754 and Base/Float.v as the meaning of Rust's float operators and casts (validated against rustc by lib/floatbase.py and by this correspondence); translate/conv2coq.py (validated only by the correspondence); Sample/Rint.v for the integer twin functions; harness + generators. Axioms: the standard-library real-number axioms (ClassicalDedekindReals.sig_forall_dec, sig_not_dec, functional_extensionality_dep; Classical_Prop.classic through Flocq) -- the theorems speak about B2R values in R.",
    design="6/C02")
FHEADER = "From Dasp Require Import Sample.ConvRun Sample.ConvFloatRun.\nRequire Import Uint63."
SHEADER = "From Dasp Require Import Sample.ConvRun Sample.ConvFloatRun Sample.ConvFloatSearch.\nRequire Import Uint63."
CHECK = "fcheck"
FORMATS = T.FORMATS
BITS = T.FMT_BITS
CODE = {f: i for i, f in enumerate(FORMATS)}
SIGNED = {f: f[0] in "iI" for f in FORMATS}
REPBITS = {"i8": 8, "i16": 16, "I24": 32, "i32": 32, "I48": 64, "i64": 64, "u8": 8, "u16": 16, "U24": 32, "u32": 32, "U48": 64, "u64": 64}
FW = {32: dict(prec=24, mw=23, ew=8, emax=128, bias=127, name="f32"), 64: dict(prec=53, mw=52, ew=11, emax=1024, bias=1023, name="f64")}
TEST_CONV = os.environ.get("DASP_CONV_RS")  # TESTING ONLY: pretend /repo's conv.rs were this file
N_THEOREMS = 29


def fmin(f):
    return -(1 << (BITS[f] - 1)) if SIGNED[f] else 0


def fmax(f):
    return (1 << (BITS[f] - 1)) - 1 if SIGNED[f] else (1 << BITS[f]) - 1


def offset(f):
    return 0 if SIGNED[f] else 1 << (BITS[f] - 1)


def zt(n):
    """compact Coq term for an integer (see ConvRun.zp)"""
    n = int(n)
    a = abs(n)
    if a < (1 << 20):
        return f"({n})" if n < 0 else str(n)
    return f"({'zn' if n < 0 else 'zp'} {a >> 32} {a & 0xffffffff})"


def chunks(xs, n):
    return [xs[i:i + n] for i in range(0, len(xs), n)]


# ---------------------------------------------------------------------------
# python copy of the specification -- used ONLY to classify cases for the evidence (non-trivial or not)
# and to print an expectation in replays; never as a verdict


def fbits(fw, sign, e, frac):
    p = FW[fw]
    return (sign << (fw - 1)) | ((e + p["bias"]) << p["mw"]) | (frac & ((1 << p["mw"]) - 1))


def decode(fw, b):
    """None = NaN; (neg, inf, m, e): value = (-1)^neg * m * 2^e"""
    p = FW[fw]
    neg = (b >> (fw - 1)) & 1
    ef = (b >> p["mw"]) & ((1 << p["ew"]) - 1)
    frac = b & ((1 << p["mw"]) - 1)
    if ef == (1 << p["ew"]) - 1:
        return None if frac else (neg, True, 0, 0)
    if ef == 0:
        return (neg, False, frac, 1 - p["bias"] - p["mw"])
    return (neg, False, frac | (1 << p["mw"]), ef - p["bias"] - p["mw"])


def fvalue(fw, b):
    d = decode(fw, b)
    if d is None or d[1]:
        return None
    return (-1 if d[0] else 1) * d[2] * Fraction(2) ** d[3]


def in_domain(fw, b):
    v = fvalue(fw, b)
    return v is not None and -1 <= v < 1


def enc(fw, fr):
    """bits of the float nearest (ties to even) to the Fraction fr"""
    p = FW[fw]
    b = T.float_bits(abs(fr), p["prec"], p["emax"], fw)
    return b | ((1 << (fw - 1)) if fr < 0 else 0)


def spec_i2f(f, fw, v):
    amp = v - offset(f)
    # one rounding of the quotient == one rounding of the integer then exact scaling (no underflow above 2^-63)
    return enc(fw, Fraction(amp, 1 << (BITS[f] - 1)))


def i2f_rounds(fw, amp):
    a = abs(amp)
    return a != 0 and a.bit_length() - ((a & -a).bit_length() - 1) > FW[fw]["prec"]


def spec_f2i(f, fw, b):
    """(expected or None, product has a fractional part) -- expectation claimed on the domain only"""
    v = fvalue(fw, b)
    if v is None or not (-1 <= v < 1):
        return None, False
    x = v * (1 << (BITS[f] - 1))
    t = int(x)  # Fraction -> int truncates toward zero
    return t + offset(f), x.denominator != 1


# ---------------------------------------------------------------------------
# input values

def boundary(f):
    lo, hi, off = fmin(f), fmax(f), offset(f)
    out = {lo, lo + 1, lo + 2, hi, hi - 1, hi - 2, off, off - 1, off + 1}
    for k in range(BITS[f] + 1):
        for sgn in (1, -1):
            for dlt in (-1, 0, 1):
                out.add(sgn * (1 << k) + dlt + off)
                out.add(hi - (1 << k) + dlt)
                out.add(lo + (1 << k) + dlt)
    return sorted(v for v in out if lo <= v <= hi)


def rounding_values(f, rng, n):
    """amplitudes around the rounding boundaries of both mantissa widths: exact ties (round to even both ways),
    one below / above a tie, carries into the next binade"""
    lo, hi, off = fmin(f), fmax(f), offset(f)
    out = set()
    b = BITS[f]
    for prec in (24, 53):
        if b - 1 <= prec:
            continue
        for top in range(prec, b):          # amplitude has top+1 significant bits, `drop` of them are rounded away
            drop = top + 1 - prec
            half = 1 << (drop - 1)
            for lead in ((1 << top), (1 << top) | (1 << drop), (1 << (top + 1)) - (1 << drop), (1 << top) | (rng.below(1 << (prec - 1)) << drop)):
                for tail in (half, half - 1, half + 1, 0, 1, (1 << drop) - 1):
                    for sgn in (1, -1):
                        out.add(sgn * (lead | tail) + off)
    vals = sorted(v for v in out if lo <= v <= hi)
    if len(vals) > n:
        step = len(vals) / n
        vals = [vals[int(i * step)] for i in range(n)]
    return vals


def randoms(rng, f, n):
    lo, hi = fmin(f), fmax(f)
    out = []
    for i in range(n):
        if i % 4 == 3:
            k = rng.range(1, BITS[f] - 1)
            v = offset(f) + rng.range(-(1 << k), (1 << k) - 1)
            out.append(min(hi, max(lo, v)))
        else:
            out.append(rng.range(lo, hi))
    return out


def float_structured(fw, f):
    """bit patterns of the domain [-1,1): zeros, subnormals, powers of two, 1-ulp, -1, and the neighbours of
    j * 2^-(bits-1) (where the truncation steps) -- for target format f"""
    p = FW[fw]
    mw, top = p["mw"], (1 << p["mw"]) - 1
    sb = 1 << (fw - 1)
    out = [0, sb, 1, sb | 1, top, sb | top, 1 << mw, sb | (1 << mw), (1 << mw) | 1,
           fbits(fw, 0, -1, top), fbits(fw, 1, -1, top), fbits(fw, 1, 0, 0), fbits(fw, 0, -1, 0), fbits(fw, 1, -1, 0)]
    k = BITS[f] - 1
    for j in sorted({1, 2, 7, 8, 9, k - 1, k, k + 1, k + 2, 23, 24, 25, 52, 53, 54, 63, 64, 65, 100, p["bias"] - 1}):
        if 1 <= j <= p["bias"] - 1:
            for sg in (0, 1):
                out += [fbits(fw, sg, -j, 0), fbits(fw, sg, -j, 1), fbits(fw, sg, -j, top), fbits(fw, sg, -j, 1 << (mw - 1))]
    js = {1, 2, 3, (1 << k) - 1, (1 << k) - 2, (1 << (k - 1)), (1 << (k - 1)) + 1, (1 << (k - 1)) - 1, 5, 100 % (1 << k) or 1}
    for j in sorted(js):
        if not (1 <= j < (1 << k)):
            continue
        for sg in (1, -1):
            b0 = enc(fw, Fraction(sg * j, 1 << k))
            # the float nearest j/2^k (equal to it when j fits the mantissa), and its neighbours
            for b in (b0 - 1, b0, b0 + 1):
                if in_domain(fw, b):
                    out.append(b)
    return [b for b in dict.fromkeys(out) if in_domain(fw, b)]


def float_random(rng, fw, f, n):
    p = FW[fw]
    out = []
    for _ in range(n):
        span = rng.choice([2, 3, BITS[f] + 2, BITS[f] + 2, 70, p["bias"] - 1])
        e = -rng.range(1, span)
        frac = rng.below(1 << p["mw"])
        if rng.chance(1, 4):
            frac &= ~((1 << rng.below(p["mw"])) - 1)
        out.append(fbits(fw, rng.below(2), e, frac))
    return out


def float_outside(rng, fw, n):
    """OUTSIDE the documented domain: the property claims nothing, model and crate must still agree"""
    p = FW[fw]
    mw, ew, top = p["mw"], p["ew"], (1 << p["mw"]) - 1
    sb = 1 << (fw - 1)
    inf = ((1 << ew) - 1) << mw
    out = [fbits(fw, 0, 0, 0), fbits(fw, 0, 0, 1), fbits(fw, 1, 0, 1), fbits(fw, 0, 1, 0), fbits(fw, 1, 1, 0), inf, sb | inf,
           inf | (1 << (mw - 1)), inf | 1, sb | inf | (1 << (mw - 1)) | 5, inf - 1, sb | (inf - 1)]
    for k in (6, 7, 8, 14, 15, 16, 22, 23, 24, 30, 31, 32, 33, 46, 47, 48, 62, 63, 64, 65, 100):
        if k < p["bias"]:
            for sg in (0, 1):
                out += [fbits(fw, sg, k, 0), fbits(fw, sg, k, 1), fbits(fw, sg, k - 1, top)]
    for _ in range(n):
        e = rng.choice([0, 0, 1, 2, rng.range(0, 70), rng.range(0, p["bias"])])
        b = fbits(fw, rng.below(2), e, rng.below(1 << mw))
        out.append(b)
    return [b for b in dict.fromkeys(out) if not in_domain(fw, b)]


def f2f_inputs(rng, fw, n):
    p = FW[fw]
    out = float_structured(fw, "i16") + float_outside(rng, fw, n // 4)
    if fw == 64:  # around the binary32 boundaries: overflow threshold, normal/subnormal, underflow to zero, ties
        for e in (127, 128, -126, -127, -149, -150, -151, 0, -1, 1, 60):
            for sg in (0, 1):
                for frac in (0, 1, (1 << 52) - 1, 1 << 28, (1 << 28) + 1, (1 << 28) - 1, 1 << 29, (1 << 29) | (1 << 28), ((1 << 23) - 1) << 29,
                             (((1 << 23) - 1) << 29) | (1 << 28), (((1 << 23) - 1) << 29) | (1 << 28) | 1):
                    out.append(fbits(64, sg, e, frac))
        for _ in range(n):
            e = rng.choice([rng.range(-160, -120), rng.range(120, 130), rng.range(-30, 30), rng.range(-1022, 1023)])
            frac = rng.below(1 << 52)
            if rng.chance(1, 3):
                frac = (frac & ~((1 << 29) - 1)) | rng.choice([0, 1 << 28, (1 << 28) + 1, (1 << 28) - 1])
            out.append(fbits(64, rng.below(2), e, frac))
    else:
        for _ in range(n):
            out.append(rng.below(1 << 32))
    return list(dict.fromkeys(out))


def gen_items(rng, tier):
    quick = tier == "quick"
    n_rand_i = 250 if quick else 3000
    n_rand_f = 300 if quick else 4000
    n_out = 60 if quick else 600
    items = []

    def add(kind, d, mode, f, fw, vals):
        for part in chunks(vals, 64):
            if d == "i2f":
                line = f"i2f {CODE[f]} {fw} " + " ".join(map(str, part))
                coq = f"FI2F {mode} {CODE[f]} {fw} [" + "; ".join(zt(v) for v in part) + "]"
            elif d == "f2i":
                line = f"f2i {fw} {CODE[f]} " + " ".join(map(str, part))
                coq = f"FF2I {mode} {fw} {CODE[f]} [" + "; ".join(zt(v) for v in part) + "]"
            elif d == "same":
                line = f"f2f {fw} 1 " + " ".join(map(str, part))
                coq = f"FFSame {mode} {fw} [" + "; ".join(zt(v) for v in part) + "]"
            else:
                line = f"f2f {fw} 0 " + " ".join(map(str, part))
                coq = f"FF2F {mode} {fw} [" + "; ".join(zt(v) for v in part) + "]"
            items.append(dict(kind=kind, dir=d, mode=mode, f=f, fw=fw, vals=part, line=line, coq=coq))

    for f in FORMATS:
        r = rng.fork("i" + f)
        if BITS[f] == 8 or (BITS[f] == 16 and not quick):
            kinds = [("exhaustive", list(range(fmin(f), fmax(f) + 1)))]
        else:
            kinds = [("boundary", boundary(f)), ("rounding", rounding_values(f, r, 400 if quick else 4000)), ("random", randoms(r, f, n_rand_i))]
        for kind, vals in kinds:
            for fw in (32, 64):
                for mode in (0, 1):
                    if kind == "exhaustive" and BITS[f] == 16 and mode == 0:
                        continue  # debug profile of the 16-bit formats: boundary + random below
                    add(kind, "i2f", mode, f, fw, vals)
        if BITS[f] == 16 and not quick:
            for fw in (32, 64):
                add("boundary", "i2f", 0, f, fw, boundary(f) + randoms(r, f, 500))
        for fw in (32, 64):
            rf = rng.fork(f"f{f}{fw}")
            st = float_structured(fw, f)
            rd = float_random(rf, fw, f, n_rand_f)
            ou = float_outside(rf, fw, n_out)
            for mode in (0, 1):
                add("structured", "f2i", mode, f, fw, st)
                add("random", "f2i", mode, f, fw, rd)
                add("outside-domain", "f2i", mode, f, fw, ou)
    for fw in (32, 64):
        vals = f2f_inputs(rng.fork(f"ff{fw}"), fw, 1500 if quick else 20000)
        for mode in (0, 1):
            add("f2f", "f2f", mode, None, fw, vals)
        # the same float format (f32 -> f32, f64 -> f64): the blanket identity impl `impl<S> FromSample<S> for S`
        same = f2f_inputs(rng.fork(f"same{fw}"), fw, 200 if quick else 4000)
        for mode in (0, 1):
            add("same-format", "same", mode, None, fw, same)
    return items


def item_term(it, obs_line):
    obs = F.norm_obs_line(obs_line)
    return "(" + it["coq"] + ", [" + "; ".join("[" + "; ".join(zt(x) for x in o) + "]" for o in obs) + "])"


def parse_zll(out):
    m = re.search(r"=\s*(\[.*\])\s*:\s*list \(list Z\)", out, re.S)
    if not m:
        return None
    return [[int(x) for x in re.findall(r"-?\d+", grp)] for grp in re.findall(r"\[([^\[\]]*)\]", m.group(1))]


def correspond(bins, items, tag):
    obs = [None] * len(items)
    errors = []
    for mode in (0, 1):
        idx = [i for i, it in enumerate(items) if it["mode"] == mode]
        if not idx:
            continue
        rc, outl, err = F.run_bin_parallel(bins[mode], [items[i]["line"] for i in idx])
        if rc != 0 or len(outl) != len(idx):
            errors.append(("harness", f"profile {mode}: rc={rc} lines={len(outl)}/{len(idx)} stderr={err[-1500:]}"))
            return obs, [], errors
        for i, o in zip(idx, outl):
            obs[i] = o
    try:
        terms = [item_term(it, o) for it, o in zip(items, obs)]
    except ValueError as e:
        return obs, [], [("harness", f"unparsable observation: {e}")]
    bad, cerrs = F.coq_check_cases(tag, FHEADER, CHECK, terms, per_file=24)
    return obs, bad, errors + cerrs


def fn_name(S, it_or_dir, f=None, fw=None):
    if isinstance(it_or_dir, dict):
        d, f, fw = it_or_dir["dir"], it_or_dir["f"], it_or_dir["fw"]
    else:
        d = it_or_dir
    ft = FW[fw]["name"]
    if d == "same":
        return "conv.rs `impl<S> FromSample<S> for S` (the blanket identity impl)"
    if d == "f2f":
        pair = (ft, "f64" if fw == 32 else "f32")
    else:
        pair = (f, ft) if d == "i2f" else (ft, f)
    if S is None or pair not in S.dispatch:
        return f"conv::{pair[0].lower()}::to_{pair[1].lower()}"
    m, fn = S.dispatch[pair]
    return f"conv::{m}::{fn}"


def call_name(d, f, fw):
    ft = FW[fw]["name"]
    if d == "i2f":
        return f"<{f} as Sample>::to_sample::<{ft}>()"
    if d == "f2i":
        return f"<{ft} as Sample>::to_sample::<{f}>()"
    if d == "same":
        return f"<{ft} as Sample>::to_sample::<{ft}>()"
    return f"<{ft} as Sample>::to_sample::<{'f64' if fw == 32 else 'f32'}>()"


def harness_line(d, f, fw, vals):
    if d == "i2f":
        return f"i2f {CODE[f]} {fw} " + " ".join(map(str, vals))
    if d == "f2i":
        return f"f2i {fw} {CODE[f]} " + " ".join(map(str, vals))
    return f"f2f {fw} {1 if d == 'same' else 0} " + " ".join(map(str, vals))


def coq_case(d, mode, f, fw, vals):
    vs = "[" + "; ".join(zt(v) for v in vals) + "]"
    if d == "i2f":
        return f"FI2F {mode} {CODE[f]} {fw} {vs}"
    if d == "f2i":
        return f"FF2I {mode} {fw} {CODE[f]} {vs}"
    if d == "same":
        return f"FFSame {mode} {fw} {vs}"
    return f"FF2F {mode} {fw} {vs}"


def expectation(d, f, fw, v):
    """python copy of the specification, for display only"""
    if d == "i2f":
        return spec_i2f(f, fw, v) if fmin(f) <= v <= fmax(f) else None
    if d == "f2i":
        return spec_f2i(f, fw, v)[0]
    if d == "same":
        return v if decode(fw, v) is not None else (0x7FC00000 if fw == 32 else 0x7FF8000000000000)
    x = fvalue(fw, v)
    if x is None:
        return None
    return enc(64 if fw == 32 else 32, x) if x != 0 else (v >> (fw - 1)) << ((64 if fw == 32 else 32) - 1)


def pinpoint(bins, it):
    out = []
    vals = it["vals"]
    rc, outl, _ = F.run_bin(bins[it["mode"]], [harness_line(it["dir"], it["f"], it["fw"], vals)])
    impl = F.norm_obs_line(outl[0]) if outl else []
    _, mo = F.coq_eval("c02_pin", FHEADER, f"run_fcase ({coq_case(it['dir'], it['mode'], it['f'], it['fw'], vals)})")
    model = parse_zll(mo) or []
    for v, a, b in zip(vals, impl, model):
        if a != b:
            e = expectation(it["dir"], it["f"], it["fw"], v)
            out.append(dict(input=v, implementation=a, model=b, specification=e if e is not None else "n/a (outside the property's domain)"))
    return out[:5]


# ---------------------------------------------------------------------------
# exact-integer oracle sweeps inside the harness (crate vs specification, no Coq involved)

DOM32 = [(0, 0x3F800000), (0x80000000, 0x3F800001)]      # bit patterns of [-1, 1): +0 .. 1-ulp ; -0 .. -1


def split(op, a, b, lo, n, step, parts):
    """one strided sweep as `parts` harness lines"""
    out = []
    per = (n + parts - 1) // parts
    i = 0
    while i < n:
        c = min(per, n - i)
        out.append((f"{op} {a} {b} {lo + i * step} {c} {step}", c))
        i += c
    return out


def oracle_lines(rng, tier, mode, for_search=False):
    """(line, key, count) triples for profile `mode`; key = (dir, fmt, fw)"""
    quick = tier == "quick"
    out = []
    rel = mode == 1
    for f in FORMATS:
        b = BITS[f]
        for fw in (32, 64):
            key = ("i2f", f, fw)
            lo, total = fmin(f), 1 << b
            if b <= 16 or (b == 24 and (rel or not quick)):
                out += [(l, key, c) for l, c in split("oi2f", CODE[f], fw, lo, total, 1, 1 if b <= 16 else 8)]
            elif b == 32 and not quick and rel:
                out += [(l, key, c) for l, c in split("oi2f", CODE[f], fw, lo, total, 1, 32)]
            else:
                n = (2000000 if rel else 300000) if quick else (1 << 26 if rel else 1 << 22)
                out.append((f"ri2f {CODE[f]} {fw} {rng.range(1, 1 << 62)} {n}", key, n))
                cnt = 1000000 if quick else 1 << 22
                step = (total // cnt) | 1
                out += [(l, key, c) for l, c in split("oi2f", CODE[f], fw, lo, total // step, step, 1 if quick else 4)]
            key = ("f2i", f, fw)
            n = (2000000 if rel else 300000) if quick else (1 << 26 if rel else 1 << 22)
            out.append((f"rf2i {fw} {CODE[f]} {rng.range(1, 1 << 62)} {n}", key, n))
            if fw == 32:
                for (lo32, cnt32) in DOM32:
                    if not quick and rel:
                        # EVERY f32 bit pattern of the documented domain, every target format
                        out += [(l, key, c) for l, c in split("of2i", 32, CODE[f], lo32, cnt32, 1, 32)]
                    else:
                        step = 251 if quick else 61
                        out += [(l, key, c) for l, c in split("of2i", 32, CODE[f], lo32 + rng.below(step), (cnt32 - step) // step, step, 1 if quick else 4)]
            else:
                # f64: strided over the bit patterns of the domain + around every exponent
                span = 0x3FF0000000000000
                cnt = 1000000 if quick else 1 << 23
                step = (span // cnt) | 1
                for base in (0, 1 << 63):
                    out += [(l, key, c) for l, c in split("of2i", 64, CODE[f], base + rng.below(step), span // step - 1, step, 1 if quick else 4)]
    # the structured values (rounding ties of both parities, truncation steps, extremes), one line each
    rs = rng.fork("structured")
    for f in FORMATS:
        for fw in (32, 64):
            for v in structured_for(("i2f", f, fw), rs):
                out.append((f"oi2f {CODE[f]} {fw} {v} 1 1", ("i2f", f, fw), 1))
            for b in structured_for(("f2i", f, fw), rs):
                out.append((f"of2i {fw} {CODE[f]} {b} 1 1", ("f2i", f, fw), 1))
    for fw in (32, 64):
        for b in structured_for(("f2f", None, fw), rs):
            out.append((f"of2f {fw} 0 {b} 1 1", ("f2f", None, fw), 1))
        for b in structured_for(("same", None, fw), rs):
            out.append((f"of2f {fw} 1 {b} 1 1", ("same", None, fw), 1))
        n = (400000 if rel else 100000) if quick else 1 << 22
        out.append((f"rf2f {fw} 1 {rng.range(1, 1 << 62)} {n}", ("same", None, fw), n))
    for fw in (32, 64):
        key = ("f2f", None, fw)
        if fw == 32:
            if not quick and rel:
                out += [(l, key, c) for l, c in split("of2f", 32, 0, 0, 1 << 32, 1, 32)]
            else:
                step = 61 if quick else 7
                out += [(l, key, c) for l, c in split("of2f", 32, 0, rng.below(step), ((1 << 32) - step) // step, step, 4)]
        else:
            n = (8000000 if rel else 1000000) if quick else (1 << 27 if rel else 1 << 23)
            for q in range(4):
                out.append((f"rf2f 64 0 {rng.range(1, 1 << 62)} {n // 4}", key, n // 4))
    return out


def run_oracle(binpath, triples):
    """-> (evaluations, nontrivial, failures, error)"""
    if not triples:
        return 0, 0, [], None
    order = sorted(range(len(triples)), key=lambda i: (i % F.NCPU, i))
    rc, outl, err = F.run_bin_parallel(binpath, [triples[i][0] for i in order], timeout=3000)
    if rc != 0 or len(outl) != len(order):
        return 0, 0, [], f"rc={rc} lines={len(outl)}/{len(order)} stderr={err[-1500:]}"
    fails, n, nt = [], 0, 0
    for i, o in zip(order, outl):
        t = o.split()
        if t and t[0] == "1":
            n += int(t[1])
            nt += int(t[2])
        elif t and t[0] == "2":
            n += triples[i][2]
            fails.append(dict(key=triples[i][1], input=int(t[1]), tag=int(t[2]), got=int(t[3]), expected=int(t[4]),
                              nfail=int(t[5]), line=triples[i][0]))
        else:
            return n, nt, fails, f"unexpected oracle output {o[:200]!r} for {triples[i][0]!r}"
    return n, nt, fails, None


def structured_for(key, rng):
    d, f, fw = key
    if d == "i2f":
        return sorted(set(boundary(f)) | set(rounding_values(f, rng, 300)), key=lambda v: abs(v - offset(f)))
    if d == "f2i":
        return sorted(float_structured(fw, f), key=lambda b: (b & ~(1 << (fw - 1))), reverse=True)
    return f2f_inputs(rng, fw, 50)


def minimise_failure(binpath, fl, rng):
    """a readable witness: the first failing input among the structured values of that conversion, if any"""
    d, f, fw = fl["key"]
    op = {"i2f": "oi2f", "f2i": "of2i", "f2f": "of2f", "same": "of2f"}[d]
    a, b = (CODE[f], fw) if d == "i2f" else (fw, CODE[f]) if d == "f2i" else (fw, 1 if d == "same" else 0)
    cands = structured_for(fl["key"], rng)[:600]
    lines = [f"{op} {a} {b} {v} 1 1" for v in cands]
    rc, outl, _ = F.run_bin_parallel(binpath, lines)
    for v, o in zip(cands, outl):
        t = o.split()
        if t and t[0] == "2":
            return dict(fl, input=v, tag=int(t[2]), got=int(t[3]), expected=int(t[4]))
    return fl


def describe_fail(S, fl, mode, why=None):
    d, f, fw = fl["key"]
    got = {0: fl["got"], 6: f"{fl['got']} (outside [-1,1] / outside the target's range / round trip broken)",
           7: f"entry points disagree (Sample::to_sample vs Sample::from_sample / the module function conv::<src>::to_<dst>; replay the harness_line for all seven): {fl['got']} vs {fl['expected']}", 8: f"panic kind {fl['got']}"}.get(fl["tag"], fl["got"])
    what = {"i2f": "integer -> float conversion is not round_NE(amplitude)/2^(bits-1)",
            "f2i": "float -> integer conversion is not trunc(f*2^(bits-1)) (re-offset for unsigned)",
            "f2f": "f32 <-> f64 conversion is not the exact / correctly rounded value",
            "same": "conversion of a float sample to its own format (the blanket identity impl) does not return the sample"}[d]
    p = dict(kind=what, function=fn_name(S, d, f, fw), call=call_name(d, f, fw), profile="debug" if mode == 0 else "release",
             input=fl["input"], input_is="integer value" if d == "i2f" else "IEEE bit pattern", got=got, expected=fl["expected"],
             failing_inputs_in_that_sweep=fl["nfail"], harness_line=harness_line(d, f, fw, [fl["input"]]),
             case=dict(dir=d, f=f, fw=fw, mode=mode, vals=[fl["input"]]), replay="./check.py C02 --replay <this file>")
    if why:
        p["why"] = why
    return p


# ---------------------------------------------------------------------------
# TESTING ONLY: DASP_CONV_RS simulates an edited /repo/dasp_sample/src/conv.rs for translator AND harness


def scratch_harness():
    root = F.ensure_dir(os.path.join(F.OUT, "c02_scratch"))
    ds = os.path.join(root, "dasp_sample")
    if os.path.exists(ds):
        shutil.rmtree(ds)
    shutil.copytree(os.path.join(F.REPO, "dasp_sample"), ds)
    shutil.copy(TEST_CONV, os.path.join(ds, "src", "conv.rs"))
    h = os.path.join(root, "harness")
    F.ensure_dir(os.path.join(h, "src", "bin"))
    shutil.copy(os.path.join(F.HARNESS, "src", "lib.rs"), os.path.join(h, "src", "lib.rs"))
    shutil.copy(os.path.join(F.HARNESS, "src", "bin", "c02.rs"), os.path.join(h, "src", "bin", "c02.rs"))
    shutil.copy(os.path.join(F.HARNESS, "src", "direct.rs"), os.path.join(h, "src", "direct.rs"))
    F.write_if_changed(os.path.join(h, "Cargo.toml"),
                       '[package]\nname = "dasp_verif_harness"\nversion = "0.0.0"\nedition = "2018"\npublish = false\n\n[workspace]\n\n'
                       f'[dependencies]\ndasp_sample = {{ path = "{ds}" }}\n\n'
                       '[profile.dev]\nopt-level = 1\ndebug = false\noverflow-checks = true\ndebug-assertions = true\n\n'
                       '[profile.release]\nopt-level = 2\ndebug = false\noverflow-checks = false\ndebug-assertions = false\n')
    bins, logs = {}, ""
    for mode, rel in ((0, False), (1, True)):
        cmd = ["cargo", "build", "--offline", "--quiet", "--bin", "c02"] + (["--release"] if rel else [])
        env = {"RUSTFLAGS": f"--cfg {F.GUARD}", "CARGO_TARGET_DIR": os.path.join(h, "target")}
        rc, out = F.sh(cmd, cwd=h, env=env, timeout=1500)
        p = os.path.join(h, "target", "release" if rel else "debug", "c02")
        if rc != 0 or not os.path.exists(p):
            return None, out
        bins[mode] = p
        logs += out
    return bins, logs


def build_bins():
    if TEST_CONV:
        return scratch_harness()
    bins, logs = {}, ""
    for mode, rel in ((0, False), (1, True)):
        ok, log, path = F.harness_build("c02", release=rel)
        if not ok:
            return None, log
        bins[mode] = path
        logs += log
    return bins, logs


# ---------------------------------------------------------------------------
# proof phase with search for a failing input (DESIGN 5.1)


def broken_theorem(log):
    found = []
    for m in re.finditer(r'File "\./([^"]+)", line (\d+), characters[^\n]*\n((?:(?!File "|make).*\n){0,6})', log):
        path, line = m.group(1), int(m.group(2))
        lemma = None
        mm = re.search(r"\(in proof ([\w']+)\)", m.group(3))
        if mm:
            lemma = mm.group(1)
        else:
            try:
                src = open(os.path.join(F.COQ, path)).read().split("\n")
                for l in range(min(line, len(src)) - 1, -1, -1):
                    mm = re.match(r"\s*(?:Lemma|Theorem|Example|Definition|Corollary)\s+([\w']+)", src[l])
                    if mm:
                        lemma = mm.group(1)
                        break
            except OSError:
                pass
        found.append(dict(file="coq/" + path, line=line, lemma=lemma, message=" ".join(m.group(3).split())[:300]))
    if not found:
        return dict(file=None, lemma=None, message=log[-1500:], all=[])
    found.sort(key=lambda f: 0 if "/gen/ConvFloat" in f["file"] else 1 if "/gen/" in f["file"] else 2)
    return dict(found[0], all=found)


def model_search(S, rng):
    """DESIGN 5.1(a): the regenerated model against the hand-written executable reference, inside coqc"""
    ok, log = F.coq_make("theories/Sample/ConvFloatSearch.vo")
    if not ok:
        return None, "model does not build: " + log[-800:]
    exprs, keys = [], []
    for f in FORMATS:
        for fw in (32, 64):
            vals = structured_for(("i2f", f, fw), rng)
            exprs.append(f"spec_bad_i2f 0 {CODE[f]} {fw} [" + "; ".join(zt(v) for v in vals) + "]")
            keys.append(("i2f", f, fw))
            bits = float_structured(fw, f)[:120]
            exprs.append(f"spec_bad_f2i 0 {fw} {CODE[f]} [" + "; ".join(zt(v) for v in bits) + "]")
            keys.append(("f2i", f, fw))
    found = []
    # one coqc per 12 expressions, in parallel through coq_eval's directory tag
    from concurrent.futures import ThreadPoolExecutor

    def ev(k):
        part = exprs[k:k + 3]
        rc, out = F.coq_eval(f"c02_search{k}", SHEADER, "[" + ";\n".join(part) + "]")
        return k, rc, out
    with ThreadPoolExecutor(max_workers=F.NCPU) as ex:
        res = list(ex.map(ev, range(0, len(exprs), 3)))
    for k, rc, out in res:
        if rc != 0:
            return None, out[-800:]
        m = re.search(r"=\s*(\[.*\])\s*:\s*list \(list \(list Z\)\)", out, re.S)
        if not m:
            return None, "unparsable coqc output " + out[-400:]
        # split the outer list: each element is a list of rows
        txt = m.group(1).replace("\n", " ")
        depth, cur, groups = 0, "", []
        for ch in txt[1:-1]:
            if ch == "[":
                depth += 1
            if depth > 0:
                cur += ch
            if ch == "]":
                depth -= 1
                if depth == 0:
                    groups.append(cur)
                    cur = ""
        for j, g in enumerate(groups):
            rows = [[int(x) for x in re.findall(r"-?\d+", r)] for r in re.findall(r"\[([^\[\]]+)\]", g)]
            rows = [r for r in rows if len(r) >= 3]
            if rows and k + j < len(keys):
                d, f, fw = keys[k + j]
                r = rows[0]
                found.append(dict(key=keys[k + j], function=fn_name(S, d, f, fw), input=r[0], expected=r[1], model_observation=r[2:],
                                  n_failing_structured_inputs=len(rows)))
    return found, None


def search_failing_input(rep, S, bins, rng, tier, why):
    found_any = False
    details = dict(why)
    if bins:
        for mode in (1, 0):
            n, nt, fails, err = run_oracle(bins[mode], oracle_lines(rng.fork(f"search{mode}"), "quick", mode, for_search=True))
            details[f"oracle_evaluations_profile{mode}"] = n
            if err:
                details[f"oracle_error_profile{mode}"] = err
            seen = set()
            for fl in fails:
                if fl["key"] in seen or len(seen) >= 4:
                    continue
                seen.add(fl["key"])
                fl = minimise_failure(bins[mode], fl, rng.fork("min"))
                d, f, fw = fl["key"]
                rep.violation(f"{d}_{f or 'f'}_{fw}_{'debug' if mode == 0 else 'release'}", describe_fail(S, fl, mode, why))
                found_any = True
            if found_any:
                break
    if S is not None and not found_any:
        found, err = model_search(S, rng.fork("msearch"))
        if err:
            details["model_search_error"] = err
        for fm in (found or [])[:4]:
            d, f, fw = fm["key"]
            ob = fm["model_observation"]
            rep.violation(f"model_{d}_{f}_{fw}", dict(
                kind="the model regenerated from conv.rs does not compute the specified conversion (the implementation-level search found nothing: translator and source disagree, or the harness was built from another tree)",
                why=why, function=fm["function"], input=fm["input"], got=(ob[1] if ob[:1] == [0] else f"panic kind {ob[1:]}"),
                expected=fm["expected"], case=dict(dir=d, f=f, fw=fw, mode=0, vals=[fm["input"]])))
            found_any = True
    if not found_any:
        rep.violation("proof_broken", dict(kind="proof obligation no longer checks and no failing input was found", **details), no_input=True)
    return found_any


def proof_phase(rep, S, terr, bins, rng, tier):
    t = time.time()
    info = {"coq_ok": False, "theorems": [], "axioms": [], "coq_s": None}
    if terr is not None:
        search_failing_input(rep, None, bins, rng, tier,
                             dict(stage="translator", message="the model cannot be regenerated from conv.rs: " + terr))
        info["coq_s"] = round(time.time() - t, 1)
        return info
    ok, log = F.coq_prop_build(PROP)
    info["coq_ok"] = ok
    if not ok:
        bt = broken_theorem(log)
        search_failing_input(rep, S, bins, rng, tier,
                             dict(stage="proof", broken_theorem=bt.get("lemma"), file=bt.get("file"), line=bt.get("line"),
                                  coq_message=bt.get("message"), target="coq/props/C02.vo",
                                  all_broken=[f"{b['file']}:{b['line']} {b['lemma']}" for b in bt.get("all", [])]))
        info["broken"] = bt
        info["coq_s"] = round(time.time() - t, 1)
        return info
    problems, ainfo = F.coq_audit(PROP, log, F.AX_REALS)
    info.update(ainfo)
    info["coq_s"] = round(time.time() - t, 1)
    if problems:
        rep.violation("audit", {"kind": "audit of the Coq development failed", "problems": problems}, no_input=True)
    return info


# ---------------------------------------------------------------------------


def main(rep, tier, seed):
    rng = F.Rng(seed)
    times = {}
    t = time.time()
    changed = []
    try:
        S, changed = T.generate()
        changed += TP.generate(S)
        terr = None
    except T.TranslateError as e:
        S, terr = None, str(e)
    times["translate_s"] = round(time.time() - t, 2)
    if TEST_CONV:
        rep.notes.append(f"note: DASP_CONV_RS={TEST_CONV} (testing mode: translator and a scratch harness use this file instead of /repo's conv.rs)")
    t = time.time()
    bins, blog = build_bins()
    times["harness_build_s"] = round(time.time() - t, 1)
    if bins is None:
        rep.violation("harness_build", {"kind": "harness does not build against /repo", "log": blog[-4000:]}, no_input=True)
    info = proof_phase(rep, S, terr, bins, rng, tier)
    info["regenerated"] = changed
    if bins is None:
        return finish(rep, info, tier, {}, times)
    stats = dict(items=0, values=0, nontrivial=0, oracle=0, oracle_nontrivial=0, hist={}, samples=[], bad=0)
    # --- float base (Base/Float.v vs rustc)
    t = time.time()
    fb_n, fb_bad, fb_err = floatbase.run(rng.fork("floatbase"), 600 if tier == "quick" else 5000)
    for name, msg in fb_err:
        rep.violation("floatbase_error", {"kind": "float base validation could not be evaluated", "where": name, "log": msg}, no_input=True)
    for case, o in fb_bad[:3]:
        rep.violation("floatbase_case", {"kind": "Base/Float.v disagrees with rustc on an IEEE operation (model base, not dasp)", "case": case, "rustc": o}, no_input=True)
    stats["floatbase"] = dict(cases=fb_n, disagreements=len(fb_bad))
    times["floatbase_s"] = round(time.time() - t, 1)
    # --- correspondence: generated model (coqc) vs crate, both profiles
    t = time.time()
    if terr is None:
        ok, log = F.coq_make("theories/Sample/ConvFloatRun.vo")
        if not ok:
            rep.violation("model_build", {"kind": "generated model does not compile", "log": log[-3000:]}, no_input=True)
        else:
            items = gen_items(rng.fork("items"), tier)
            obs, bad, errors = correspond(bins, items, "c02")
            for name, msg in errors:
                rep.violation("correspondence_error_" + name.replace("/", "_"), {"kind": "correspondence could not be evaluated", "where": name, "log": msg}, no_input=True)
            collect_stats(stats, items, obs)
            stats["bad"] = len(bad)
            for idx in bad[:3]:
                it = items[idx]
                rows = pinpoint(bins, it)
                rep.violation(f"case{idx}", dict(
                    kind="model/implementation disagreement: the function translated from conv.rs (over Base/Float.v) and the crate's Sample::to_sample differ"
                         + (" OUTSIDE the documented domain (the property claims nothing there; translator, Base/Float.v cast semantics or harness fault)" if it["kind"] == "outside-domain" else " (a property violation if the specification column differs from the implementation, else a translator/semantics fault)"),
                    function=fn_name(S, it), call=call_name(it["dir"], it["f"], it["fw"]), profile="debug" if it["mode"] == 0 else "release",
                    disagreements=rows, case=dict(dir=it["dir"], f=it["f"], fw=it["fw"], mode=it["mode"], vals=[r["input"] for r in rows] or it["vals"][:8]),
                    harness_line=it["line"][:400], replay="./check.py C02 --replay <this file>"), no_input=not rows)
    times["correspondence_s"] = round(time.time() - t, 1)
    # --- crate vs exact-integer oracle (large sweeps); skipped when the search already ran it
    t = time.time()
    if info.get("coq_ok") and terr is None:
        for mode in (0, 1):
            triples = oracle_lines(rng.fork(f"oracle{mode}"), tier, mode)
            n, nt, fails, err = run_oracle(bins[mode], triples)
            stats["oracle"] += n
            stats["oracle_nontrivial"] += nt
            stats["hist"][f"oracle_profile{mode}"] = n
            for (_, key, c) in triples:
                hk = f"oracle:{key[0]}:{FW[key[2]]['name']}"
                stats["hist"][hk] = stats["hist"].get(hk, 0) + c
            if err:
                rep.violation(f"oracle_error_{mode}", {"kind": "oracle sweep could not be evaluated", "log": err}, no_input=True)
            seen = set()
            for fl in fails:
                if fl["key"] in seen or len(seen) >= 3:
                    continue
                seen.add(fl["key"])
                fl = minimise_failure(bins[mode], fl, rng.fork("min"))
                d, f, fw = fl["key"]
                p = describe_fail(S, fl, mode)
                p["kind"] += " (crate vs exact-integer oracle; the Coq proof is about the translated model: translator fault or harness built from another tree)"
                rep.violation(f"oracle_{d}_{f or 'f'}_{fw}_{mode}", p)
    times["oracle_s"] = round(time.time() - t, 1)
    return finish(rep, info, tier, stats, times)


def collect_stats(stats, items, obs):
    seen_nt = set()
    hist = stats["hist"]
    for it, o in zip(items, obs):
        if o is None:
            continue
        stats["items"] += 1
        d, f, fw = it["dir"], it["f"], it["fw"]
        n = len(it["vals"])
        stats["values"] += n
        for key in (f"kind:{it['kind']}", f"profile:{'debug' if it['mode'] == 0 else 'release'}", f"dir:{d}:{FW[fw]['name']}",
                    (f"fmt:{f}" if f else "fmt:float")):
            hist[key] = hist.get(key, 0) + n
        hist["panic_observations"] = hist.get("panic_observations", 0) + sum(1 for x in o.split(";") if x.startswith("8 "))
        if d == "i2f":
            for v in it["vals"]:
                if not SIGNED[f] or i2f_rounds(fw, v - offset(f)):
                    seen_nt.add((d, f, fw, v))
        elif d == "f2i" and it["kind"] != "outside-domain":
            for b in it["vals"]:
                e, frac = spec_f2i(f, fw, b)
                if e is not None and (frac or not SIGNED[f]):
                    seen_nt.add((d, f, fw, b))
        elif d == "f2f" and fw == 64:
            for b in it["vals"]:
                x = fvalue(64, b)
                if x is not None and x != 0 and fvalue(32, enc(32, x)) != x:
                    seen_nt.add((d, f, fw, b))
    stats["nontrivial"] += len(seen_nt)
    pick = [i for i in (0, len(items) // 3, 2 * len(items) // 3, len(items) - 1) if 0 <= i < len(items)]
    stats["samples"] = [f"[{'debug' if items[i]['mode'] == 0 else 'release'}] {items[i]['line'][:150]} -> {str(obs[i])[:150]}" for i in pick]


def finish(rep, info, tier, stats, times):
    th = info.get("theorems", [])
    cov = {
        "obligations": max(N_THEOREMS, len(th)), "discharged": len(th) if info.get("coq_ok") else 0,
        "checker_cmd": "translate/conv2coq.py + translate/convfloat_proofs.py; make -f Makefile.coq props/C02.vo (coqc 8.16.1, full .vo; 48 generated per-function lemmas in gen/ConvFloatProofs_*.v) + Print Assumptions audit",
        "trusted_base": F.TRUSTED_COMMON + [
            "axioms: Coq standard-library reals (ClassicalDedekindReals.sig_forall_dec, sig_not_dec, FunctionalExtensionality.functional_extensionality_dep, Classical_Prop.classic) through Reals/Flocq",
            "Flocq 4.1.0 BinarySingleNaN as IEEE-754; coq/theories/Base/Float.v as the meaning of Rust's `as` casts and float operators (validated against rustc: lib/floatbase.py and this correspondence)",
            "translate/conv2coq.py (Rust expression -> Gallina; typed, decimal literal -> nearest float) -- validated by the model-vs-crate correspondence in both profiles",
            "coq/theories/Sample/Rint.v for the integer twin conversions (C01)",
            "pinned token hashes of the macro definitions and trait glue of conv.rs; new_unchecked/inner identities checked textually in types.rs"],
        "theorems": th, "axioms_reported": info.get("axioms", []),
        "generated_function_lemmas": 48, "regenerated_files": info.get("regenerated", []),
        "evaluations": stats.get("values", 0) + stats.get("oracle", 0),
        "model_vs_crate_evaluations": stats.get("values", 0), "crate_vs_exact_integer_oracle_evaluations": stats.get("oracle", 0),
        "distinct_nontrivial": stats.get("nontrivial", 0), "oracle_nontrivial_evaluations": stats.get("oracle_nontrivial", 0),
        "rule": "entry points: every model-vs-crate value goes through Sample::to_sample, Sample::from_sample, ToSample::to_sample_, FromSample::from_sample_, both of those again with only a `Duplex<_>` bound in scope, and the module function conv::<src>::to_<dst> (harness/src/direct.rs); `0 r` only if all seven agree (the oracle sweeps use to_sample, from_sample and the module function). model-vs-crate (coqc vs crate, debug and release): f32 -> f32 and f64 -> f64 (the blanket identity impl; model Ok x, c02_same_format) on the f32<->f64 input set; integer -> f32/f64: every value of 8-bit formats (thorough: 16-bit), boundary values (MIN.., +-2^k+-1 on the amplitude, MAX), rounding-structured amplitudes (exact ties, tie+-1, carries for both mantissa widths) and random values of wider formats; f32/f64 -> integer: structured patterns of [-1,1) (+-0, subnormals, +-2^-k, 1-ulp, -1, neighbours of j*2^-(bits-1)) + random patterns of the domain + a separate outside-domain stream (>= 1, < -1, NaN, inf); f32 <-> f64 structured + random. crate-vs-oracle: exhaustive <= 16-bit integers (24-bit in release), random + strided sweeps otherwise; thorough release: every f32 bit pattern of [-1,1) for all 12 targets, every 32-bit integer, every f32 -> f64. non-trivial = distinct (conversion, input) in the model-vs-crate set whose exact result needs rounding/truncation (integer wider than the mantissa; f*2^(bits-1) not an integer; f64 value not representable in f32) or that involves an unsigned format",
        "samples": stats.get("samples", []),
        "input_distribution": dict(stats.get("hist", {}), source_regions_never_entered=cov_evidence.regions(PROP, "The float conversion bodies contain no branch (no `if`); the integer twins the unsigned paths call are C01's, whose evidence counts their arms.")),
        "disagreements": stats.get("bad", 0),
        "floatbase": stats.get("floatbase", {}),
        "timing": dict(times, coq_s=info.get("coq_s")),
        "explanation": "theorems: what Sample::to_sample dispatches to (translated from conv.rs on this run) is the correctly rounded amplitude/2^(bits-1) (int -> float) and trunc(f*2^(bits-1)) re-offset (float -> int, on [-1,1)), in both profiles, with the stated consequences; tie: generated model run by coqc against the crate through the public trait dispatch in both profiles, inside and outside the documented domain, plus the crate against an independent exact-integer oracle",
    }
    if info.get("broken"):
        cov["broken_theorem"] = info["broken"]
    return rep.finish("proof", cov, [
        "Rust's float operators and casts mean what Base/Float.v says (IEEE-754 round-to-nearest-even; `as` int saturating, truncating, NaN -> 0) -- validated against rustc, not proved",
        "the translator is faithful (validated by correspondence, not proved)",
        "float -> integer claims are restricted to the documented domain: finite, -1 <= f < 1 (conv.rs:10-14); outside it model and crate are compared but nothing is claimed"])


def replay(path):
    j = json.load(open(path))
    c = j.get("case")
    if not c:
        print("replay file names no concrete input:", json.dumps(j, indent=1)[:3000])
        return 1
    bins, blog = build_bins()
    if bins is None:
        print("harness does not build:", blog[-2000:])
        return 1
    d, f, fw, mode, vals = c["dir"], c["f"], c["fw"], c["mode"], c["vals"]
    rc, out, _ = F.run_bin(bins[mode], [harness_line(d, f, fw, vals)])
    impl = F.norm_obs_line(out[0]) if out else []
    try:
        T.generate(model_only=True)
    except T.TranslateError as e:
        print("translator:", e)
    F.coq_make("theories/Sample/ConvFloatRun.vo")
    _, mo = F.coq_eval("c02_replay", FHEADER, f"run_fcase ({coq_case(d, mode, f, fw, vals)})")
    model = parse_zll(mo)
    bad = 0
    print(f"{call_name(d, f, fw)}, {'debug' if mode == 0 else 'release'} build, function {j.get('function')}")
    for i, v in enumerate(vals):
        e = expectation(d, f, fw, v)
        a = impl[i] if i < len(impl) else None
        b = model[i] if model and i < len(model) else None
        verdict = "ok" if (a == b and (e is None or a == [0, e])) else "FAIL"
        bad += verdict != "ok"
        shown = "" if d == "i2f" else f" (= {float(fvalue(fw, v)) if fvalue(fw, v) is not None else 'NaN/inf'})"
        print(f"  input {v}{shown}: implementation {a}  model {b}  specification {e if e is not None else 'n/a (outside the domain)'}  {verdict}")
    print("AGREE" if not bad else "DISAGREE")
    return 1 if bad else 0
