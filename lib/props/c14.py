"""C14 — Buffered signals are a transparent prefetch of the source.
Proof: coq/props/C14.v (refinement of the Buffered model over the Bounded ring-buffer model to an
ideal prefetcher; stream, pull-block, exhaustion and padding theorems for every capacity >= 1, every
valid pre-filled (start,len) state, every source, every interleaving of next / next_frames with
partial drains).  Tie: correspondence between the model's executable definitions
(Signal/BufferedRun.v, evaluated by coqc) and dasp_signal's `source.buffered(ring_buffer)`, built in BOTH
cargo profiles (dev and --release), driven
over real `Bounded::from_raw_parts(start,len,data)` buffers with an instrumented from_iter source.
Tie 2 (translator, lib/siggen_util.py): on every run translate/ring2coq.py regenerates coq/gen/RingGen.v from
dasp_ring_buffer/src/lib.rs and translate/sig2coq.py regenerates coq/gen/BufferedGen.v from dasp_signal/src/lib.rs
(Signal::buffered, Buffered::next / next_frames / is_exhausted / into_parts, BufferedFrames::next; ring-buffer calls are
the generated ring methods, the source signal is abstract); Signal/BufferedGenEquiv.v proves every generated definition
equal to the hand model's on all inputs (c14_gen_agrees), so the refinement theorems are about the regenerated model.
When the translator rejects the source or a link of the chain no longer compiles (DESIGN 5.1/5.3) the first broken link
is named and the correspondence is the search for a failing input: hand model vs crate, then the regenerated model
(Signal/BufferedGenRun.v) vs crate and vs hand model; a failing input gives VIOLATION with a replay file, none gives a
VIOLATION ending no-failing-input-found that names the lemma / the translator error.
TESTING ONLY: DASP_SIGNAL_RS / DASP_RING_RS / DASP_SIGNAL_HARNESS=scratch, see lib/siggen_util.py."""
import json, os, itertools, hashlib
import framework as F
import siggen_util as G

PROP = "C14"
META = dict(
    technique="Coq refinement proof (Buffered model over the C06 Bounded model -> ideal prefetcher) + model regenerated from the source by a translator (on top of the regenerated ring buffer) and proved equal to the hand model + coqc-evaluated model vs crate correspondence",
    text="Machine-checked (Coq 8.16.1): a model of Buffered::next / next_frames / BufferedFrames / is_exhausted written after the source over the Bounded ring-buffer model (reusing the C06 push/pop/drain refinement lemmas) and of signal::from_iter with its one-frame look-ahead refines an ideal prefetcher for every capacity >= 1, every valid pre-filled (start,len) ring state, every source and every interleaving of next / next_frames (partially or fully drained): outputs ++ still-buffered ++ still-in-source = prefill ++ source ++ equilibrium padding; the source is pulled in blocks of exactly the capacity, only by an operation that finds the buffer empty; is_exhausted iff buffer empty and source exhausted; a run stopped at the first exhausted state has produced prefill ++ source ++ EQ^j with j < capacity; the loop of next exits within two iterations, no panic, no UB. The model is tied to the crate by running it inside coqc on the same scripts as the real crate (all short scripts from every raw state of capacities 1..5 and source lengths 0..13, random longer scripts) and comparing frames, both pull counters after every operation, size_hint, is_exhausted and the final into_parts() content exactly. Second tie: translate/sig2coq.py, a strict translator for the Rust subset the adaptor's methods use, regenerates coq/gen/BufferedGen.v from dasp_signal/src/lib.rs on every run (Signal::buffered, Buffered::next / next_frames / is_exhausted / into_parts, BufferedFrames::next; ring-buffer calls go to the ring methods regenerated from dasp_ring_buffer/src/lib.rs, the source signal is abstract; anything outside its grammar, a new / missing / overridden method or impl, another item touching the adaptor's types is an error) and Coq proves each generated definition equal to the hand model's on all inputs (c14_gen_agrees), so the refinement theorems are about the regenerated model (c14_gen_history); a broken link of the chain is named and the correspondence becomes the search for a failing input.",
    note="Trusted: Coq kernel; translate/sig2coq.py + translate/ring2coq.py and the vocabularies Signal/SigGenPrim.v, Ring/RingPrim.v (the &mut borrow BufferedFrames holds as state threading, the source signal as an abstract total state machine, `loop` as a fuel-bounded Fixpoint), the caller-side glue Signal/BufferedGenGlue.v; the hand-written model (the unbounded `loop` of next as a fuel-bounded loop proved to exit within 2 iterations; Rust slices as lists, usize as nat; frames as abstract values with a distinguished equilibrium) validated only through the correspondence; harness + python generators. Axioms: none.",
    design="6/C14")
HEADER = "From Dasp Require Import Signal.BufferedRun."
GEN_HEADER = "From Dasp Require Import Signal.BufferedRun Signal.BufferedGenRun."
GEN_SAMPLE = 6000      # cases kept for the search on the regenerated model when the translator tie is broken
CHECK = "check"
RUN_VO = "theories/Signal/BufferedRun.vo"


def coq_op(o):
    k = o[0]
    if k == "next":
        return "ZNext"
    if k in ("frames", "manual"):
        return f"ZFrames {F.zlit(o[1])}"
    if k == "all":
        return "ZFramesAll"
    if k == "hint":
        return "ZHint"
    if k == "exh":
        return "ZExh"
    raise ValueError(k)


def build(item, ops=None):
    it = dict(item)
    if ops is not None:
        it["ops"] = ops
    ops_txt = " , ".join(" ".join(str(t) for t in o) for o in it["ops"])
    ops_coq = "[" + "; ".join(coq_op(o) for o in it["ops"]) + "]"
    it["line"] = (f"{it['store']} {it['ftype']} {it['start']} {it['len']} | {' '.join(map(str, it['data']))} | "
                  f"{' '.join(map(str, it['src']))} ; {ops_txt}")
    it["coq"] = f"Case {F.zlit(it['start'])} {F.zlit(it['len'])} {F.zlist(it['data'])} {F.zlist(it['src'])} {ops_coq}"
    return it


def alphabet(cap):
    return ([["next"], ["all"], ["hint"], ["exh"], ["manual", cap + 2]] +
            [["frames", k] for k in range(0, cap + 2)])


def tail(cap, ln, srclen, one_by_one=False):
    """observation sweep past exhaustion with is_exhausted watched: one frame at a time, or in whole batches"""
    t = [["exh"]]
    if one_by_one:
        for _ in range(ln + srclen + 2 * cap + 1):
            t += [["next"], ["exh"]]
    else:
        for _ in range((ln + srclen + cap - 1) // cap + 2):
            t += [["all"], ["exh"]]
    return t


# Capacities with every residue structure an index shortcut of the ring buffer could depend on (1, 2, powers of
# two and their neighbours, even non-powers of two, odd composites, primes), next to the small exhaustive range
# (S-C12 / round 3: `& (cap - 1)` for every even capacity is wrong for 6, 10, 12, ...).
CAPSET = (1, 2, 3, 4, 5, 6, 7, 8, 9, 10, 12, 15, 16, 17, 24, 31, 32, 33, 48, 63, 64, 65, 96, 100, 127, 128, 129,
          255, 256, 257)


def corners(cap, top):
    """every value 0..top for the small capacities, the corner values for the others"""
    if cap <= 10:
        return list(range(top + 1))
    return sorted(v for v in {0, 1, 2, 3, cap // 2, cap - 2, cap - 1, cap} if v <= top)


def capset_cases(k):
    """deterministic: every capacity of CAPSET x prefill states (start, len) at every value (capacities <= 10) or at
    the corner values (above: every second pair of the corner grid up to 65, every third above, rotated so that every
    corner start and every corner len occurs with several partners); the source holds cap + 3 frames, so the prefill
    is drained and the ring refilled twice (the second refill padded with equilibrium): the ring's indices go round the
    storage at least twice from a refill start index (start + len) mod cap that takes the corner values.  Four
    scripts, rotated."""
    for cap in CAPSET:
        data = [10 * (i + 1) for i in range(cap)]
        src = [101 + i for i in range(cap + 3)]
        scripts = (
            [["next"], ["frames", cap // 2], ["next"], ["all"], ["exh"], ["next"], ["frames", cap - 1], ["next"], ["next"]],
            [["frames", 1], ["manual", cap + 2], ["hint"], ["next"], ["next"], ["frames", cap], ["exh"], ["next"]],
            [["hint"], ["all"], ["next"], ["next"], ["next"], ["frames", 2], ["hint"], ["all"], ["frames", cap + 1]],
            [["next"]] * 3 + [["exh"], ["all"], ["all"], ["next"], ["frames", cap - 2 if cap > 2 else 1], ["hint"]],
        )
        thin = 1 if cap <= 10 else (2 if cap <= 65 else 3)
        for i, start in enumerate(corners(cap, cap - 1)):
            for j, ln in enumerate(corners(cap, cap)):
                if (i + j + cap) % thin != 0:
                    continue
                yield build(dict(store=k % 4, ftype=(k // 4) % 2, start=start, len=ln, data=data, src=src,
                                 ops=[list(o) for o in scripts[(k // 3) % 4]] + (tail(cap, ln, len(src), k % 5 == 0) if cap <= 10 else
                                                                                 [["exh"], ["all"], ["exh"], ["all"], ["exh"], ["next"], ["exh"]]),
                                 group="capset"))
                k += 1


def gen_cases(rng, tier):
    """generator (the thorough tier is processed in chunks to bound memory)"""
    k = 0
    # 0. every capacity of CAPSET, prefill states at the corner values, two refills (see capset_cases)
    yield from capset_cases(0)
    # 1. every short script from every raw (start,len) state of capacities 1..5
    for cap in range(1, 6):
        data = [10 * (i + 1) for i in range(cap)]
        alpha = alphabet(cap)
        if tier == "quick":
            plans = [(0, list(range(0, 14))),
                     (1, list(range(0, 14)) if cap <= 3 else sorted({0, 1, cap - 1, cap, cap + 1, 2 * cap + 1, 13}))]
            if cap <= 3:
                plans.append((2, sorted({0, cap, cap + 1, 2 * cap + 1})))
        else:
            plans = [(0, list(range(0, 14))), (1, list(range(0, 14))), (2, list(range(0, 14)))]
            if cap <= 3:
                plans.append((3, list(range(0, 14)) if cap <= 2 else [0, 1, cap, cap + 1, 2 * cap + 1, 13]))
        for depth, srclens in plans:
            for start in range(cap):
                for ln in range(cap + 1):
                    for sl in srclens:
                        src = [101 + i for i in range(sl)]
                        for script in itertools.product(alpha, repeat=depth):
                            yield build(dict(store=k % 4, ftype=(k // 4) % 2, start=start, len=ln, data=data,
                                             src=src, ops=[list(o) for o in script] + tail(cap, ln, sl, depth == 0),
                                             group=f"exh{depth}"))
                            k += 1
    # constructor asserts (malformed raw parts, capacity 0)
    for cap in range(0, 4):
        data = [10 * (i + 1) for i in range(cap)]
        for start, ln in ((cap, 0), (0, cap + 1), (cap + 1, cap), (cap, cap + 1)):
            yield build(dict(store=k % 4, ftype=k % 2, start=start, len=ln, data=data, src=[1, 2],
                             ops=[["next"]], group="malformed"))
            k += 1
    # 2. random longer scripts
    n_rand = 2000 if tier == "quick" else 40000
    for j in range(n_rand):
        r = rng.fork(f"script{j}")
        cap = r.choice([1, 1, 2, 2, 3, 3, 4, 4, 5, 5, 6, 7, 8, 11, 16, 9, 10, 12])
        start = r.below(cap)
        ln = r.choice([0, cap, r.range(0, cap), r.range(0, cap)])
        sl = r.range(0, 13) if not r.chance(1, 10) else r.range(14, 40)
        src = [(0 if r.chance(1, 12) else 101 + i) for i in range(sl)]   # some source frames equal equilibrium
        data = [(0 if r.chance(1, 15) else 10 * (i + 1)) for i in range(cap)]
        nops = r.choice([5, 10, 20, 40, 40, 80 if tier == "thorough" else 40])
        ops = []
        for _ in range(nops):
            c = r.below(10)
            if c < 4:
                ops.append(["next"])
            elif c < 7:
                ops.append(["frames", r.choice([0, 1, 1, 2, cap - 1, cap, cap + 1, r.range(0, cap + 2)])])
            elif c == 7:
                ops.append(r.choice([["all"], ["manual", r.range(0, cap + 3)]]))
            elif c == 8:
                ops.append(["exh"])
            else:
                ops.append(r.choice([["hint"], ["exh"]]))
        yield build(dict(store=r.below(4), ftype=r.below(2), start=start, len=ln, data=data, src=src,
                         ops=ops + [["exh"]], group="random"))


def nontrivial(item, obs_line):
    """a refill (pull counter of the real source goes up during an op) happens while the ring's start
    index is not 0, or a partial drain (a batch that yields >=1 frame and leaves >=1) is followed by next.
    start/len are tracked here by index bookkeeping only (classification, not an oracle)."""
    cap = len(item["data"])
    if cap == 0 or item["start"] >= cap or item["len"] > cap:
        return False
    obs = obs_line.split(";")
    start, ln, p_prev = item["start"], item["len"], 0
    ops = item["ops"]
    for i, (o, ob) in enumerate(zip(ops, obs)):
        t = ob.split()
        if len(t) < 3 or t[0] == "8":
            return False
        p = int(t[1])
        refilled = p > p_prev
        p_prev = p
        if refilled:
            if start != 0:
                return True
            ln = cap
        if o[0] == "next":
            took = 1
        elif o[0] in ("frames", "manual", "all"):
            took = len(t) - 3
        else:
            took = 0
        start = (start + took) % cap
        ln -= took
        if o[0] in ("frames", "manual") and took >= 1 and ln >= 1 and i + 1 < len(ops) and ops[i + 1][0] == "next":
            return True
    return False


def load_corpus():
    d = os.path.join(F.VERIF, "corpus", PROP)
    items = []
    if os.path.isdir(d):
        for fn in sorted(os.listdir(d)):
            if fn.endswith(".json"):
                items.append(build(json.load(open(os.path.join(d, fn)))))
    return items


CASE_KEYS = ("store", "ftype", "start", "len", "data", "src", "ops")


def main(rep, tier, seed):
    rng = F.Rng(seed)
    info = G.tie_start(rep, PROP, "buffered")       # regenerate RingGen.v + BufferedGen.v, self-test, proofs, audit
    broken = info.get("broken")
    ok, blog, binpath = G.harness_build("c14")
    if not ok:
        rep.violation("harness_build", {"kind": "harness does not build against /repo", "log": blog[-4000:]}, no_input=True)
        tie_broken_without_input(rep, info, None)
        return finish(rep, info, 0, 0, {}, [])
    # second profile: release (no debug assertions, no overflow checks); the model is profile-independent
    ok, blog, relpath = G.harness_build("c14", release=True)
    if not ok:
        rep.violation("harness_build_release", {"kind": "harness does not build against /repo (release profile)", "log": blog[-4000:]}, no_input=True)
        return finish(rep, info, 0, 0, {}, [])
    bins = {"debug": binpath, "release": relpath}
    # the executable model is not in the closure of props/C14.v: build it from its current source
    ok, mlog = F.coq_make(RUN_VO)
    if not ok:
        rep.violation("model_build", {"kind": "executable model does not compile", "target": RUN_VO, "log_tail": mlog[-4000:]}, no_input=True)
        return finish(rep, info, 0, 0, {}, [])
    corpus = load_corpus()
    hist, caps, srcl, groups, stores = {}, {}, {}, {}, {}
    st = dict(n=0, refills=0, bad=0, errors=False, rel_n=0, rel_differs=0, rel_bad=0)
    nontriv, samples, bad_items = set(), [], []
    kept = ([], [])     # (items, debug observation lines) for the search on the regenerated model

    def process(chunk, base):
        outl, bad, errors = F.correspond(binpath, chunk, HEADER, CHECK, "c14")
        if broken and not errors and len(kept[0]) < GEN_SAMPLE:
            step = max(1, len(chunk) // (GEN_SAMPLE - len(kept[0])))
            for j in list(bad)[:50] + list(range(0, len(chunk), step)):
                kept[0].append(chunk[j])
                kept[1].append(outl[j])
        for name, msg in errors:
            st["errors"] = True
            rep.violation(f"correspondence_error_{base}_" + name.replace("/", "_"),
                          {"kind": "correspondence could not be evaluated", "where": name, "log": msg}, no_input=True)
        for it in chunk:
            for o in it["ops"]:
                hist[o[0]] = hist.get(o[0], 0) + 1
            for d, key in ((caps, len(it["data"])), (srcl, len(it["src"])), (groups, it.get("group", "corpus")),
                           (stores, f"store{it['store']}/ftype{it['ftype']}")):
                d[str(key)] = d.get(str(key), 0) + 1
        if not errors:
            for it, o in zip(chunk, outl):
                if nontrivial(it, o):
                    nontriv.add(hashlib.sha256(it["line"].encode()).digest()[:12])
                p_prev = 0
                for ob in o.split(";"):
                    t = ob.split()
                    if len(t) >= 3 and t[0] != "8":
                        st["refills"] += int(t[1]) > p_prev
                        p_prev = int(t[1])
        st["bad"] += len(bad)
        for idx in bad:
            if len(bad_items) < 3:
                bad_items.append((base + idx, chunk[idx], "debug"))
        # release profile on the same cases: the model was evaluated once (above, against the debug
        # observations); a release line equal to the debug line inherits its verdict, every release
        # line that differs is sent to coqc with its own observation
        if not errors:
            rc, rel, err = F.run_bin_parallel(relpath, [it["line"] for it in chunk])
            if rc != 0 or len(rel) != len(chunk):
                st["errors"] = True
                rep.violation(f"correspondence_error_{base}_release_harness",
                              {"kind": "release harness failed", "log": f"rc={rc} lines={len(rel)}/{len(chunk)} stderr={err[-1500:]}"}, no_input=True)
            else:
                st["rel_n"] += len(chunk)
                badset = set(bad)
                diff = [i for i in range(len(chunk)) if rel[i] != outl[i]]
                st["rel_differs"] += len(diff)
                rel_bad = [i for i in range(len(chunk)) if i in badset and rel[i] == outl[i]]
                if diff:
                    try:
                        terms = [f"({chunk[i]['coq']}, {F.zlistlist(F.norm_obs_line(rel[i]))})" for i in diff]
                        b2, e2 = F.coq_check_cases("c14_release", HEADER, CHECK, terms)
                    except ValueError as ex:
                        b2, e2 = [], [("harness", f"unparsable release observation: {ex}")]
                    for name, msg in e2:
                        st["errors"] = True
                        rep.violation(f"correspondence_error_{base}_release_" + name.replace("/", "_"),
                                      {"kind": "correspondence could not be evaluated (release)", "where": name, "log": msg}, no_input=True)
                    rel_bad += [diff[k] for k in b2]
                st["rel_bad"] += len(rel_bad)
                for idx in sorted(rel_bad):
                    if sum(1 for b in bad_items if b[2] == "release") < 3 and not any(b[0] == base + idx for b in bad_items):
                        bad_items.append((base + idx, chunk[idx], "release"))
        for j in (0, len(chunk) // 2, len(chunk) - 1):
            if len(samples) < 4 and chunk:
                samples.append(chunk[j]["line"])
        st["n"] += len(chunk)

    CHUNK = 25000
    chunk, base = [], 0
    for it in itertools.chain(corpus, gen_cases(rng, tier)):
        chunk.append(it)
        if len(chunk) >= CHUNK:
            process(chunk, base)
            base += len(chunk)
            chunk = []
    if chunk:
        process(chunk, base)
    for idx, it, profile in bad_items:
        pbin = bins[profile]

        def fails(c):
            o, b, e = F.correspond(pbin, [c], HEADER, CHECK, "c14_shrink")
            return bool(b) and not e

        small = F.shrink_ops(it, build, fails)
        obs_by_profile = {pn: F.run_bin(pb, [small["line"]])[1] for pn, pb in bins.items()}
        _, model = F.coq_eval("c14", HEADER, f"run_case ({small['coq']})")
        rep.violation(f"case{idx}_{profile}", {
            "kind": f"model/implementation disagreement in the {profile} profile: dasp_signal::Buffered does not behave as the prefetcher the proved model refines",
            "profile": profile, "case": {k: small[k] for k in CASE_KEYS}, **({"why": broken} if broken else {}),
            "harness_line": small["line"], "implementation_observations": obs_by_profile[profile],
            "observations_by_profile": obs_by_profile, "model_observations": model[-3000:],
            "original_case_index": idx, "replay": "./check.py C14 --replay <this file>"})
    if broken:
        search = {"hand_model_vs_crate_failing": st["bad"] + st["rel_bad"], "cases": st["n"]}
        found = bool(st["bad"] + st["rel_bad"])
        if broken["stage"] not in ("translator", "generated_ring_model") and not st["errors"]:
            def run_one(line):
                rc, o, _ = F.run_bin(binpath, [line])
                return o[0] if rc == 0 and len(o) == 1 else None
            gitems = [dict(it, coq=it["coq"]) for it in kept[0]]
            nc, nh, note = G.gen_search(rep, PROP, "buffered", GEN_HEADER, gitems, kept[1], broken, build, run_one, CASE_KEYS)
            search.update(generated_vs_crate_failing=nc, generated_vs_hand_failing=nh, cases_on_the_generated_model=len(gitems), note=note)
            found = found or bool(nc) or bool(nh)
        info["search"] = search
        if not found:
            tie_broken_without_input(rep, info, search)
    n_rand = groups.get("random", 0)
    dist = {"ops_histogram": hist, "capacity": caps, "source_length": srcl, "group": groups, "storage_and_frame_kind": stores,
            "exhaustive_short_script_cases": st["n"] - n_rand - len(corpus), "random_scripts": n_rand,
            "corpus_cases": len(corpus), "refills_observed": st["refills"], "capset_capacities": list(CAPSET)}
    profiles = {"debug": {"evaluations": st["n"], "disagreements": st["bad"],
                          "build": "cargo dev profile (debug assertions + overflow checks on)"},
                "release": {"evaluations": st["rel_n"], "disagreements": st["rel_bad"],
                            "observation_lines_differing_from_debug": st["rel_differs"],
                            "build": "cargo --release (debug assertions and overflow checks off)",
                            "method": "same cases; a release observation line identical to the debug line inherits the debug line's coqc verdict, every differing line is evaluated by coqc against the model"}}
    return finish(rep, info, st["n"] + st["rel_n"], 0 if st["errors"] else len(nontriv), dist, samples,
                  st["bad"] + st["rel_bad"], profiles)


def tie_broken_without_input(rep, info, search):
    broken = info.get("broken")
    if broken:
        rep.violation("translator_tie_broken", dict(
            kind=broken["message"] + " -- and no failing input was found"
                 + (": the hand model still agrees with the crate on every case" if search else " (the harness could not be built)")
                 + (", and so does the regenerated model" if search and search.get("generated_vs_crate_failing") == 0 else ""),
            search=search, **broken), no_input=True)


def finish(rep, info, n, nontriv, dist, samples, nbad=0, profiles=None):
    th = info.get("theorems", [])
    cov = {
        "obligations": max(1, len(th)), "discharged": len(th) if info.get("coq_ok") else 0,
        "checker_cmd": "translate/ring2coq.py /repo/dasp_ring_buffer/src/lib.rs > coq/gen/RingGen.v; translate/sig2coq.py buffered /repo/dasp_signal/src/lib.rs > coq/gen/BufferedGen.v; make -f Makefile.coq props/C14.vo (coqc 8.16.1, full .vo) + Print Assumptions audit",
        "translator": info.get("translator", {}), "translator_tie_broken": info.get("broken"), "search": info.get("search"),
        "trusted_base": F.TRUSTED_COMMON + [
            "axioms: none (every theorem of props/C14.v is closed under the global context)",
            "modelled, not verified: the unbounded `loop` of Buffered::next as a fuel-bounded loop (theorems: exits within 2 iterations for every fuel >= 2); Rust slices as lists, usize as nat; frames as abstract values with a distinguished equilibrium; the source is signal::from_iter over a finite fused iterator",
            "reused: the C06 Bounded model and its refinement lemmas (Ring/BoundedProofs.v)"] + G.TRUSTED,
        "theorems": th, "axioms_reported": info.get("axioms", []),
        "evaluations": n, "distinct_nontrivial": nontriv,
        "rule": "both cargo profiles (dev and --release) on: the capset family (30 capacities 1..257 covering 1, 2, powers of two and their neighbours, even non-powers of two, odd composites and primes x prefill (start,len) at every value (capacity <= 10) or on the corner grid {0,1,2,3,cap/2,cap-2,cap-1[,cap]} (thinned above 10), source of cap + 3 frames: prefill drained and two refills, four scripts rotated), every script of depth 0 and 1 (quick: depth 1 for capacities 4,5 on 7 source lengths, depth 2 for capacities <= 3 on 4 source lengths; thorough: depth 2 everywhere, depth 3 for capacities <= 3 (capacity 3 on 6 source lengths)) over {next, frames 0..cap+1, manual cap+2, all, hint, exh} from every raw (start,len) state of capacities 1..5 and source lengths 0..13, each followed by a drain past exhaustion (one frame at a time after the empty script, whole batches after the others) with is_exhausted watched, plus random scripts (2000 quick / 40000 thorough) on capacities 1..16, 4 storage kinds x 2 frame types; non-trivial = a refill (source pull counter rises) happens while the ring's start index != 0, or a partial drain (batch yields >= 1 frame and leaves >= 1) is directly followed by next",
        "samples": samples, "input_distribution": dist, "disagreements": nbad, "profiles": profiles or {},
        "explanation": "evaluations = cases x 2 build profiles (debug and release harness binaries run on the same cases; see profiles). theorems: refinement of the model to the ideal prefetcher and its stream / pull-block / exhaustion / padding consequences for all capacities, states, sources and histories; tie: the model's executable definitions run by coqc on the same cases as the real crate, every observation (frames, both pull counters after each op, size_hint, is_exhausted, final ring content) compared exactly",
    }
    return rep.finish("proof", cov, ["the source is signal::from_iter over a finite iterator (frames then equilibrium forever)",
                                    "Rust slices are modelled as lists and usize as unbounded nat",
                                    "the harness observes through the public API only (from_raw_parts gives arbitrary raw ring states; pulls counted by wrapping the source)"])


def replay(path):
    j = json.load(open(path))
    if "case" not in j:
        print("this replay file names a broken lemma / translator error and has no input; re-run ./check.py C14")
        print(json.dumps({k: j.get(k) for k in ("kind", "stage", "broken_lemma", "file", "line", "coq_message", "message")}, indent=1))
        return 1
    it = build(j["case"])
    if j.get("model") == "generated":
        tinfo, terr = G.regenerate("buffered")
        if terr:
            print("translator:", terr)
            return 1
        F.coq_make(G.GROUPS["buffered"]["run"])
        ok, blog, binpath = G.harness_build("c14")
        rc, out, _ = F.run_bin(binpath, [it["line"]])
        _, gmodel = F.coq_eval("c14", GEN_HEADER, f"gen_run_case ({it['coq']})")
        _, hmodel = F.coq_eval("c14", GEN_HEADER, f"run_case ({it['coq']})")
        print("case:", it["line"])
        print("implementation:", out)
        print("generated model:", gmodel)
        print("hand model:", hmodel)
        fn = "agree_gen" if j.get("against") == "hand" else "check_gen"
        bad, errs = F.coq_check_cases("c14_replay", GEN_HEADER, fn, [f"({it['coq']}, {F.zlistlist(F.norm_obs_line(out[0]))})"])
        print("AGREE" if not bad and not errs else "DISAGREE")
        return 1 if bad or errs else 0
    F.coq_make(RUN_VO)
    _, model = F.coq_eval("c14", HEADER, f"run_case ({it['coq']})")
    print("case:", it["line"])
    print("model:", model)
    worst = 0
    for profile, rel in (("debug", False), ("release", True)):
        ok, blog, binpath = G.harness_build("c14", release=rel)
        rc, out, _ = F.run_bin(binpath, [it["line"]])
        print(f"implementation[{profile}]:", out)
        o, bad, errs = F.correspond(binpath, [it], HEADER, CHECK, "c14_replay")
        print(f"[{profile}]", "AGREE" if not bad and not errs else "DISAGREE")
        worst |= 1 if bad or errs else 0
    return worst
